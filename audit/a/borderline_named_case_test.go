// BORDERLINE (not counted as a finding, see findings.md): ValueSet.Named is
// case-sensitive against the lower-cased key, so a value registered as
// Value{Name: "Foo"} cannot be found under the name it was registered with.
//
// Package/dir: package argmapper, module root.
//
//	go test -count=1 -run 'TestBorderline_NamedLookupCase' .
package argmapper

import (
	"reflect"
	"testing"
)

func TestBorderline_NamedLookupCase(t *testing.T) {
	vs, err := NewValueSet([]Value{{Name: "Foo", Type: reflect.TypeOf(0)}})
	if err != nil {
		t.Fatal(err)
	}
	if vs.Named("foo") == nil {
		t.Fatal("not even found by lower-cased name")
	}
	if vs.Named("Foo") == nil {
		t.Fatal(`vs.Named("Foo") == nil although the set was built from Value{Name: "Foo"}`)
	}
}
