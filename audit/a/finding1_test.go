// Finding 1 -- a converter (or built function) that returns two type-only
// values of the same Go type with different subtypes only offers the LAST one
// to the call graph; the other output is silently dropped, so a call that is
// satisfiable fails with ErrArgumentUnsatisfied.
//
// Package/dir: package argmapper, copy this file into the root of the
// go-argmapper module (next to func.go).
//
//	go test -count=1 -run 'TestFinding1' .
//
// All three tests FAIL on the unmodified library.
package argmapper

import (
	"reflect"
	"testing"

	"github.com/hashicorp/go-hclog"
)

type f1Out struct {
	Struct

	X int `argmapper:",typeOnly,subtype=x"`
	Y int `argmapper:",typeOnly,subtype=y"`
}

// Ordinary Go functions: provider func() f1Out, target wants `int` subtype x.
func TestFinding1_plainConverter(t *testing.T) {
	executed := 0
	conv := func() f1Out { executed++; return f1Out{X: 1, Y: 2} }

	// Introspection knows about both outputs ...
	cf := MustFunc(NewFunc(conv))
	if got := len(cf.Output().Values()); got != 2 {
		t.Fatalf("expected 2 outputs, got %d", got)
	}

	for _, tc := range []struct {
		name   string
		target interface{}
		want   int
	}{
		{"subtype x (first field)", func(in struct {
			Struct
			A int `argmapper:",typeOnly,subtype=x"`
		}) int {
			return in.A
		}, 1},
		{"subtype y (last field)", func(in struct {
			Struct
			A int `argmapper:",typeOnly,subtype=y"`
		}) int {
			return in.A
		}, 2},
	} {
		target := MustFunc(NewFunc(tc.target))
		r := target.Call(Converter(conv), Logger(hclog.NewNullLogger()))
		if err := r.Err(); err != nil {
			_, unsat := err.(*ErrArgumentUnsatisfied)
			t.Errorf("%s: satisfiable call failed (ErrArgumentUnsatisfied=%v); "+
				"the converter returns `int` subtype x and subtype y", tc.name, unsat)
			continue
		}
		if r.Out(0) != tc.want {
			t.Errorf("%s: got %v want %v", tc.name, r.Out(0), tc.want)
		}
	}
}

// The same through NewValueSet/BuildFunc (C15: the built function must deliver
// exactly the outputs the callback produced to downstream consumers).
func TestFinding1_builtFunc(t *testing.T) {
	intType := reflect.TypeOf(0)
	out, err := NewValueSet([]Value{
		{Type: intType, Subtype: "x"},
		{Type: intType, Subtype: "y"},
	})
	if err != nil {
		t.Fatal(err)
	}
	conv, err := BuildFunc(nil, out, func(in, out *ValueSet) error {
		out.TypedSubtype(intType, "x").Value = reflect.ValueOf(1)
		out.TypedSubtype(intType, "y").Value = reflect.ValueOf(2)
		return nil
	})
	if err != nil {
		t.Fatal(err)
	}

	// the caller sees both outputs ...
	r := conv.Call(Logger(hclog.NewNullLogger()))
	if err := out.FromResult(r); err != nil {
		t.Fatal(err)
	}
	if out.TypedSubtype(intType, "x").Value.Interface() != 1 ||
		out.TypedSubtype(intType, "y").Value.Interface() != 2 {
		t.Fatal("caller does not see the outputs")
	}

	// ... but a downstream consumer of `int` subtype x does not.
	in, err := NewValueSet([]Value{{Type: intType, Subtype: "x"}})
	if err != nil {
		t.Fatal(err)
	}
	var got interface{}
	target, err := BuildFunc(in, nil, func(in, out *ValueSet) error {
		got = in.TypedSubtype(intType, "x").Value.Interface()
		return nil
	})
	if err != nil {
		t.Fatal(err)
	}
	r = target.Call(ConverterFunc(conv), Logger(hclog.NewNullLogger()))
	if err := r.Err(); err != nil {
		t.Fatalf("downstream consumer of int/x not served: %T", err)
	}
	if got != 1 {
		t.Fatalf("got %v want 1", got)
	}
}

// Same root cause for named outputs: namedValues is keyed by name only, so of
// two outputs "v"/x and "v"/y (distinct values: they differ in subtype) only
// the last one is offered.
func TestFinding1_namedVariant(t *testing.T) {
	type outS struct {
		Struct

		A int `argmapper:"v,subtype=x"`
		B int `argmapper:"v,subtype=y"`
	}
	conv := func() outS { return outS{A: 1, B: 2} }
	target := MustFunc(NewFunc(func(in struct {
		Struct
		V int `argmapper:"v,subtype=x"`
	}) int {
		return in.V
	}))
	r := target.Call(Converter(conv), Logger(hclog.NewNullLogger()))
	if err := r.Err(); err != nil {
		t.Fatalf("satisfiable call failed: %T", err)
	}
	if r.Out(0) != 1 {
		t.Fatalf("got %v want 1", r.Out(0))
	}
}
