// Finding 2 -- NewFunc / NewValueSet / Convert never return (100% CPU spin)
// when a parameter, result or value type is a self-referential pointer type
// such as `type P *P`: isStruct (struct.go) strips pointers with
// `for t.Kind() == reflect.Ptr { t = t.Elem() }`, and for P, P.Elem() == P.
//
// Package/dir: package argmapper, copy this file into the root of the
// go-argmapper module (next to struct.go).
//
//	go test -count=1 -run 'TestFinding2' .
//
// Every subtest FAILS (times out after 2s) on the unmodified library. The
// spinning goroutines cannot be cancelled; they die with the test binary.
package argmapper

import (
	"reflect"
	"testing"
	"time"
)

// A perfectly legal, distinctly named Go type.
type f2P *f2P

func f2Returns(t *testing.T, name string, fn func()) {
	t.Helper()
	done := make(chan struct{})
	go func() {
		defer close(done)
		fn()
	}()
	select {
	case <-done:
	case <-time.After(2 * time.Second):
		t.Errorf("%s: did not return within 2s (infinite loop in isStruct)", name)
	}
}

func TestFinding2_recursivePointerType(t *testing.T) {
	// sanity: reflect itself has no problem with the type
	pt := reflect.TypeOf(f2P(nil))
	if pt.Kind() != reflect.Ptr || pt.Elem() != pt {
		t.Fatal("unexpected reflect behaviour")
	}

	f2Returns(t, "NewFunc(func(P) int)", func() {
		_, _ = NewFunc(func(p f2P) int { return 1 })
	})
	f2Returns(t, "NewFunc(func(int, P))", func() {
		_, _ = NewFunc(func(a int, p f2P) {})
	})
	f2Returns(t, "NewFunc(func() P)", func() {
		_, _ = NewFunc(func() f2P { return nil })
	})
	f2Returns(t, "NewValueSet({Type: P})", func() {
		_, _ = NewValueSet([]Value{{Name: "p", Type: pt}})
	})
	f2Returns(t, "Convert(P, Typed(P(nil)))", func() {
		var p f2P
		p = f2P(&p)
		_, _ = Convert(pt, Typed(p))
	})
}
