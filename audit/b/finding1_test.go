// Finding 1 -- C01 / C02: an interface-typed value labelled with subtype "bar"
// is injected into a parameter of the SAME interface type labelled with
// subtype "foo" (identical types, both subtypes present and different).
//
// Package / dir : package argmapper, copy this file into the module root
//                 (next to call.go).
// Run           : go test -count=1 -run 'TestFinding1' .
//
// Fails on the unmodified library: every sub-test reports that the target
// (or converter) was executed with the mis-labelled value instead of the call
// being refused with ErrArgumentUnsatisfied.
package argmapper

import (
	"testing"

	"github.com/hashicorp/go-hclog"
)

type f1Iface interface{ M() string }
type f1Impl struct{ s string }

func (v f1Impl) M() string { return v.s }

// provider of an f1Iface value carrying subtype "bar"
func f1ProviderBar() struct {
	Struct
	V f1Iface `argmapper:",typeOnly,subtype=bar"`
} {
	return struct {
		Struct
		V f1Iface `argmapper:",typeOnly,subtype=bar"`
	}{V: f1Impl{"value-with-subtype-bar"}}
}

func TestFinding1_TypeOnlyParam(t *testing.T) {
	ran := false
	target, err := NewFunc(func(in struct {
		Struct
		V f1Iface `argmapper:",typeOnly,subtype=foo"`
	}) string {
		ran = true
		return in.V.M()
	})
	if err != nil {
		t.Fatal(err)
	}

	r := target.Call(Logger(hclog.NewNullLogger()), Converter(f1ProviderBar))
	if r.Err() == nil || ran {
		t.Fatalf("type-only parameter f1Iface/subtype=foo: call was not refused; "+
			"target ran=%v and received %q (a value labelled subtype=bar)", ran, r.Out(0))
	}
	if _, ok := r.Err().(*ErrArgumentUnsatisfied); !ok {
		t.Fatalf("want *ErrArgumentUnsatisfied, got %T", r.Err())
	}
}

func TestFinding1_NamedParam(t *testing.T) {
	ran := false
	target, err := NewFunc(func(in struct {
		Struct
		V f1Iface `argmapper:",subtype=foo"`
	}) string {
		ran = true
		return in.V.M()
	})
	if err != nil {
		t.Fatal(err)
	}

	r := target.Call(Logger(hclog.NewNullLogger()), Converter(f1ProviderBar))
	if r.Err() == nil || ran {
		t.Fatalf("named parameter v f1Iface/subtype=foo: call was not refused; "+
			"target ran=%v and received %q (a value labelled subtype=bar)", ran, r.Out(0))
	}
}

// Control: with a non-interface type the very same shape IS refused, which
// shows the library's own rule is "different non-empty subtypes never match".
func TestFinding1_ControlConcreteType(t *testing.T) {
	target, err := NewFunc(func(in struct {
		Struct
		V int `argmapper:",typeOnly,subtype=foo"`
	}) int {
		return in.V
	})
	if err != nil {
		t.Fatal(err)
	}
	r := target.Call(Logger(hclog.NewNullLogger()), Converter(func() struct {
		Struct
		V int `argmapper:",typeOnly,subtype=bar"`
	} {
		return struct {
			Struct
			V int `argmapper:",typeOnly,subtype=bar"`
		}{V: 7}
	}))
	if r.Err() == nil {
		t.Fatalf("control unexpectedly succeeded with %v", r.Out(0))
	}
}
