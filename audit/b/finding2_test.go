// Finding 2 -- C05(b) / C13: a converter that returns two type-only values of
// the same Go type distinguished only by their subtype loses all but the last
// one. A target parameter asking for the first one is reported as
// "unsatisfied" although a supplied (input-less, acyclic) converter returns it.
//
// Package / dir : package argmapper, copy this file into the module root
//                 (next to call.go).
// Run           : go test -count=1 -run 'TestFinding2' .
//
// Fails on the unmodified library with ErrArgumentUnsatisfied listing
// "type: int (subtype: a)" as missing.
package argmapper

import (
	"testing"

	"github.com/hashicorp/go-hclog"
)

type f2Out struct {
	Struct
	X int `argmapper:",typeOnly,subtype=a"`
	Y int `argmapper:",typeOnly,subtype=b"`
}

func f2Provider() f2Out { return f2Out{X: 1, Y: 2} }

func TestFinding2_IntrospectionSeesBothOutputs(t *testing.T) {
	// Sanity: the library itself reports both outputs (C14), so the
	// converter is accepted and documented as producing int/a and int/b.
	f, err := NewFunc(f2Provider)
	if err != nil {
		t.Fatal(err)
	}
	vs := f.Output().Values()
	if len(vs) != 2 || vs[0].Subtype != "a" || vs[1].Subtype != "b" {
		t.Fatalf("unexpected outputs: %v", vs)
	}
}

func TestFinding2_FirstTypedOutputIsLost(t *testing.T) {
	target, err := NewFunc(func(in struct {
		Struct
		V int `argmapper:",typeOnly,subtype=a"`
	}) int {
		return in.V
	})
	if err != nil {
		t.Fatal(err)
	}

	r := target.Call(Logger(hclog.NewNullLogger()), Converter(f2Provider))
	if err := r.Err(); err != nil {
		if u, ok := err.(*ErrArgumentUnsatisfied); ok {
			t.Fatalf("parameter int/subtype=a reported unsatisfied (Args=%v) although "+
				"the supplied converter returns exactly int/subtype=a", u.Args)
		}
		t.Fatalf("unexpected error: %v", err)
	}
	if got := r.Out(0).(int); got != 1 {
		t.Fatalf("got %d, want 1 (the value labelled subtype=a)", got)
	}
}

func TestFinding2_BothNeeded(t *testing.T) {
	target, err := NewFunc(func(in struct {
		Struct
		V int `argmapper:",typeOnly,subtype=a"`
		W int `argmapper:",typeOnly,subtype=b"`
	}) int {
		return in.V*10 + in.W
	})
	if err != nil {
		t.Fatal(err)
	}
	r := target.Call(Logger(hclog.NewNullLogger()), Converter(f2Provider))
	if err := r.Err(); err != nil {
		t.Fatalf("call failed although the converter returns both values: %T", err)
	}
	if got := r.Out(0).(int); got != 12 {
		t.Fatalf("got %d, want 12", got)
	}
}

// Control: the last declared output of that type (subtype=b) works.
func TestFinding2_ControlLastOutputWorks(t *testing.T) {
	target, err := NewFunc(func(in struct {
		Struct
		V int `argmapper:",typeOnly,subtype=b"`
	}) int {
		return in.V
	})
	if err != nil {
		t.Fatal(err)
	}
	r := target.Call(Logger(hclog.NewNullLogger()), Converter(f2Provider))
	if r.Err() != nil || r.Out(0).(int) != 2 {
		t.Fatalf("control failed: %v", r.Err())
	}
}
