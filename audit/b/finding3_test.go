// Finding 3 -- C07 (name affinity), nondeterministic: the named parameter "a"
// is produced by converting the supplied value named "b" although a supplied
// value named "a" of the converter's input type exists.
//
// Package / dir : package argmapper, copy this file into the module root
//                 (next to call.go).
// Run           : go test -count=1 -run 'TestFinding3' .
//
// Fails on the unmodified library: roughly one call in three returns "2,2"
// instead of "1,2" (depends on map iteration / heap order, hence the loop).
package argmapper

import (
	"strconv"
	"testing"

	"github.com/hashicorp/go-hclog"
)

func TestFinding3_NameAffinityLostThroughSubtypeInheritance(t *testing.T) {
	target, err := NewFunc(func(in struct {
		Struct
		A string
		B string
	}) string {
		return in.A + "," + in.B
	})
	if err != nil {
		t.Fatal(err)
	}

	const n = 600
	bad := 0
	first := ""
	for i := 0; i < n; i++ {
		r := target.Call(
			Logger(hclog.NewNullLogger()),

			// two supplied named ints; "a" carries a subtype label
			NamedSubtype("a", 1, "s"),
			Named("b", 2),

			// the only way to make a string: a type-only converter
			Converter(func(i int) string { return strconv.Itoa(i) }),

			// an unrelated converter that takes "a int" by name (without
			// subtype). Never executed; it only makes the (valueless)
			// vertex value(a,int,"") exist in the graph.
			Converter(func(in struct {
				Struct
				A int
			}) float64 {
				return float64(in.A)
			}),
		)
		if r.Err() != nil {
			t.Fatalf("unexpected error: %v", r.Err())
		}
		if got := r.Out(0).(string); got != "1,2" {
			bad++
			if first == "" {
				first = got
			}
		}
	}
	if bad > 0 {
		t.Fatalf("%d of %d calls injected A,B = %q instead of \"1,2\": parameter "+
			"\"a\" was converted from the value named \"b\"", bad, n, first)
	}
}

// Control: without the subtype label on "a" the affinity always holds.
func TestFinding3_ControlNoSubtype(t *testing.T) {
	target, _ := NewFunc(func(in struct {
		Struct
		A string
		B string
	}) string {
		return in.A + "," + in.B
	})
	for i := 0; i < 600; i++ {
		r := target.Call(
			Logger(hclog.NewNullLogger()),
			Named("a", 1),
			Named("b", 2),
			Converter(func(i int) string { return strconv.Itoa(i) }),
			Converter(func(in struct {
				Struct
				A int
			}) float64 {
				return float64(in.A)
			}),
		)
		if r.Err() != nil || r.Out(0).(string) != "1,2" {
			t.Fatalf("control failed: %v %v", r.Err(), r.Out(0))
		}
	}
}
