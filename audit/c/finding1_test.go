// Finding 1 (C08): a redefined function loses the static (interface) type of
// its named inputs and then fails "for lack of an argument" although it was
// handed a value for every declared input.
//
// Package/dir: package argmapper_test, copy into the root of the library
// worktree (next to redefine.go).
//
//   cp finding1_test.go /tmp/hunt/c/wt/ && cd /tmp/hunt/c/wt && \
//     go test -count=1 -run 'TestFinding1' .
//
// Both tests FAIL on the unmodified library.
package argmapper_test

import (
	"bytes"
	"io"
	"reflect"
	"testing"

	"github.com/hashicorp/go-argmapper"
	"github.com/hashicorp/go-hclog"
)

type f1In struct {
	argmapper.Struct
	R io.Reader // a NAMED parameter "r" of interface type io.Reader
}

type f1Out struct {
	argmapper.Struct
	R io.Reader // a NAMED output "r" of exactly the type io.Reader
}

// The redefined function is used as a converter. The value it is injected
// with is a label- and type-exact match (name "r", type io.Reader) produced
// by another converter, so the known limitation "a named implementation is
// not matched to a named interface parameter" plays no role: the outer call
// resolves fine and really invokes the redefined function. The failure
// happens INSIDE the redefined function.
func TestFinding1_AsConverter(t *testing.T) {
	hclog.L().SetLevel(hclog.Error)

	orig, err := argmapper.NewFunc(func(in f1In) int { return 42 })
	if err != nil {
		t.Fatal(err)
	}
	provider := func() f1Out { return f1Out{R: bytes.NewBufferString("x")} }
	target, err := argmapper.NewFunc(func(n int) int { return n })
	if err != nil {
		t.Fatal(err)
	}

	// Baseline: with the original function as the converter all is well.
	res := target.Call(argmapper.ConverterFunc(orig), argmapper.Converter(provider))
	if err := res.Err(); err != nil {
		t.Fatalf("baseline with original function failed: %v", err)
	}
	if res.Out(0) != 42 {
		t.Fatalf("baseline: got %v", res.Out(0))
	}

	// Redefine with nothing supplied: same single input, name "r", type io.Reader.
	red, err := orig.Redefine()
	if err != nil {
		t.Fatal(err)
	}
	if vs := red.Input().Values(); len(vs) != 1 || vs[0].Name != "r" ||
		vs[0].Type != reflect.TypeOf((*io.Reader)(nil)).Elem() {
		t.Fatalf("unexpected inputs of redefined function: %v", vs)
	}

	res = target.Call(argmapper.ConverterFunc(red), argmapper.Converter(provider))
	if err := res.Err(); err != nil {
		t.Fatalf("DEFECT: the redefined function was given its only declared "+
			"input (name \"r\", type io.Reader) and failed for lack of an argument: %T", err)
	}
	if res.Out(0) != 42 {
		t.Fatalf("got %v, want 42", res.Out(0))
	}
}

// Same defect, seen by invoking the Go function behind the redefined Func
// directly with a fully populated input struct.
func TestFinding1_DirectInvoke(t *testing.T) {
	hclog.L().SetLevel(hclog.Error)

	orig, err := argmapper.NewFunc(func(in f1In) int { return 42 })
	if err != nil {
		t.Fatal(err)
	}
	red, err := orig.Redefine()
	if err != nil {
		t.Fatal(err)
	}

	fn := reflect.ValueOf(red.Func())
	in := reflect.New(fn.Type().In(0)).Elem()
	// field 0 is the embedded argmapper.Struct marker, field 1 is "r".
	in.Field(1).Set(reflect.ValueOf(bytes.NewBufferString("x")))
	out := fn.Call([]reflect.Value{in})
	if e := out[len(out)-1].Interface(); e != nil {
		t.Fatalf("DEFECT: redefined function called with a value for every "+
			"declared input failed with %T", e)
	}
	if got := out[0].Interface(); got != 42 {
		t.Fatalf("got %v, want 42", got)
	}
}
