// Finding 2 (C08 "Redefine fails when an output is rejected by the output
// filter" + C16 "defaults given at construction apply otherwise"): an output
// filter given as a construction-time default of the Func is silently ignored
// by Redefine, although the input filter given the same way is honoured.
//
// Package/dir: package argmapper_test, copy into the root of the library
// worktree.
//
//   cp finding2_test.go /tmp/hunt/c/wt/ && cd /tmp/hunt/c/wt && \
//     go test -count=1 -run 'TestFinding2' .
//
// TestFinding2_DefaultFilterOutput FAILS on the unmodified library; the two
// control tests pass and show the asymmetry.
package argmapper_test

import (
	"reflect"
	"testing"

	"github.com/hashicorp/go-argmapper"
	"github.com/hashicorp/go-hclog"
)

var f3String = reflect.TypeOf("")

func TestFinding2_DefaultFilterOutput(t *testing.T) {
	hclog.L().SetLevel(hclog.Error)
	// The function returns an int, the output filter only admits strings.
	f, err := argmapper.NewFunc(func(a int) int { return a },
		argmapper.FilterOutput(argmapper.FilterType(f3String)))
	if err != nil {
		t.Fatal(err)
	}
	if _, err := f.Redefine(); err == nil {
		t.Fatal("DEFECT: output int is rejected by the (default) output filter, Redefine must fail")
	}
}

// Control: the same filter given to Redefine directly is enforced.
func TestFinding2_ControlCallTimeFilterOutput(t *testing.T) {
	hclog.L().SetLevel(hclog.Error)
	f, err := argmapper.NewFunc(func(a int) int { return a })
	if err != nil {
		t.Fatal(err)
	}
	if _, err := f.Redefine(argmapper.FilterOutput(argmapper.FilterType(f3String))); err == nil {
		t.Fatal("call-time FilterOutput not enforced")
	}
}

// Control: a default FilterInput IS enforced by Redefine.
func TestFinding2_ControlDefaultFilterInput(t *testing.T) {
	hclog.L().SetLevel(hclog.Error)
	f, err := argmapper.NewFunc(func(a int) int { return a },
		argmapper.FilterInput(argmapper.FilterType(f3String)))
	if err != nil {
		t.Fatal(err)
	}
	if _, err := f.Redefine(); err == nil {
		t.Fatal("default FilterInput not enforced")
	}
}
