// Finding 3 (C08 "yields the original function's own results"): when the
// target returns values together with a non-nil error, the redefined
// function replaces all the values by zero values.
//
// Package/dir: package argmapper_test, copy into the root of the library
// worktree.
//
//   cp finding3_test.go /tmp/hunt/c/wt/ && cd /tmp/hunt/c/wt && \
//     go test -count=1 -run 'TestFinding3' .
//
// FAILS on the unmodified library.
package argmapper_test

import (
	"io"
	"testing"

	"github.com/hashicorp/go-argmapper"
	"github.com/hashicorp/go-hclog"
)

func TestFinding3_ResultsDroppedWhenTargetReturnsError(t *testing.T) {
	hclog.L().SetLevel(hclog.Error)
	// Like io.Reader.Read: a count AND io.EOF.
	f, err := argmapper.NewFunc(func(a int) (int, error) { return a * 2, io.EOF })
	if err != nil {
		t.Fatal(err)
	}
	orig := f.Call(argmapper.Typed(21))
	if orig.Err() != io.EOF || orig.Len() != 1 || orig.Out(0) != 42 {
		t.Fatalf("original: %v %v", orig.Out(0), orig.Err())
	}

	red, err := f.Redefine()
	if err != nil {
		t.Fatal(err)
	}
	res := red.Call(argmapper.Typed(21))
	if res.Err() != io.EOF || res.Len() != 1 {
		t.Fatalf("redefined: len %d err %v", res.Len(), res.Err())
	}
	if res.Out(0) != orig.Out(0) {
		t.Fatalf("DEFECT: redefined function returned %v, the original function returned %v",
			res.Out(0), orig.Out(0))
	}
}
