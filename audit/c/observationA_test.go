// Observation A (debatable, NOT claimed as a confirmed defect; C08 / Redefine doc comment): Redefine demands inputs that are
// NOT missing. Whenever the input filter permits a target parameter (always,
// when no filter is given), the planner prefers a hypothetical new input over
// a value the caller already supplied that satisfies that very parameter
// under the library's own matching rules - unless the supplied value has
// exactly the same vertex identity (same name+type, or same type-only type).
//
// Package/dir: package argmapper_test, copy into the root of the library
// worktree.
//
//   cp observationA_test.go /tmp/hunt/c/wt/ && cd /tmp/hunt/c/wt && \
//     go test -count=1 -run 'TestObservationA' .
//
// All three tests FAIL on the unmodified library.
package argmapper_test

import (
	"bytes"
	"io"
	"testing"

	"github.com/hashicorp/go-argmapper"
	"github.com/hashicorp/go-hclog"
)

// A type-only int parameter; the caller supplies a named int. Call is happy
// with just that, so nothing is missing; Redefine nevertheless returns a
// function that requires a (type-only) int.
func TestObservationA_TypedParamNamedValueSupplied(t *testing.T) {
	hclog.L().SetLevel(hclog.Error)
	f, err := argmapper.NewFunc(func(a int) int { return a })
	if err != nil {
		t.Fatal(err)
	}
	if res := f.Call(argmapper.Named("x", 5)); res.Err() != nil || res.Out(0) != 5 {
		t.Fatalf("Call with the same arguments must succeed: %v", res.Err())
	}

	red, err := f.Redefine(argmapper.Named("x", 5))
	if err != nil {
		t.Fatal(err)
	}
	if vs := red.Input().Values(); len(vs) != 0 {
		t.Errorf("DEFECT: nothing is missing, yet the redefined function requires %v", vs)
	}

	// Consequence: the demanded input is not even used reliably. The
	// supplied x=5 and the newly demanded int tie in the real call.
	seen := map[interface{}]int{}
	for i := 0; i < 300; i++ {
		res := red.Call(argmapper.Typed(23))
		if res.Err() != nil {
			t.Fatal(res.Err())
		}
		seen[res.Out(0)]++
	}
	if len(seen) != 1 {
		t.Errorf("DEFECT: redefined function is nondeterministic for one and the same input: %v", seen)
	}
}

// A named parameter; the caller supplies a type-only value of its type.
func TestObservationA_NamedParamTypedValueSupplied(t *testing.T) {
	hclog.L().SetLevel(hclog.Error)
	f, err := argmapper.NewFunc(func(in struct {
		argmapper.Struct
		A int
	}) int {
		return in.A
	})
	if err != nil {
		t.Fatal(err)
	}
	if res := f.Call(argmapper.Typed(5)); res.Err() != nil || res.Out(0) != 5 {
		t.Fatalf("Call with the same arguments must succeed: %v", res.Err())
	}
	red, err := f.Redefine(argmapper.Typed(5))
	if err != nil {
		t.Fatal(err)
	}
	if vs := red.Input().Values(); len(vs) != 0 {
		t.Errorf("DEFECT: nothing is missing, yet the redefined function requires %v", vs)
	}
}

// An interface parameter; the caller supplies an implementation.
func TestObservationA_InterfaceParamImplementationSupplied(t *testing.T) {
	hclog.L().SetLevel(hclog.Error)
	f, err := argmapper.NewFunc(func(r io.Reader) int { return 1 })
	if err != nil {
		t.Fatal(err)
	}
	if res := f.Call(argmapper.Typed(&bytes.Buffer{})); res.Err() != nil {
		t.Fatalf("Call with the same arguments must succeed: %v", res.Err())
	}
	red, err := f.Redefine(argmapper.Typed(&bytes.Buffer{}))
	if err != nil {
		t.Fatal(err)
	}
	if vs := red.Input().Values(); len(vs) != 0 {
		t.Errorf("DEFECT: nothing is missing, yet the redefined function requires %v", vs)
	}
}
