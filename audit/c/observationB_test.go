// Observation B (minor, debatable, NOT claimed as a confirmed defect; C08 "yields the original function's own results for the
// original arguments"): the function returned by Redefine keeps a reference
// to the caller's variadic option slice instead of a copy. Re-using that
// slice afterwards silently changes functions that were redefined earlier.
//
// Package/dir: package argmapper_test, copy into the root of the library
// worktree.
//
//   cp observationB_test.go /tmp/hunt/c/wt/ && cd /tmp/hunt/c/wt && \
//     go test -count=1 -run 'TestObservationB' .
//
// FAILS on the unmodified library.
package argmapper_test

import (
	"testing"

	"github.com/hashicorp/go-argmapper"
	"github.com/hashicorp/go-hclog"
)

func TestObservationB_RedefineAliasesOptionSlice(t *testing.T) {
	hclog.L().SetLevel(hclog.Error)
	f, err := argmapper.NewFunc(func(in struct {
		argmapper.Struct
		A, B int
	}) int {
		return in.A*10 + in.B
	})
	if err != nil {
		t.Fatal(err)
	}

	opts := []argmapper.Arg{argmapper.Named("a", 0)}
	var reds []*argmapper.Func
	for i := 1; i <= 3; i++ {
		opts[0] = argmapper.Named("a", i) // re-use the buffer
		red, err := f.Redefine(opts...)
		if err != nil {
			t.Fatal(err)
		}
		reds = append(reds, red)
	}
	for i, red := range reds {
		res := red.Call(argmapper.Named("b", 5))
		if res.Err() != nil {
			t.Fatal(res.Err())
		}
		if want := (i+1)*10 + 5; res.Out(0) != want {
			t.Errorf("DEFECT: function redefined with a=%d returns %v, want %d", i+1, res.Out(0), want)
		}
	}
}
