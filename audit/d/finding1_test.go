// Finding 1 (C12): Call/Convert/Redefine read the *contents* of every
// Typed()/TypedSubtype() input with fmt "%v" (via graph.String(), evaluated
// eagerly as a log argument even when logging is off). A value that is shared
// by concurrent calls and mutated by the target/converters under the user's
// own lock is therefore read by the library without synchronisation: data
// race, and for map-carrying values a fatal "concurrent map iteration and map
// write" that kills the process.
//
// Package/dir: package argmapper_test, copy into the root of the worktree
//   cp finding1_test.go /tmp/hunt/d/wt/finding1_test.go
// Run (from /tmp/hunt/d/wt):
//   go test -race -count=1 -run 'TestFinding1_Race' .        # fails: DATA RACE reported
//   go test       -count=1 -run 'TestFinding1_MapCrash' .    # fails: child process dies with a fatal error (no -race needed)
package argmapper_test

import (
	"os"
	"os/exec"
	"strings"
	"sync"
	"testing"

	"github.com/hashicorp/go-argmapper"
	"github.com/hashicorp/go-hclog"
)

// f1Registry is an ordinary, correctly synchronised shared service object.
type f1Registry struct {
	mu sync.Mutex
	n  int
	m  map[int]int
}

func f1Run(t *testing.T, goroutines, iters int) {
	reg := &f1Registry{m: map[int]int{}}

	// An ordinary Go function. All accesses to *reg are under reg.mu.
	target, err := argmapper.NewFunc(func(r *f1Registry, k int) int {
		r.mu.Lock()
		defer r.mu.Unlock()
		r.n++
		r.m[k%64]++
		return r.n
	})
	if err != nil {
		t.Fatal(err)
	}

	// The same option values are shared by all goroutines. Logging is
	// switched off completely.
	shared := []argmapper.Arg{
		argmapper.Typed(reg),
		argmapper.Typed(7),
		argmapper.Logger(hclog.NewNullLogger()),
	}

	var wg sync.WaitGroup
	for i := 0; i < goroutines; i++ {
		wg.Add(1)
		go func() {
			defer wg.Done()
			for j := 0; j < iters; j++ {
				if r := target.Call(shared...); r.Err() != nil {
					t.Error(r.Err())
					return
				}
			}
		}()
	}
	wg.Wait()

	reg.mu.Lock()
	defer reg.mu.Unlock()
	if reg.n != goroutines*iters {
		t.Fatalf("n = %d, want %d", reg.n, goroutines*iters)
	}
}

// Run with -race: the race detector reports a read in fmt.(*pp).printValue
// <- (*typedOutputVertex).String <- graph.(*Graph).String <- (*Func).callGraph
// racing with the write inside the target function.
func TestFinding1_Race(t *testing.T) {
	f1Run(t, 8, 200)
}

// No -race needed: the unsynchronised fmt read iterates reg.m while another
// call's target writes to it (under reg.mu) and the runtime aborts the
// process with "fatal error: concurrent map iteration and map write".
func TestFinding1_MapCrash(t *testing.T) {
	if os.Getenv("F1_CHILD") == "1" {
		f1Run(t, 8, 5000)
		return
	}
	cmd := exec.Command(os.Args[0], "-test.run", "^TestFinding1_MapCrash$", "-test.count=1")
	cmd.Env = append(os.Environ(), "F1_CHILD=1")
	out, err := cmd.CombinedOutput()
	if err != nil {
		s := string(out)
		if i := strings.Index(s, "fatal error"); i >= 0 {
			s = s[i:]
		}
		if len(s) > 1500 {
			s = s[:1500]
		}
		t.Fatalf("concurrent Calls sharing a mutex-guarded value crashed the process: %v\n%s", err, s)
	}
}
