// Finding 2 (C06; same root cause as finding 1): Call/Convert/Redefine format
// every Typed()/TypedSubtype() input with fmt "%v" even when logging is off.
// fmt does not detect cycles through maps/slices, so a self-referential value
// (perfectly legal Go data, e.g. a scope/environment map that contains itself)
// makes a trivial, satisfiable Call die with an unrecoverable
// "fatal error: stack overflow". A value whose String() method takes a lock
// the caller holds dead-locks for the same reason.
//
// Package/dir: package argmapper_test, copy into the root of the worktree
//   cp finding2_test.go /tmp/hunt/d/wt/finding2_test.go
// Run (from /tmp/hunt/d/wt):
//   go test -count=1 -run 'TestFinding2' .
package argmapper_test

import (
	"os"
	"os/exec"
	"reflect"
	"strings"
	"testing"

	"github.com/hashicorp/go-argmapper"
	"github.com/hashicorp/go-hclog"
)

// f2Scope is a distinctly named type; the function below is non-variadic and
// repeats no name or type: a well-formed use in the sense of C06.
type f2Scope map[string]interface{}

func f2Child(t *testing.T) {
	scope := f2Scope{"x": 1}
	scope["self"] = scope // e.g. an environment that can look itself up

	target, err := argmapper.NewFunc(func(s f2Scope) int { return len(s) })
	if err != nil {
		t.Fatal(err)
	}

	off := argmapper.Logger(hclog.NewNullLogger())
	switch os.Getenv("F2_CHILD") {
	case "call":
		r := target.Call(argmapper.Typed(scope), off)
		if r.Err() != nil || r.Out(0) != 2 {
			t.Fatalf("unexpected result: %v", r.Err())
		}
	case "convert":
		v, err := argmapper.Convert(reflect.TypeOf(scope), argmapper.Typed(scope), off)
		if err != nil || len(v.(f2Scope)) != 2 {
			t.Fatalf("unexpected result: %v", err)
		}
	case "redefine":
		if _, err := target.Redefine(argmapper.Typed(scope), off); err != nil {
			t.Fatalf("unexpected result: %v", err)
		}
	}
}

func TestFinding2_SelfReferentialValue(t *testing.T) {
	if os.Getenv("F2_CHILD") != "" {
		f2Child(t)
		return
	}
	for _, mode := range []string{"call", "convert", "redefine"} {
		cmd := exec.Command(os.Args[0], "-test.run", "^TestFinding2_SelfReferentialValue$", "-test.count=1")
		cmd.Env = append(os.Environ(), "F2_CHILD="+mode)
		out, err := cmd.CombinedOutput()
		if err != nil {
			s := string(out)
			if i := strings.Index(s, "fatal error"); i >= 0 {
				s = s[i:]
			}
			if len(s) > 200 {
				s = s[:200]
			}
			lib := ""
			if strings.Contains(string(out), "(*typedOutputVertex).String") {
				lib = " (stack goes through (*typedOutputVertex).String <- graph.(*Graph).String <- (*Func).callGraph)"
			}
			t.Errorf("%s with an exactly matching typed value did not return, process died: %v%s\n%s", mode, err, lib, s)
		}
	}
}
