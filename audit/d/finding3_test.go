// Finding 3 (C19): AddEdge/AddEdgeWeighted with an endpoint that is not (or no
// longer) in the graph panics instead of "doing nothing" as documented, and
// when only the head is missing it panics half-way, leaving a dangling
// out-edge with no mirrored in-edge.
//
// Package/dir: package graph, copy into internal/graph of the worktree
//   cp finding3_test.go /tmp/hunt/d/wt/internal/graph/finding3_test.go
// Run (from /tmp/hunt/d/wt):
//   go test -count=1 -run 'TestFinding3' ./internal/graph
package graph

import (
	"fmt"
	"testing"
)

func f3Try(f func()) (p interface{}) {
	defer func() { p = recover() }()
	f()
	return nil
}

func TestFinding3_AddEdgeMissingVertex(t *testing.T) {
	// "Both v1 and v2 must already be in the Graph via Add or this will do
	// nothing." (doc comment of AddEdge)
	t.Run("head removed earlier", func(t *testing.T) {
		var g Graph
		g.Add("a")
		g.Add("b")
		g.AddEdge("a", "b")
		g.Remove("b")

		if p := f3Try(func() { g.AddEdge("a", "b") }); p != nil {
			t.Errorf("AddEdge(a, b) with b removed panicked: %v", p)
		}

		// The graph is now inconsistent: a has a successor that is not a
		// vertex, and re-adding b shows an edge a->b that b does not mirror.
		if out := g.OutEdges("a"); len(out) != 0 {
			t.Errorf("OutEdges(a) = %v, want none (b is not in the graph)", out)
		}
		g.Add("b")
		out, in := g.OutEdges("a"), g.InEdges("b")
		if fmt.Sprint(out) != fmt.Sprint(in) && (len(out) != 0 || len(in) != 0) {
			t.Errorf("after re-adding b: OutEdges(a) = %v but InEdges(b) = %v (not mirrored)", out, in)
		}
	})

	t.Run("tail missing", func(t *testing.T) {
		var g Graph
		g.Add("b")
		if p := f3Try(func() { g.AddEdgeWeighted("a", "b", 3) }); p != nil {
			t.Errorf("AddEdgeWeighted(a, b) with a missing panicked: %v", p)
		}
	})

	t.Run("zero graph", func(t *testing.T) {
		var g Graph
		if p := f3Try(func() { g.AddEdge("a", "b") }); p != nil {
			t.Errorf("AddEdge on an empty graph panicked: %v", p)
		}
	})
}
