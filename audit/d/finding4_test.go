// Finding 4 (C20): StronglyConnected (and with it Cycles, and the cycle report
// of KahnSort) identifies vertices by their Go value instead of their
// hashcode. A vertex whose dynamic type is not comparable (e.g. a struct with
// a slice field) but which implements VertexHashable works with every other
// operation of the package (Add, edges, DFS, Dijkstra, KahnSort on acyclic
// graphs), yet StronglyConnected dies with "hash of unhashable type".
// TopoOrder.At/Until have the same flaw ("comparing uncomparable type").
//
// Package/dir: package graph, copy into internal/graph of the worktree
//   cp finding4_test.go /tmp/hunt/d/wt/internal/graph/finding4_test.go
// Run (from /tmp/hunt/d/wt):
//   go test -count=1 -run 'TestFinding4' ./internal/graph
package graph

import (
	"sort"
	"testing"
)

// f4Node is identified by its id, as VertexHashable allows ("an alternate hash
// code for a Vertex"); the Go value itself is not comparable.
type f4Node struct {
	id   int
	tags []string
}

func (n f4Node) Hashcode() interface{} { return n.id }

func f4Try(f func()) (p interface{}) {
	defer func() { p = recover() }()
	f()
	return nil
}

func TestFinding4_SCCNonComparableVertex(t *testing.T) {
	var g Graph
	a, b, c := f4Node{1, []string{"x"}}, f4Node{2, nil}, f4Node{3, nil}
	g.Add(a)
	g.Add(b)
	g.Add(c)
	g.AddEdge(a, b)
	g.AddEdge(b, a)
	g.AddEdge(b, c)

	// Everything else works on this graph.
	dist, _ := g.Dijkstra(a)
	if dist[3] != 2 {
		t.Fatalf("Dijkstra: %v", dist)
	}
	n := 0
	g.DFS(a, func(v Vertex, next func() error) error { n++; return next() })
	if n != 2 {
		t.Fatalf("DFS visited %d", n)
	}

	var sccs [][]Vertex
	if p := f4Try(func() { sccs = g.StronglyConnected() }); p != nil {
		t.Fatalf("StronglyConnected panicked: %v", p)
	}
	var sizes []int
	for _, s := range sccs {
		sizes = append(sizes, len(s))
	}
	sort.Ints(sizes)
	if len(sizes) != 2 || sizes[0] != 1 || sizes[1] != 2 {
		t.Fatalf("components: %v, want {a,b} and {c}", sccs)
	}
}

func TestFinding4_TopoOrderAt(t *testing.T) {
	var g Graph
	a, b := f4Node{1, nil}, f4Node{2, nil}
	g.Add(a)
	g.Add(b)
	g.AddEdge(a, b)
	order := g.KahnSort() // works
	if p := f4Try(func() { order.At(b) }); p != nil {
		t.Fatalf("TopoOrder.At panicked: %v", p)
	}
}
