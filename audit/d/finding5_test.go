// Finding 5 (C18, extreme weights only): Dijkstra adds distance and weight
// with wrapping int arithmetic and uses maxInt as "infinity". On a graph whose
// true shortest distances are all representable ints it can report a negative
// distance and a predecessor chain whose weights do not sum to the distance;
// and a vertex whose true distance is exactly maxInt gets no predecessor.
//
// Package/dir: package graph, copy into internal/graph of the worktree
//   cp finding5_test.go /tmp/hunt/d/wt/internal/graph/finding5_test.go
// Run (from /tmp/hunt/d/wt):
//   go test -count=1 -run 'TestFinding5' ./internal/graph
package graph

import "testing"

func TestFinding5_DistanceOverflow(t *testing.T) {
	const big = int(^uint(0)>>1) - 1 // maxInt-1

	var g Graph
	for _, v := range []string{"s", "a", "c", "b"} {
		g.Add(v)
	}
	g.AddEdgeWeighted("s", "a", big)
	g.AddEdgeWeighted("s", "c", big)
	g.AddEdgeWeighted("a", "b", 2) // s->a->b = maxInt+1: not the shortest path
	g.AddEdgeWeighted("c", "b", 0) // s->c->b = maxInt-1: the shortest path

	dist, edgeTo := g.Dijkstra("s")
	if dist["b"] != big {
		t.Errorf("dist[b] = %d, want %d (path s->c->b); edgeTo[b] = %v", dist["b"], big, edgeTo["b"])
	}
}

func TestFinding5_MaxIntIsInfinity(t *testing.T) {
	const maxI = int(^uint(0) >> 1)

	var g Graph
	g.Add("s")
	g.Add("a")
	g.AddEdgeWeighted("s", "a", maxI)

	dist, edgeTo := g.Dijkstra("s")
	if dist["a"] != maxI || edgeTo["a"] != "s" {
		t.Errorf("a is reachable at distance maxInt: dist=%d edgeTo=%v, want predecessor s", dist["a"], edgeTo["a"])
	}
}
