// Finding 6 (C08/C16, outside my assigned area, found in passing): a
// FilterOutput given as a default option at NewFunc is silently ignored by
// Redefine, although every other default (values, converters, FilterInput,
// Logger) applies: redefineOutputs builds its argBuilder from the call options
// only (newArgBuilder(opts...)) instead of f.argBuilder(opts...).
//
// Package/dir: package argmapper_test, copy into the root of the worktree
//   cp finding6_test.go /tmp/hunt/d/wt/finding6_test.go
// Run (from /tmp/hunt/d/wt):
//   go test -count=1 -run 'TestFinding6' .
package argmapper_test

import (
	"testing"

	"github.com/hashicorp/go-argmapper"
	"github.com/hashicorp/go-hclog"
)

type f6A int
type f6B int

func TestFinding6_DefaultFilterOutputIgnored(t *testing.T) {
	off := argmapper.Logger(hclog.NewNullLogger())
	fn := func(a f6A) f6B { return f6B(a) }
	rejectAll := func(argmapper.Value) bool { return false }

	// Given at Redefine: the output f6B is rejected, Redefine fails. Good.
	f1, _ := argmapper.NewFunc(fn)
	if _, err := f1.Redefine(argmapper.FilterOutput(rejectAll), off); err == nil {
		t.Fatal("call-time FilterOutput should make Redefine fail")
	}

	// A default FilterInput is honoured (Redefine fails: f6A not permitted)...
	f2, _ := argmapper.NewFunc(fn, argmapper.FilterInput(rejectAll))
	if _, err := f2.Redefine(off); err == nil {
		t.Fatal("default FilterInput should make Redefine fail")
	}

	// ...but the very same filter as default FilterOutput is ignored.
	f3, _ := argmapper.NewFunc(fn, argmapper.FilterOutput(rejectAll))
	if _, err := f3.Redefine(off); err == nil {
		t.Fatal("default FilterOutput rejects the output f6B, but Redefine succeeded")
	}
}
