// Finding 1: a Named value silently displaces an earlier Named value of the
// same name but a DIFFERENT type, so a parameter whose exactly matching value
// was supplied is reported as unsatisfied (C03, C13, C16).
//
// Package / dir: package argmapper, copy this file into the root of the
// worktree (next to args.go) and run
//
//	go test -count=1 -run 'TestFinding1' .
//
// All sub-tests fail on the unmodified library (deterministically).
package argmapper

import (
	"strings"
	"testing"

	"github.com/hashicorp/go-hclog"
)

type f1Celsius int
type f1Label string

func TestFinding1_C03_exactMatchLosesToLaterSameNameOtherType(t *testing.T) {
	ran := false
	target := MustFunc(NewFunc(func(in struct {
		Struct
		A f1Celsius
	}) {
		ran = true
		if in.A != 21 {
			t.Errorf("a = %v, want 21", in.A)
		}
	}))

	// Every parameter of the target has an exactly matching supplied value
	// (name a, type f1Celsius, no subtype). A further value, of another type,
	// is supplied as well. C03: the call succeeds "regardless of which other
	// values and converters are also supplied".
	res := target.Call(
		Logger(hclog.NewNullLogger()),
		Named("a", f1Celsius(21)),
		Named("a", f1Label("kitchen")),
	)
	if err := res.Err(); err != nil {
		t.Errorf("C03 violated: call failed although (a, f1Celsius) was supplied: %T", err)
	}
	if !ran {
		t.Errorf("C03 violated: target not executed")
	}

	// The same two options the other way round work: the outcome depends on
	// the order of two options that carry different (name, type) values (C16).
	ran = false
	res = target.Call(
		Logger(hclog.NewNullLogger()),
		Named("a", f1Label("kitchen")),
		Named("a", f1Celsius(21)),
	)
	if res.Err() != nil || !ran {
		t.Errorf("unexpected: reversed order fails too: %v", res.Err())
	}
}

func TestFinding1_C13_errorContents(t *testing.T) {
	target := MustFunc(NewFunc(func(in struct {
		Struct
		A f1Celsius
		B f1Celsius // hopeless: nothing named b, nothing typed f1Celsius
	}) {
		t.Errorf("target must not run")
	}))

	res := target.Call(
		Logger(hclog.NewNullLogger()),
		Named("a", f1Celsius(21)),
		Named("a", f1Label("kitchen")),
	)
	ue, ok := res.Err().(*ErrArgumentUnsatisfied)
	if !ok {
		t.Fatalf("want *ErrArgumentUnsatisfied, got %T", res.Err())
	}

	// C13: the missing list never contains a parameter with an exactly
	// matching supplied value.
	for _, a := range ue.Args {
		if a.Name == "a" {
			t.Errorf("C13 violated: %s listed as missing although Named(\"a\", f1Celsius(21)) was supplied", a.String())
		}
	}

	// C13: the input list is exactly the supplied values.
	found := false
	for _, in := range ue.Inputs {
		if in.Name == "a" && in.Type.Name() == "f1Celsius" {
			found = true
		}
	}
	if !found {
		var got []string
		for _, in := range ue.Inputs {
			got = append(got, in.String())
		}
		t.Errorf("C13 violated: supplied value (a, f1Celsius) is absent from Inputs: [%s]", strings.Join(got, "; "))
	}
}

// The same happens with subtypes (key = name+subtype, type ignored) and when a
// call-time value of another type meets a default of the function.
func TestFinding1_variants(t *testing.T) {
	target := MustFunc(NewFunc(func(in struct {
		Struct
		A f1Celsius `argmapper:",subtype=indoor"`
	}) {
	}))
	res := target.Call(
		Logger(hclog.NewNullLogger()),
		NamedSubtype("a", f1Celsius(21), "indoor"),
		NamedSubtype("a", f1Label("kitchen"), "indoor"),
	)
	if err := res.Err(); err != nil {
		t.Errorf("subtype variant: call failed although (a, f1Celsius, indoor) was supplied: %T", err)
	}

	withDefault := MustFunc(NewFunc(func(in struct {
		Struct
		A f1Celsius
	}) {
	}, Named("a", f1Celsius(21))))
	res = withDefault.Call(Logger(hclog.NewNullLogger()), Named("A", f1Label("kitchen")))
	if err := res.Err(); err != nil {
		t.Errorf("default variant: call failed although default (a, f1Celsius) exists: %T", err)
	}
}
