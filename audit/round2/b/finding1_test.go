// Finding 1 (C16): a converter given at Call cannot override a default
// converter of the same Go func type: of several converters whose function
// types are identical only the FIRST registered one is kept in the call graph.
//
// Package/dir: github.com/hashicorp/go-argmapper (worktree root), external test package.
// Run:  go test -count=1 -run 'TestFinding1' .
package argmapper_test

import (
	"testing"

	"github.com/hashicorp/go-argmapper"
	"github.com/hashicorp/go-hclog"
)

func TestFinding1_CallConverterDoesNotOverrideDefaultConverter(t *testing.T) {
	hclog.L().SetLevel(hclog.Error)

	var ranProd, ranTest int
	prodProvider := func(int) string { ranProd++; return "prod" }
	testProvider := func(int) string { ranTest++; return "test" }

	// The default converter is given at construction ...
	target, err := argmapper.NewFunc(
		func(s string) string { return s },
		argmapper.Converter(prodProvider),
	)
	if err != nil {
		t.Fatal(err)
	}

	// ... and a conflicting one (same conversion int -> string) at Call.
	// NewFunc's doc: "Any conflicting arguments given on Call will override
	// these args. This can be used to provide some initial values,
	// converters, etc."
	r := target.Call(argmapper.Typed(7), argmapper.Converter(testProvider))
	if err := r.Err(); err != nil {
		t.Fatal(err)
	}
	if got := r.Out(0).(string); got != "test" {
		t.Errorf("call-time converter did not override the default one: got %q (prod ran %d, test ran %d)",
			got, ranProd, ranTest)
	}
}

// Same root cause inside a single option list: for values the last occurrence
// of a key wins, for converters of one func type the first one wins and every
// later one is silently dropped (it is never executed, although it is listed
// as available).
func TestFinding1_LaterSameTypedConverterIsDropped(t *testing.T) {
	hclog.L().SetLevel(hclog.Error)

	target := argmapper.MustFunc(argmapper.NewFunc(func(s string) string { return s }))
	for i := 0; i < 50; i++ {
		r := target.Call(
			argmapper.Typed(7),
			argmapper.Converter(func(int) string { return "first" }),
			argmapper.Converter(func(int) string { return "last" }),
		)
		if err := r.Err(); err != nil {
			t.Fatal(err)
		}
		if got := r.Out(0).(string); got != "last" {
			t.Fatalf("iteration %d: got %q, want the last supplied converter's %q", i, got, "last")
		}
	}
}
