// Finding 2 (C16, permutation clause): with a type-only parameter that has an
// exactly matching Typed value, an additional Named value of the same type
// ties with it in the shortest-path search; which one is injected depends on
// Go map iteration order, so the same call (let alone a permuted one) yields
// different results from run to run.
//
// Package/dir: github.com/hashicorp/go-argmapper (worktree root), external test package.
// Run:  go test -count=1 -run 'TestFinding2' .
package argmapper_test

import (
	"testing"

	"github.com/hashicorp/go-argmapper"
	"github.com/hashicorp/go-hclog"
)

func TestFinding2_PermutationChangesInjectedValue(t *testing.T) {
	hclog.L().SetLevel(hclog.Error)

	// func(int): one positional, i.e. type-only, parameter.
	target := argmapper.MustFunc(argmapper.NewFunc(func(v int) int { return v }))

	// Two options that set distinct keys: the named key "a" and the typed key
	// int. Typed(2) is an exact match for the parameter (type int, no subtype).
	a, b := argmapper.Named("a", 1), argmapper.Typed(2)

	seen := map[int]int{}
	for i := 0; i < 300; i++ {
		opts := []argmapper.Arg{a, b}
		if i%2 == 1 {
			opts = []argmapper.Arg{b, a} // the permutation
		}
		r := target.Call(opts...)
		if err := r.Err(); err != nil {
			t.Fatal(err)
		}
		seen[r.Out(0).(int)]++
	}
	if len(seen) != 1 {
		t.Errorf("permuting (or merely repeating) the call changed the injected value: results seen = %v", seen)
	}
}
