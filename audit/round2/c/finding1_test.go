// Finding 1 (C15, histories): BuildFunc keeps ONE mutable input and ONE mutable
// output ValueSet for all invocations of the built function. Outputs set by an
// earlier invocation leak into later ones, and a nested invocation overwrites
// the inputs the outer callback is still reading.
//
// Package / dir: package argmapper, copy this file into the repository root
// (next to func.go) and run, from that directory:
//
//	go test -count=1 -run 'TestFinding1' .
//
// Both tests FAIL on the unmodified library.
package argmapper

import (
	"reflect"
	"testing"

	"github.com/hashicorp/go-hclog"
)

// (a) purely sequential: the callback sets the output "y" only for positive x.
// An ordinary function of the same signature returns "" for x = -1; the built
// function returns the "positive" of the previous call, to the caller as well
// as to a downstream consumer.
func TestFinding1_BuildFuncStaleOutput(t *testing.T) {
	quiet := Logger(hclog.NewNullLogger())

	in, err := NewValueSet([]Value{{Name: "x", Type: reflect.TypeOf(int(0))}})
	if err != nil {
		t.Fatal(err)
	}
	out, err := NewValueSet([]Value{{Name: "y", Type: reflect.TypeOf("")}})
	if err != nil {
		t.Fatal(err)
	}

	calls := 0
	f, err := BuildFunc(in, out, func(in, out *ValueSet) error {
		calls++
		if in.Named("x").Value.Int() > 0 {
			out.Named("y").Value = reflect.ValueOf("positive")
		}
		// x <= 0: nothing is produced for "y" (ValueSet.SignatureValues
		// documents: "If a value isn't set, the zero value is used").
		return nil
	}, quiet)
	if err != nil {
		t.Fatal(err)
	}

	// The reference: an ordinary function of that signature.
	ordinary := MustFunc(NewFunc(func(in struct {
		Struct
		X int
	}) struct {
		Struct
		Y string
	} {
		var o struct {
			Struct
			Y string
		}
		if in.X > 0 {
			o.Y = "positive"
		}
		return o
	}, quiet))

	// A downstream consumer of "y".
	consumer := MustFunc(NewFunc(func(in struct {
		Struct
		Y string
	}) string {
		return in.Y
	}, quiet))

	for _, x := range []int{1, -1} {
		want := consumer.Call(Named("x", x), ConverterFunc(ordinary))
		got := consumer.Call(Named("x", x), ConverterFunc(f))
		if want.Err() != nil || got.Err() != nil {
			t.Fatalf("x=%d: unexpected errors %v / %v", x, want.Err(), got.Err())
		}
		if want.Out(0) != got.Out(0) {
			t.Errorf("x=%d: consumer got y=%q from the built function, y=%q from the ordinary function",
				x, got.Out(0), want.Out(0))
		}
	}
	if calls != 2 {
		t.Fatalf("callback ran %d times, want 2", calls)
	}

	// Same thing observed by a direct caller.
	r := f.Call(Named("x", -1))
	if r.Err() != nil {
		t.Fatal(r.Err())
	}
	if y := reflect.ValueOf(r.Out(0)).Field(1).String(); y != "" {
		t.Errorf("f(x=-1) returned y=%q although the callback produced no y in this invocation", y)
	}
}

// (b) reentrancy on a single goroutine: the callback calls the built function
// again (here directly; the same happens when the callback runs a Call whose
// converter set contains the built function). When the nested call returns,
// the outer callback's own input has been replaced by the nested call's input.
func TestFinding1_BuildFuncReentrant(t *testing.T) {
	quiet := Logger(hclog.NewNullLogger())

	in, _ := NewValueSet([]Value{{Name: "x", Type: reflect.TypeOf(int(0))}})
	out, _ := NewValueSet([]Value{{Name: "y", Type: reflect.TypeOf(int(0))}})

	var f *Func
	f, err := BuildFunc(in, out, func(in, out *ValueSet) error {
		x := in.Named("x").Value.Int()
		if x > 0 {
			if r := f.Call(Named("x", int(x-1))); r.Err() != nil {
				return r.Err()
			}
		}
		if now := in.Named("x").Value.Int(); now != x {
			t.Errorf("callback was handed x=%d, after a nested call its input set says x=%d", x, now)
		}
		out.Named("y").Value = reflect.ValueOf(int(x))
		return nil
	}, quiet)
	if err != nil {
		t.Fatal(err)
	}

	if r := f.Call(Named("x", 2)); r.Err() != nil {
		t.Fatal(r.Err())
	}
}
