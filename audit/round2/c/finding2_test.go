// Finding 2 (C06 / C09): Redefine takes the FuncOnce execution lock of every
// function in its graph (redefine.go:171). That lock is held for the whole
// time a run-once function executes (call.go:644). So Redefine -- advertised
// as pure planning that runs no user code -- blocks for as long as any
// run-once function among its converters (or its target) is executing, and it
// never returns when it is called from inside such a function.
//
// Package / dir: package argmapper, copy this file into the repository root
// (next to func.go) and run, from that directory:
//
//	go test -count=1 -run 'TestFinding2' .
//
// FAILS (after the 5s watchdog) on the unmodified library.
package argmapper

import (
	"reflect"
	"testing"
	"time"

	"github.com/hashicorp/go-hclog"
)

type f2A struct{ V int }
type f2B struct{ V int }

func TestFinding2_RedefineInsideRunOnceConverter(t *testing.T) {
	quiet := Logger(hclog.NewNullLogger())

	target := MustFunc(NewFunc(func(b f2B) int { return b.V }, quiet))

	// A run-once converter that, while converting, plans a redefinition of
	// the target with the usual converter set -- which contains itself.
	var conv *Func
	var planned *Func
	var planErr error
	conv = MustFunc(NewFunc(func(a f2A) f2B {
		planned, planErr = target.Redefine(
			ConverterFunc(conv),
			FilterInput(FilterType(reflect.TypeOf(f2A{}))),
		)
		return f2B{a.V}
	}, FuncOnce(), quiet))

	// Sanity: the very same Redefine returns at once outside the converter.
	if _, err := target.Redefine(ConverterFunc(conv), FilterInput(FilterType(reflect.TypeOf(f2A{})))); err != nil {
		t.Fatal(err)
	}

	done := make(chan Result, 1)
	go func() { done <- target.Call(Typed(f2A{7}), ConverterFunc(conv)) }()

	select {
	case r := <-done:
		if r.Err() != nil {
			t.Fatal(r.Err())
		}
		if planErr != nil || planned == nil {
			t.Fatalf("nested Redefine failed: %v", planErr)
		}
		if r.Out(0) != 7 {
			t.Fatalf("got %v", r.Out(0))
		}
	case <-time.After(5 * time.Second):
		t.Fatal("Redefine did not return: it waits for the FuncOnce lock held by the converter that called it")
	}
}

// The two-goroutine form of the same defect: Redefine is blocked by a run-once
// converter that is merely executing somewhere else; if that execution waits
// for anything the planning goroutine does next, both hang.
func TestFinding2_RedefineBlockedByRunningConverter(t *testing.T) {
	quiet := Logger(hclog.NewNullLogger())

	target := MustFunc(NewFunc(func(b f2B) int { return b.V }, quiet))

	started := make(chan struct{})
	release := make(chan struct{})
	conv := MustFunc(NewFunc(func(a f2A) f2B {
		close(started)
		<-release // long-running conversion
		return f2B{a.V}
	}, FuncOnce(), quiet))

	callDone := make(chan Result, 1)
	go func() { callDone <- target.Call(Typed(f2A{7}), ConverterFunc(conv)) }()
	<-started

	planDone := make(chan error, 1)
	go func() {
		_, err := target.Redefine(ConverterFunc(conv), FilterInput(FilterType(reflect.TypeOf(f2A{}))))
		planDone <- err
	}()

	select {
	case err := <-planDone:
		if err != nil {
			t.Fatal(err)
		}
	case <-time.After(3 * time.Second):
		t.Error("Redefine (pure planning) is blocked until an unrelated execution of a run-once converter finishes")
	}
	close(release)
	<-callDone
}
