// Finding 3 (C11, borderline -- see findings.md): a run-once function whose
// first execution panics is executed again by the next use: its body runs
// more than once.
//
// Package / dir: package argmapper, copy this file into the repository root
// (next to func.go) and run, from that directory:
//
//	go test -count=1 -run 'TestFinding3' .
//
// FAILS on the unmodified library.
package argmapper

import (
	"testing"

	"github.com/hashicorp/go-hclog"
)

type f3A struct{ V int }

func TestFinding3_RunOnceBodyRunsAgainAfterPanic(t *testing.T) {
	quiet := Logger(hclog.NewNullLogger())

	executions := 0
	provider := MustFunc(NewFunc(func() f3A {
		executions++
		if executions == 1 {
			panic("first execution blows up")
		}
		return f3A{executions}
	}, FuncOnce(), quiet))

	target := MustFunc(NewFunc(func(a f3A) int { return a.V }, quiet))

	func() {
		defer func() { recover() }()
		target.Call(ConverterFunc(provider))
	}()
	if executions != 1 {
		t.Fatalf("setup: %d executions", executions)
	}

	// Any later use must not execute the body again.
	func() {
		defer func() { recover() }()
		target.Call(ConverterFunc(provider))
	}()
	if executions != 1 {
		t.Errorf("the body of a FuncOnce function was executed %d times", executions)
	}
}
