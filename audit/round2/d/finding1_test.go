// Finding 1 (C07): a caller-supplied value is overwritten, mid-call, by a
// same-labelled by-product output of a converter that was executed for a
// different parameter; which value is then converted depends on map order.
//
// Package/dir: copy this file into the root of the go-argmapper worktree
// (package argmapper_test, directory /tmp/hunt2/d/wt) and run
//
//	go test -count=1 -run 'TestFinding1' .
//
// It FAILS on the unmodified library (about 10% of the calls convert 999
// instead of the supplied value 1; the test loops 500 times).
package argmapper_test

import (
	"fmt"
	"testing"

	"github.com/hashicorp/go-argmapper"
	"github.com/hashicorp/go-hclog"
)

type f1Src int
type f1Dst string
type f1Seed int
type f1Other int

// C07, first clause. The named parameter "a f1Dst" must be produced by
// conversion; the converter conv has a type-only input (f1Src) that can be fed
// by the two supplied named values a=1 and b=2: a=1 must be the one converted.
func TestFinding1(t *testing.T) {
	target := argmapper.MustFunc(argmapper.NewFunc(func(in struct {
		argmapper.Struct
		A f1Dst
		C f1Other
	}) string {
		return string(in.A)
	}))

	conv := func(v f1Src) f1Dst { return f1Dst(fmt.Sprint(int(v))) }

	// p is needed for the parameter "c". As a by-product it also returns a
	// value named "a" of type f1Src, which nobody needs: "a f1Src" was supplied.
	type pOut struct {
		argmapper.Struct
		A f1Src
		C f1Other
	}
	p := func(s f1Seed) pOut { return pOut{A: 999, C: 5} }

	seen := map[string]int{}
	for i := 0; i < 500; i++ {
		r := target.Call(
			argmapper.Named("a", f1Src(1)),
			argmapper.Named("b", f1Src(2)),
			argmapper.Typed(f1Seed(7)),
			argmapper.Converter(conv, p),
			argmapper.Logger(hclog.NewNullLogger()),
		)
		if err := r.Err(); err != nil {
			t.Fatal(err)
		}
		seen[r.Out(0).(string)]++
	}
	if len(seen) != 1 || seen["1"] != 500 {
		t.Fatalf("parameter a must always be converted from the supplied a=1; outcomes over 500 identical calls: %v", seen)
	}
}

type f1A int
type f1B int

// Same root cause with type-only values (not covered by the letter of C03,
// whose premise wants every parameter matched exactly, but it shows the
// mechanism in its simplest form): the supplied Typed(f1A(1)) matches the
// first parameter exactly, yet in about 10% of the calls the target receives
// the f1A that p returned next to the f1B that was actually needed.
func TestFinding1TypedVariant(t *testing.T) {
	target := argmapper.MustFunc(argmapper.NewFunc(func(a f1A, b f1B) int { return int(a) }))
	p := func(s f1Seed) (f1A, f1B) { return 999, 5 }

	seen := map[int]int{}
	for i := 0; i < 500; i++ {
		r := target.Call(
			argmapper.Typed(f1A(1)),
			argmapper.Typed(f1Seed(7)),
			argmapper.Converter(p),
			argmapper.Logger(hclog.NewNullLogger()),
		)
		if err := r.Err(); err != nil {
			t.Fatal(err)
		}
		seen[r.Out(0).(int)]++
	}
	if len(seen) != 1 || seen[1] != 500 {
		t.Fatalf("the supplied f1A(1) must always be injected; outcomes over 500 identical calls: %v", seen)
	}
}
