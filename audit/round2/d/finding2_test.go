// Finding 2 (C07): the same-name discount (weight -1) makes a detour through
// an unnecessary converter cheaper than using a supplied value directly, so
// the supplied value is replaced by the converter's output before it is
// converted; whether it happens depends on heap/map order.
//
// Package/dir: copy this file into the root of the go-argmapper worktree
// (package argmapper_test, directory /tmp/hunt2/d/wt) and run
//
//	go test -count=1 -run 'TestFinding2' .
//
// It FAILS on the unmodified library (about 40% of the calls run p and convert
// 999 instead of the supplied value 5; the test loops 500 times).
package argmapper_test

import (
	"fmt"
	"testing"

	"github.com/hashicorp/go-argmapper"
	"github.com/hashicorp/go-hclog"
)

type f2X int
type f2Src int
type f2Dst string

func TestFinding2(t *testing.T) {
	target := argmapper.MustFunc(argmapper.NewFunc(func(in struct {
		argmapper.Struct
		A f2Dst
	}) string {
		return string(in.A)
	}))

	// The only way to an f2Dst: a type-only converter from f2Src.
	conv := func(v f2Src) f2Dst { return f2Dst(fmt.Sprint(int(v))) }

	// p can make an "a f2Src" out of an "a f2X". Nobody needs it: "a f2Src"
	// was supplied by the caller.
	pCalls := 0
	type pIn struct {
		argmapper.Struct
		A f2X
	}
	type pOut struct {
		argmapper.Struct
		A f2Src
	}
	p := func(in pIn) pOut { pCalls++; return pOut{A: 999} }

	seen := map[string]int{}
	for i := 0; i < 500; i++ {
		r := target.Call(
			argmapper.Named("a", f2Src(5)), // the value that has to be converted
			argmapper.Named("b", f2Src(6)), // the competitor of C07
			argmapper.NamedSubtype("a", f2X(1), "s"),
			argmapper.Converter(conv, p),
			argmapper.Logger(hclog.NewNullLogger()),
		)
		if err := r.Err(); err != nil {
			t.Fatal(err)
		}
		seen[r.Out(0).(string)]++
	}
	if len(seen) != 1 || seen["5"] != 500 {
		t.Fatalf("parameter a must always be converted from the supplied a=5; outcomes over 500 identical calls: %v (p executed %d times)", seen, pCalls)
	}
}
