// Finding 3 (C07): name affinity is lost as soon as the converter is entered
// through another of its inputs: the converter's type-only input is then
// resolved by a nested search that knows nothing about the parameter's name,
// and the two supplied named values tie.
//
// Package/dir: copy this file into the root of the go-argmapper worktree
// (package argmapper_test, directory /tmp/hunt2/d/wt) and run
//
//	go test -count=1 -run 'TestFinding3' .
//
// It FAILS on the unmodified library (about 40% of the calls convert m=2
// instead of n=1; the test loops 500 times).
package argmapper_test

import (
	"fmt"
	"testing"

	"github.com/hashicorp/go-argmapper"
	"github.com/hashicorp/go-hclog"
)

type f3Cfg int
type f3Src int
type f3Dst string

func TestFinding3(t *testing.T) {
	// The named parameter "n f3Dst" must be produced by conversion.
	target := argmapper.MustFunc(argmapper.NewFunc(func(in struct {
		argmapper.Struct
		N f3Dst
	}) string {
		return string(in.N)
	}))

	// The only converter. Its type-only input X can be fed by the supplied
	// named values n=1 and m=2 (both f3Src); it also wants a named option q.
	conv := func(in struct {
		argmapper.Struct
		Q f3Cfg
		X f3Src `argmapper:",typeOnly"`
	}) f3Dst {
		return f3Dst(fmt.Sprint(int(in.X)))
	}

	seen := map[string]int{}
	for i := 0; i < 500; i++ {
		r := target.Call(
			argmapper.Named("q", f3Cfg(0)),
			argmapper.Named("n", f3Src(1)),
			argmapper.Named("m", f3Src(2)),
			argmapper.Converter(conv),
			argmapper.Logger(hclog.NewNullLogger()),
		)
		if err := r.Err(); err != nil {
			t.Fatal(err)
		}
		seen[r.Out(0).(string)]++
	}
	if len(seen) != 1 || seen["1"] != 500 {
		t.Fatalf("parameter n must always be converted from the supplied n=1; outcomes over 500 identical calls: %v", seen)
	}
}
