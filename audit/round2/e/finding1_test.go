// Finding 1 (C15, also C01): a function assembled with BuildFunc leaks the
// outputs of an earlier call into later calls.
//
// Package / dir : package argmapper, copy this file into the repository root
//                 (next to func.go).
// Run           : go test -count=1 -run 'TestFinding1' .
//
// BuildFunc keeps ONE output ValueSet for the lifetime of the function and
// never resets it. Whatever the callback (or the caller, through the
// documented output.FromResult idiom) stored in it during call N is returned
// again by call N+1 whenever the callback of call N+1 does not overwrite it --
// although ValueSet.SignatureValues documents "If a value isn't set, the zero
// value is used", and an ordinary Go function of the same signature returns
// zero values there.
package argmapper

import (
	"errors"
	"reflect"
	"strconv"
	"testing"

	"github.com/hashicorp/go-hclog"
)

// The ordinary function finding1Built below is supposed to be
// indistinguishable from.
type finding1In struct {
	Struct
	N int
}

type finding1Out struct {
	Struct
	S string `argmapper:",typeOnly"`
}

func finding1Ordinary(in finding1In) (finding1Out, error) {
	var out finding1Out
	if in.N < 0 {
		return out, errors.New("negative")
	}
	if in.N > 0 {
		out.S = strconv.Itoa(in.N)
	}
	return out, nil
}

func finding1Built(t *testing.T) *Func {
	intType := reflect.TypeOf(int(0))
	strType := reflect.TypeOf("")

	in, err := NewValueSet([]Value{{Name: "n", Type: intType}})
	if err != nil {
		t.Fatal(err)
	}
	out, err := NewValueSet([]Value{{Type: strType}})
	if err != nil {
		t.Fatal(err)
	}

	// Exactly the body of finding1Ordinary.
	f, err := BuildFunc(in, out, func(in, out *ValueSet) error {
		n := in.Named("n").Value.Interface().(int)
		if n < 0 {
			return errors.New("negative")
		}
		if n > 0 {
			out.Typed(strType).Value = reflect.ValueOf(strconv.Itoa(n))
		}
		return nil
	})
	if err != nil {
		t.Fatal(err)
	}
	return f
}

func TestFinding1_BuildFuncOutputLeaksIntoLaterCalls(t *testing.T) {
	hclog.L().SetLevel(hclog.Error)

	ordinary, err := NewFunc(finding1Ordinary)
	if err != nil {
		t.Fatal(err)
	}
	built := finding1Built(t)

	// The downstream consumer: it just reports the string it was given.
	target, err := NewFunc(func(s string) string { return "got:" + s })
	if err != nil {
		t.Fatal(err)
	}

	for _, n := range []int{5, 0} {
		want := target.Call(Named("n", n), ConverterFunc(ordinary))
		got := target.Call(Named("n", n), ConverterFunc(built))
		if want.Err() != nil || got.Err() != nil {
			t.Fatalf("n=%d: unexpected errors %v / %v", n, want.Err(), got.Err())
		}
		if want.Out(0) != got.Out(0) {
			t.Errorf("as converter, n=%d: the ordinary function hands %q downstream, "+
				"the BuildFunc function hands %q (left over from the call with n=5)",
				n, want.Out(0), got.Out(0))
		}
	}

	// The same as a target, including the error case: the outputs standing
	// next to the error are those of an earlier, unrelated call.
	built = finding1Built(t)
	for _, n := range []int{7, 0, -1} {
		want := ordinary.Call(Named("n", n))
		got := built.Call(Named("n", n))
		if (want.Err() == nil) != (got.Err() == nil) {
			t.Fatalf("n=%d: errors differ: %v / %v", n, want.Err(), got.Err())
		}
		w := want.Out(0).(finding1Out).S
		g := reflect.ValueOf(got.Out(0)).Field(1).String()
		if w != g {
			t.Errorf("as target, n=%d: the ordinary function returns %q, "+
				"the BuildFunc function returns %q", n, w, g)
		}
	}
}
