// Finding 2 (C15, C01; same root cause as finding 1): concurrent calls of a
// function assembled with BuildFunc see each other's arguments and results.
//
// Package / dir : package argmapper, copy this file into the repository root
//                 (next to func.go).
// Run           : go test -count=1 -run 'TestFinding2' .
//                 (go test -race -count=1 -run 'TestFinding2' . additionally
//                 reports the data race in ValueSet.FromSignature /
//                 ValueSet.SignatureValues)
//
// BuildFunc closes over ONE input and ONE output ValueSet. Every invocation
// writes its arguments into the shared input set, runs the callback on the
// shared sets and reads the results back from the shared output set, without
// any synchronisation. Two goroutines that call the same built function (as a
// target or as a converter) therefore hand each other's arguments to the
// callback and return each other's results. An ordinary Go function of the
// same signature (finding2Ordinary) never does.
package argmapper

import (
	"reflect"
	"sync"
	"sync/atomic"
	"testing"

	"github.com/hashicorp/go-hclog"
)

type finding2In struct {
	Struct
	A int
}

type finding2Out struct {
	Struct
	R int `argmapper:",typeOnly"`
}

func finding2Ordinary(in finding2In) (finding2Out, error) {
	return finding2Out{R: in.A}, nil
}

func finding2Run(f *Func, field func(interface{}) int) (wrong int64) {
	const goroutines = 8
	const calls = 5000

	var wg sync.WaitGroup
	for g := 1; g <= goroutines; g++ {
		wg.Add(1)
		go func(g int) {
			defer wg.Done()
			for i := 0; i < calls; i++ {
				// Every goroutine passes its own number and must get it back.
				r := f.Call(Named("a", g))
				if r.Err() != nil || field(r.Out(0)) != g {
					atomic.AddInt64(&wrong, 1)
				}
			}
		}(g)
	}
	wg.Wait()
	return wrong
}

func TestFinding2_BuildFuncConcurrentCallsMixValues(t *testing.T) {
	hclog.L().SetLevel(hclog.Error)
	intType := reflect.TypeOf(int(0))

	// Control: the ordinary function is fine.
	ordinary, err := NewFunc(finding2Ordinary)
	if err != nil {
		t.Fatal(err)
	}
	if n := finding2Run(ordinary, func(v interface{}) int { return v.(finding2Out).R }); n != 0 {
		t.Fatalf("ordinary function returned %d wrong results", n)
	}

	// The same function assembled with NewValueSet + BuildFunc.
	in, err := NewValueSet([]Value{{Name: "a", Type: intType}})
	if err != nil {
		t.Fatal(err)
	}
	out, err := NewValueSet([]Value{{Type: intType}})
	if err != nil {
		t.Fatal(err)
	}
	var foreign int64
	built, err := BuildFunc(in, out, func(in, out *ValueSet) error {
		a := in.Named("a").Value
		out.Typed(intType).Value = a
		// What the callback is handed must not change under its feet.
		if in.Named("a").Value.Interface() != a.Interface() {
			atomic.AddInt64(&foreign, 1)
		}
		return nil
	})
	if err != nil {
		t.Fatal(err)
	}

	wrong := finding2Run(built, func(v interface{}) int {
		return int(reflect.ValueOf(v).Field(1).Int())
	})
	if wrong != 0 {
		t.Errorf("%d of 40000 concurrent calls of the BuildFunc function returned "+
			"the argument of ANOTHER goroutine's call (callback saw its input change %d times)",
			wrong, foreign)
	}
}
