// Finding 3 (C14, C06; low severity, artificial input): the pointer depth of a
// marker-struct parameter is counted in a uint8, so a struct behind 256 (or
// 257, 512, ...) pointers is accepted by NewFunc instead of being rejected,
// and Call then panics inside reflect.
//
// Package / dir : package argmapper, copy this file into the repository root
//                 (next to func.go).
// Run           : go test -count=1 -run 'TestFinding3' .
package argmapper

import (
	"fmt"
	"reflect"
	"testing"

	"github.com/hashicorp/go-hclog"
)

type finding3Params struct {
	Struct
	A int
}

func TestFinding3_PointerDepthWrapsAround(t *testing.T) {
	hclog.L().SetLevel(hclog.Error)

	for _, depth := range []int{2, 3, 255, 256, 257} {
		typ := reflect.TypeOf(finding3Params{})
		for i := 0; i < depth; i++ {
			typ = reflect.PtrTo(typ)
		}

		// func(<depth times *>finding3Params)
		fn := reflect.MakeFunc(
			reflect.FuncOf([]reflect.Type{typ}, nil, false),
			func([]reflect.Value) []reflect.Value { return nil },
		).Interface()

		f, err := NewFunc(fn)
		if err != nil {
			continue // rejected at construction, as C14 demands
		}
		t.Errorf("depth %d: NewFunc accepted a %d-fold indirected struct parameter", depth, depth)

		func() {
			defer func() {
				if r := recover(); r != nil {
					msg := fmt.Sprint(r)
					if len(msg) > 60 {
						msg = msg[:60] + "..."
					}
					t.Errorf("depth %d: Call panicked: %s", depth, msg)
				}
			}()
			f.Call(Named("a", 1))
		}()
	}
}
