// Finding 1: name affinity (C07) is lost for every named parameter after the
// first one, because a type-only converter input that was resolved for an
// earlier parameter is reused as-is (incomplete fix cd314ae).
//
// Package / directory: package argmapper_test, place this file in the root of
// the go-argmapper module (next to call.go).
//
// Run:  go test -count=1 -run 'TestFinding1' .
//
// Fails on the current tree (cd314ae). Every sub-test loops because the order
// in which the parameters are resolved depends on map iteration order; shape A
// and B are wrong in 100% of the calls (one of the two parameters is always
// converted from the other parameter's value), shape C in roughly half of them.
package argmapper_test

import (
	"fmt"
	"testing"

	"github.com/hashicorp/go-argmapper"
	"github.com/hashicorp/go-hclog"
)

type (
	f1Src  int // type of the supplied named values
	f1Mid  int
	f1Dst  int // type of the target's named parameters
	f1Ctx  int // "context-like" extra converter input
	f1Flag bool
)

func f1Quiet() argmapper.Arg { return argmapper.Logger(hclog.NewNullLogger()) }

// Shape A: two named parameters m and n, one converter with a named option
// next to its type-only input (the shape of the cd314ae regression test, with
// two parameters instead of one).
func TestFinding1_A_TwoNamedParams(t *testing.T) {
	conv := func(in struct {
		argmapper.Struct
		Flag f1Flag
		V    f1Src `argmapper:",typeOnly"`
	}) f1Dst {
		return f1Dst(in.V)
	}

	for i := 0; i < 200; i++ {
		target, err := argmapper.NewFunc(func(in struct {
			argmapper.Struct
			M f1Dst
			N f1Dst
		}) string {
			return fmt.Sprintf("m=%d n=%d", in.M, in.N)
		})
		if err != nil {
			t.Fatal(err)
		}

		r := target.Call(f1Quiet(),
			argmapper.Named("n", f1Src(1)),
			argmapper.Named("m", f1Src(2)),
			argmapper.Named("flag", f1Flag(true)),
			argmapper.Converter(conv),
		)
		if err := r.Err(); err != nil {
			t.Fatal(err)
		}
		if got, want := r.Out(0).(string), "m=2 n=1"; got != want {
			t.Fatalf("iteration %d: got %q, want %q: each named parameter must be "+
				"converted from the supplied value of the same name", i, got, want)
		}
	}
}

// Shape B: no named converter input at all. Two plain converters, the second
// one takes an additional type-only value (think context.Context).
func TestFinding1_B_TwoHopExtraTypedInput(t *testing.T) {
	conv1 := func(v f1Src) f1Mid { return f1Mid(v) }
	conv2 := func(v f1Mid, _ f1Ctx) f1Dst { return f1Dst(v) }

	for i := 0; i < 200; i++ {
		target, err := argmapper.NewFunc(func(in struct {
			argmapper.Struct
			M f1Dst
			N f1Dst
		}) string {
			return fmt.Sprintf("m=%d n=%d", in.M, in.N)
		})
		if err != nil {
			t.Fatal(err)
		}

		r := target.Call(f1Quiet(),
			argmapper.Named("n", f1Src(1)),
			argmapper.Named("m", f1Src(2)),
			argmapper.Typed(f1Ctx(0)),
			argmapper.Converter(conv1, conv2),
		)
		if err := r.Err(); err != nil {
			t.Fatal(err)
		}
		if got, want := r.Out(0).(string), "m=2 n=1"; got != want {
			t.Fatalf("iteration %d: got %q, want %q", i, got, want)
		}
	}
}

// Shape C: a single named parameter; the stale value comes from a type-only
// parameter of the target itself (resolved without any name preference).
func TestFinding1_C_NamedAndTypedParam(t *testing.T) {
	conv := func(in struct {
		argmapper.Struct
		Flag f1Flag
		V    f1Src `argmapper:",typeOnly"`
	}) f1Dst {
		return f1Dst(in.V)
	}

	for i := 0; i < 300; i++ {
		target, err := argmapper.NewFunc(func(in struct {
			argmapper.Struct
			N f1Dst
			X f1Src `argmapper:",typeOnly"`
		}) f1Dst {
			return in.N
		})
		if err != nil {
			t.Fatal(err)
		}

		r := target.Call(f1Quiet(),
			argmapper.Named("n", f1Src(1)),
			argmapper.Named("m", f1Src(2)),
			argmapper.Named("flag", f1Flag(true)),
			argmapper.Converter(conv),
		)
		if err := r.Err(); err != nil {
			t.Fatal(err)
		}
		if got := r.Out(0).(f1Dst); got != 1 {
			t.Fatalf("iteration %d: parameter n was converted from the value %d "+
				"(supplied under the name m), want the value named n (1)", i, got)
		}
	}
}
