// Finding 2: the name affinity added by cd314ae is dropped as soon as the
// nested search is for a NAMED converter input (C07, incomplete fix).
//
// Package / directory: package argmapper_test, place this file in the root of
// the go-argmapper module (next to call.go).
//
// Run:  go test -count=1 -run 'TestFinding2' .
//
// Fails on the current tree (cd314ae): the parameter named "a" is converted
// from the value named "b" or "c" in roughly 55% of the calls (the three
// supplied values tie and map iteration order picks one), so the loop fails
// within the first few iterations.
package argmapper_test

import (
	"testing"

	"github.com/hashicorp/go-argmapper"
	"github.com/hashicorp/go-hclog"
)

type (
	f2Src int
	f2Mid int
	f2Dst int
)

type f2Target struct {
	argmapper.Struct
	A f2Dst
}

// conv1 is the converter of C07: one type-only input that can be fed by the
// supplied values named a, b and c.
func f2Conv1(v f2Src) f2Mid { return f2Mid(v) }

// Control: conv2 has a single (named) input. The whole chain
// a/f2Src -> conv1 -> x/f2Mid -> conv2 -> a/f2Dst is one shortest path, the
// same-name discount applies and the value named "a" is always used. This
// sub-test passes; it shows that a named intermediate value is not meant to
// cancel the preference.
func TestFinding2_Control_OnePath(t *testing.T) {
	conv2 := func(in struct {
		argmapper.Struct
		X f2Mid
	}) f2Dst {
		return f2Dst(in.X)
	}
	f2Run(t, conv2)
}

// Defect: conv2 additionally takes a supplied named option. The cheapest path
// now enters conv2 through that option and "x" is resolved by a nested search.
// That search replaces the inherited preference ("a") by the name of its own
// target ("x"), nothing is named x, and a, b and c tie.
func TestFinding2_NestedNamedInput(t *testing.T) {
	conv2 := func(in struct {
		argmapper.Struct
		Flag bool
		X    f2Mid
	}) f2Dst {
		return f2Dst(in.X)
	}
	f2Run(t, conv2)
}

func f2Run(t *testing.T, conv2 interface{}) {
	for i := 0; i < 300; i++ {
		target, err := argmapper.NewFunc(func(in f2Target) f2Dst { return in.A })
		if err != nil {
			t.Fatal(err)
		}

		r := target.Call(
			argmapper.Logger(hclog.NewNullLogger()),
			argmapper.Named("a", f2Src(1)),
			argmapper.Named("b", f2Src(2)),
			argmapper.Named("c", f2Src(3)),
			argmapper.Named("flag", true),
			argmapper.Converter(f2Conv1, conv2),
		)
		if err := r.Err(); err != nil {
			t.Fatal(err)
		}
		if got := r.Out(0).(f2Dst); got != 1 {
			t.Fatalf("iteration %d: parameter a was converted from the supplied value %d, "+
				"want the value named a (1)", i, got)
		}
	}
}
