// Finding 1 -- Value.Arg / ValueSet.Args turn a named value of an interface
// type into a value of its dynamic type (sibling of fix 683adac).
//
// Package/dir: package argmapper, copy this file into the root of the
// worktree (next to value_set.go).
// Run:  go test -count=1 -run 'TestFinding1_' .
//
// Fails on the current tree: the named output "r io.Reader" of one function,
// loaded with Output().FromResult and handed on with Args(), does not satisfy
// the identically declared input "r io.Reader" of another function (and the
// same for a BuildFunc callback that forwards in.Args()).
package argmapper

import (
	"io"
	"reflect"
	"strings"
	"testing"

	"github.com/hashicorp/go-hclog"
)

type f1Out struct {
	Struct
	R io.Reader
}

type f1In struct {
	Struct
	R io.Reader
}

func f1Consumer() *Func {
	return MustFunc(NewFunc(func(in f1In) string {
		b, _ := io.ReadAll(in.R)
		return string(b)
	}))
}

// A function's own named output, loaded from its Result, must be usable as the
// equally named and typed input of the next function.
func TestFinding1_FromResultArgs(t *testing.T) {
	hclog.L().SetLevel(hclog.Error)

	producer := MustFunc(NewFunc(func() f1Out {
		return f1Out{R: strings.NewReader("hello")}
	}))
	res := producer.Call()
	if err := res.Err(); err != nil {
		t.Fatal(err)
	}
	out := producer.Output()
	if err := out.FromResult(res); err != nil {
		t.Fatal(err)
	}

	// The value set says: name "r", type io.Reader, value set.
	v := out.Named("r")
	if v == nil || v.Type != reflect.TypeOf((*io.Reader)(nil)).Elem() || !v.Value.IsValid() {
		t.Fatalf("unexpected value: %#v", v)
	}

	r := f1Consumer().Call(out.Args()...)
	if err := r.Err(); err != nil {
		t.Fatalf("value (r io.Reader) rendered by Args() does not satisfy parameter (r io.Reader): %T\n"+
			"Arg() registered it as (r %s)", err, v.Value.Elem().Type())
	}
	if got := r.Out(0); got != "hello" {
		t.Fatalf("got %v", got)
	}
}

// The same through BuildFunc: the callback receives exactly the injected
// values, but forwarding them with in.Args() relabels them.
func TestFinding1_BuildFuncForward(t *testing.T) {
	hclog.L().SetLevel(hclog.Error)

	readerT := reflect.TypeOf((*io.Reader)(nil)).Elem()
	in, err := NewValueSet([]Value{{Name: "r", Type: readerT}})
	if err != nil {
		t.Fatal(err)
	}
	outSet, err := NewValueSet([]Value{{Type: reflect.TypeOf("")}})
	if err != nil {
		t.Fatal(err)
	}

	var innerErr error
	wrapper, err := BuildFunc(in, outSet, func(in, out *ValueSet) error {
		r := f1Consumer().Call(in.Args()...)
		innerErr = r.Err()
		if innerErr != nil {
			return nil
		}
		out.Typed(reflect.TypeOf("")).Value = reflect.ValueOf(r.Out(0))
		return nil
	})
	if err != nil {
		t.Fatal(err)
	}

	// Typed(reader) is how a named interface parameter is fed from outside.
	res := wrapper.Call(Typed(strings.NewReader("hello")))
	if err := res.Err(); err != nil {
		t.Fatal(err)
	}
	if innerErr != nil {
		t.Fatalf("forwarding in.Args() failed: %T", innerErr)
	}
}
