// Finding 2 -- a redefined function hands its TYPE-ONLY inputs on under their
// dynamic type; an input declared with an interface type then overwrites a
// value of that dynamic type which was given to Redefine (incomplete fix
// 683adac: only the named inputs were repaired).
//
// Package/dir: package argmapper, copy this file into the root of the
// worktree (next to redefine.go).
// Run:  go test -count=1 -run 'TestFinding2_' .
//
// Fails on the current tree: parameter d (type f2Concrete), for which
// Redefine was given Typed(f2Concrete{"given"}), receives the value that the
// caller of the redefined function supplied for the declared input of type
// f2Iface.
package argmapper

import (
	"reflect"
	"testing"

	"github.com/hashicorp/go-hclog"
)

type f2Iface interface{ Get() string }

type f2Concrete struct{ S string }

func (c f2Concrete) Get() string { return c.S }

func f2Redefined(t *testing.T) *Func {
	hclog.L().SetLevel(hclog.Error)

	f := MustFunc(NewFunc(func(i f2Iface, d f2Concrete) string {
		return "i=" + i.Get() + " d=" + d.S
	}))
	rf, err := f.Redefine(Typed(f2Concrete{S: "given"}))
	if err != nil {
		t.Fatal(err)
	}

	// Exactly one input is declared: type-only, of the interface type. The
	// value given to Redefine is not asked for again.
	vals := rf.Input().Values()
	if len(vals) != 1 || vals[0].Name != "" || vals[0].Type != reflect.TypeOf((*f2Iface)(nil)).Elem() {
		t.Fatalf("unexpected inputs: %v", vals)
	}
	return rf
}

// Call the returned function as a Go function with a value for its one
// declared input.
func TestFinding2_DirectCall(t *testing.T) {
	rf := f2Redefined(t)

	fn := reflect.ValueOf(rf.Func())
	in := reflect.New(fn.Type().In(0)).Elem()
	for i := 0; i < in.NumField(); i++ {
		if in.Field(i).Type() == reflect.TypeOf((*f2Iface)(nil)).Elem() {
			in.Field(i).Set(reflect.ValueOf(f2Concrete{S: "input"}))
		}
	}
	outs := fn.Call([]reflect.Value{in})
	if err, _ := outs[1].Interface().(error); err != nil {
		t.Fatal(err)
	}
	if got, want := outs[0].Interface().(string), "i=input d=given"; got != want {
		t.Fatalf("got %q, want %q: the argument given to Redefine was replaced", got, want)
	}
}

// Feed the declared input from a converter whose output is labelled with the
// interface type. The original function can never receive that value as d:
// f.Call(Typed(f2Concrete{"given"}), Converter(conv)) yields d=given always.
func TestFinding2_ViaCall(t *testing.T) {
	rf := f2Redefined(t)
	conv := func() f2Iface { return f2Concrete{S: "input"} }

	for n := 0; n < 20; n++ {
		r := rf.Call(Converter(conv))
		if err := r.Err(); err != nil {
			t.Fatal(err)
		}
		got := r.Out(0).(string)
		if got != "i=input d=given" && got != "i=given d=given" {
			t.Fatalf("got %q: d (type f2Concrete) received the f2Iface-labelled output of the converter "+
				"instead of the value given to Redefine", got)
		}
	}
}
