// Finding 1: TopoShortestPath has no overflow guard (sibling of d648911 / 371ae81).
//
// Place this file in  <worktree>/internal/graph/finding1_test.go  (package graph) and run
//
//	go test -count=1 -run 'TestFinding1_TopoShortestPathOverflow' ./internal/graph/
//
// It FAILS on the current tree: on a single-rooted DAG with non-negative
// weights TopoShortestPath reports a negative distance and a wrong predecessor
// for a vertex whose true distance is 5, and so disagrees with Dijkstra (C20).
package graph

import "testing"

func TestFinding1_TopoShortestPathOverflow(t *testing.T) {
	const big = int(^uint(0) >> 1) // largest int

	// root --5--> b
	// root --big--> a --1--> b
	// Single root, acyclic, all weights non-negative. True distances:
	// a = big, b = 5 (predecessor root).
	var g Graph
	g.Add("root")
	g.Add("a")
	g.Add("b")
	g.AddEdgeWeighted("root", "b", 5)
	g.AddEdgeWeighted("root", "a", big)
	g.AddEdgeWeighted("a", "b", 1)

	L := g.KahnSort()
	if len(L) != 3 || L[0] != "root" {
		t.Fatalf("unexpected topological order %v", L)
	}

	dT, eT := g.TopoShortestPath(L)
	dD, eD := g.Dijkstra("root")

	if dD["b"] != 5 || eD["b"] != "root" {
		t.Fatalf("Dijkstra: dist(b)=%d pred(b)=%v, want 5 / root", dD["b"], eD["b"])
	}
	if dT["b"] != dD["b"] {
		t.Errorf("TopoShortestPath dist(b) = %d, Dijkstra dist(b) = %d (true distance 5)", dT["b"], dD["b"])
	}
	if eT["b"] != "root" {
		t.Errorf("TopoShortestPath pred(b) = %v, want root", eT["b"])
	}
	if dT["b"] < 0 {
		t.Errorf("TopoShortestPath reports a negative distance %d on a graph without negative weights", dT["b"])
	}
}
