// Finding 2: a vertex whose true distance is exactly the largest int is
// indistinguishable from an unreachable one: Dijkstra gives it no predecessor
// (incomplete fix 371ae81, which made the largest int the "infinite" distance,
// together with d648911 / 95518ea whose guard lets exactly this sum through).
//
// Place this file in  <worktree>/internal/graph/finding2_test.go  (package graph) and run
//
//	go test -count=1 -run 'TestFinding2_DijkstraMaxIntDistanceHasNoPath' ./internal/graph/
//
// It FAILS on the current tree (C18: following the predecessor map from a
// reachable vertex must yield a source-to-vertex path whose weights sum to the
// reported distance).
package graph

import "testing"

func TestFinding2_DijkstraMaxIntDistanceHasNoPath(t *testing.T) {
	const big = int(^uint(0) >> 1) // largest int, a perfectly representable distance

	check := func(name string, g *Graph, target string, wantPred string) {
		distTo, edgeTo := g.Dijkstra("s")
		if distTo[target] != big {
			t.Errorf("%s: dist(%s) = %d, want %d", name, target, distTo[target], big)
		}
		if edgeTo[target] != wantPred {
			t.Errorf("%s: pred(%s) = %v, want %q: the vertex is reachable (true distance %d) but has no path",
				name, target, edgeTo[target], wantPred, big)
		}
		path := g.EdgeToPath(target, edgeTo)
		if len(path) == 0 || path[0] != "s" {
			t.Errorf("%s: EdgeToPath(%s) = %v does not start at the source", name, target, path)
		}
	}

	// One edge of the largest weight.
	var g1 Graph
	g1.Add("s")
	g1.Add("t")
	g1.AddEdgeWeighted("s", "t", big)
	check("single edge", &g1, "t", "s")

	// The same through a sum: (big-5) + 5 == big, no overflow involved.
	var g2 Graph
	g2.Add("s")
	g2.Add("m")
	g2.Add("t")
	g2.AddEdgeWeighted("s", "m", big-5)
	g2.AddEdgeWeighted("m", "t", 5)
	check("two edges", &g2, "t", "m")
}
