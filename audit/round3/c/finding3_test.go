// Finding 3 (low severity): KahnSort does not identify vertices by hashcode
// consistently -- it hands hashcodes to RemoveEdge, which hashes them again
// (sibling of 84a3c67 "StronglyConnected identifies vertices by hashcode").
//
// Place this file in  <worktree>/internal/graph/finding3_test.go  (package graph) and run
//
//	go test -count=1 -run 'TestFinding3_KahnSortRehashesHashcodes' ./internal/graph/
//
// It FAILS on the current tree: KahnSort panics with "graph has cycles: []" on
// the acyclic two-vertex graph a -> b (C20). Every other routine of the package
// (Add, AddEdge, OutEdges, DFS, Dijkstra, StronglyConnected, TopoShortestPath)
// handles the same graph correctly.
package graph

import "testing"

// f3Key is the hashcode of f3Vertex. It happens to implement VertexHashable
// itself (e.g. because the key type is also used as a vertex elsewhere).
type f3Key int

func (k f3Key) Hashcode() interface{} { return int(k) + 1000 }

type f3Vertex struct{ id int }

func (v f3Vertex) Hashcode() interface{} { return f3Key(v.id) }

func TestFinding3_KahnSortRehashesHashcodes(t *testing.T) {
	var g Graph
	a, b := f3Vertex{1}, f3Vertex{2}
	g.Add(a)
	g.Add(b)
	g.AddEdge(a, b)

	// Sanity: the rest of the package sees the plain DAG a -> b.
	if out := g.OutEdges(a); len(out) != 1 || out[0] != Vertex(b) {
		t.Fatalf("OutEdges(a) = %v", out)
	}
	if sccs := g.StronglyConnected(); len(sccs) != 2 {
		t.Fatalf("StronglyConnected = %v, want two singleton components", sccs)
	}
	if c := g.Cycles(); len(c) != 0 {
		t.Fatalf("Cycles = %v, want none", c)
	}

	var L TopoOrder
	func() {
		defer func() {
			if r := recover(); r != nil {
				t.Errorf("KahnSort panicked on an acyclic graph: %v", r)
			}
		}()
		L = g.KahnSort()
	}()
	if t.Failed() {
		return
	}
	if len(L) != 2 || L[0] != Vertex(a) || L[1] != Vertex(b) {
		t.Errorf("KahnSort = %v, want [a b]", L)
	}
}
