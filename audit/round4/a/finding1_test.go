// Finding 1 (C01): Redefine drops the subtype label of the inputs it declares,
// so a redefined function injects a value supplied under another subtype into
// a parameter of the original function that a direct Call correctly refuses.
//
// Package/dir: package argmapper, repository root (next to redefine.go).
// Run:  go test -count=1 -run 'TestFinding1_RedefineDropsSubtype' .
//
// Fails on the current tree because of the defect (redefine.go:228-232 and
// redefine.go:245-249 build the input struct tags without `subtype=`).
package argmapper

import (
	"testing"

	"github.com/hashicorp/go-hclog"
)

type finding1V struct{ ID int }

func TestFinding1_RedefineDropsSubtype(t *testing.T) {
	quiet := Logger(hclog.NewNullLogger())

	var got []int
	f, err := NewFunc(func(in struct {
		Struct

		A finding1V `argmapper:",typeOnly,subtype=s1"`
	}) {
		got = append(got, in.A.ID)
	})
	if err != nil {
		t.Fatal(err)
	}

	// Control: a direct call refuses a value that carries another subtype
	// (this is upstream's own "subtype type no match" behaviour).
	r := f.Call(quiet, TypedSubtype(finding1V{7}, "s2"))
	if r.Err() == nil || len(got) != 0 {
		t.Fatalf("control failed: direct call accepted a (V,s2) value for a (V,s1) parameter: err=%v got=%v", r.Err(), got)
	}

	// Redefine with nothing supplied: the function returned must ask for
	// what is missing, i.e. a type-only finding1V value with subtype "s1".
	rf, err := f.Redefine(quiet)
	if err != nil {
		t.Fatal(err)
	}
	ins := rf.Input().Values()
	if len(ins) != 1 {
		t.Fatalf("expected one declared input, got %d", len(ins))
	}
	if ins[0].Subtype != "s1" {
		t.Errorf("declared input of the redefined function lost its subtype: %s (want subtype s1)", ins[0].String())
	}

	// The caller supplies a value labelled (finding1V, "s2"). Under the
	// matching table it is incompatible with the parameter (finding1V, "s1")
	// of the original function: the subtypes differ and neither is absent.
	r = rf.Call(quiet, TypedSubtype(finding1V{7}, "s2"))
	if len(got) != 0 {
		t.Errorf("C01 violated: the original function's parameter (finding1V, subtype s1) "+
			"received the value %v that the caller supplied under subtype s2 (err=%v)", got, r.Err())
	}
}
