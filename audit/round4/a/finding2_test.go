// Finding 2 (C02): a converter whose argument cannot be derived is still
// "used" when only SOME of its arguments are underivable: callGraph prunes the
// underivable argument vertex together with the edge converter->argument, the
// converter survives through its other arguments, and reachTarget then believes
// the converter is fully satisfied. For an ordinary converter the last-ditch
// check in callDirect turns this into the generic error "This is a bug in the
// go-argmapper library"; for a run-once converter that already has a memoized
// result, callDirect returns the memoized result BEFORE that check, so the
// call succeeds and the target is executed although one of its parameters is
// not derivable from the supplied values and converters.
//
// Package/dir: package argmapper, repository root (next to call.go).
// Run:  go test -count=1 -run 'TestFinding2_UnderivableArgumentPruned' .
//
// Fails on the current tree because of the defect (call.go:291-295 prunes the
// argument vertex and with it the edge, call.go:380-417 only looks at the
// remaining out edges, call.go:670-680 returns the memoized result before the
// missing-argument check at call.go:685-704).
package argmapper

import (
	"errors"
	"testing"

	"github.com/hashicorp/go-hclog"
)

type (
	finding2X struct{ ID int }
	finding2Y struct{ ID int }
	finding2Z struct{ ID int }
)

func TestFinding2_UnderivableArgumentPruned(t *testing.T) {
	quiet := Logger(hclog.NewNullLogger())

	for _, once := range []bool{false, true} {
		name := "ordinary converter"
		if once {
			name = "run-once converter"
		}
		t.Run(name, func(t *testing.T) {
			convRuns := 0
			var convOpts []Arg
			if once {
				convOpts = append(convOpts, FuncOnce())
			}
			// Z can only be produced from an X AND a Y.
			conv := MustFunc(NewFunc(func(x finding2X, y finding2Y) finding2Z {
				convRuns++
				return finding2Z{x.ID*100 + y.ID}
			}, convOpts...))

			var targetGot []finding2Z
			target := MustFunc(NewFunc(func(z finding2Z) {
				targetGot = append(targetGot, z)
			}))

			// Call A: everything is there. Succeeds, the converter runs once.
			r := target.Call(quiet, ConverterFunc(conv), Typed(finding2X{1}), Typed(finding2Y{2}))
			if r.Err() != nil || convRuns != 1 || len(targetGot) != 1 {
				t.Fatalf("call A: err=%v convRuns=%d target=%v", r.Err(), convRuns, targetGot)
			}

			// Control: with neither X nor Y the call is refused (also for the
			// run-once converter that already holds a memoized result).
			targetGot = nil
			r = target.Call(quiet, ConverterFunc(conv))
			var unsat *ErrArgumentUnsatisfied
			if !errors.As(r.Err(), &unsat) || len(targetGot) != 0 {
				t.Fatalf("control: err=%v target=%v", r.Err(), targetGot)
			}

			// Call B: only X is supplied. No value and no converter provides
			// a Y, so the converter cannot be satisfied, Z is not derivable,
			// and the call must be refused without running the target (C02).
			targetGot = nil
			r = target.Call(quiet, ConverterFunc(conv), Typed(finding2X{7}))
			if r.Err() == nil || len(targetGot) != 0 {
				t.Errorf("C02 violated: parameter finding2Z is not derivable (nothing provides the "+
					"converter's finding2Y argument) but Call returned err=%v and executed the target with %v",
					r.Err(), targetGot)
			} else if !errors.As(r.Err(), &unsat) {
				// Not asserted as a property violation (the premise of C02's
				// second sentence is false here), just shown: the library
				// reports its own internal-consistency error.
				t.Logf("note: refused, but with %T instead of *ErrArgumentUnsatisfied: %.160s", r.Err(), r.Err())
			}
		})
	}
}
