// Observation 1 (NOT counted as a finding; same family as the known item
// "a named (a,int,foo) parameter is fed by Typed(1) but not by Named(a,1) or
// TypedSubtype(1,foo)"): two further subtype asymmetries of the matching graph.
//
// Package/dir: package argmapper, repository root.
// Run:  go test -count=1 -run 'TestObservation1_SubtypeAsymmetry' .
//
// Both sub-tests fail on the current tree. Under the table quoted in C01
// ("for identical types a subtype that is equal or absent on one side") both
// inputs are compatible with the parameter, and the mirrored combinations
// (listed in the comments) are accepted by the library.
package argmapper

import (
	"testing"

	"github.com/hashicorp/go-hclog"
)

type observation1V struct{ ID int }

func TestObservation1_SubtypeAsymmetry(t *testing.T) {
	quiet := Logger(hclog.NewNullLogger())

	// (a) named parameter without subtype  <-  type-only value WITH subtype.
	//     Accepted siblings: the same parameter takes NamedSubtype("a",v,"foo")
	//     and Typed(v); a type-only parameter takes TypedSubtype(v,"foo").
	t.Run("named-nosub<-typed-sub", func(t *testing.T) {
		f := MustFunc(NewFunc(func(in struct {
			Struct
			A observation1V
		}) int {
			return in.A.ID
		}))
		if r := f.Call(quiet, NamedSubtype("a", observation1V{1}, "foo")); r.Err() != nil {
			t.Fatalf("sibling 1 refused: %v", r.Err())
		}
		if r := f.Call(quiet, Typed(observation1V{1})); r.Err() != nil {
			t.Fatalf("sibling 2 refused: %v", r.Err())
		}
		if r := f.Call(quiet, TypedSubtype(observation1V{1}, "foo")); r.Err() != nil {
			t.Errorf("named (a,V) parameter refuses TypedSubtype(V,foo): %T", r.Err())
		}
	})

	// (b) type-only parameter WITH subtype  <-  named value without subtype.
	//     Accepted siblings: the same parameter takes Typed(v) (no subtype) and
	//     NamedSubtype("x",v,"foo"); a type-only parameter without subtype
	//     takes Named("x",v).
	t.Run("typed-sub<-named-nosub", func(t *testing.T) {
		f := MustFunc(NewFunc(func(in struct {
			Struct
			A observation1V `argmapper:",typeOnly,subtype=foo"`
		}) int {
			return in.A.ID
		}))
		if r := f.Call(quiet, Typed(observation1V{1})); r.Err() != nil {
			t.Fatalf("sibling 1 refused: %v", r.Err())
		}
		if r := f.Call(quiet, NamedSubtype("x", observation1V{1}, "foo")); r.Err() != nil {
			t.Fatalf("sibling 2 refused: %v", r.Err())
		}
		if r := f.Call(quiet, Named("x", observation1V{1})); r.Err() != nil {
			t.Errorf("type-only (V,foo) parameter refuses Named(x,V): %T", r.Err())
		}
	})
}
