// Finding 1 (hunt4-b): a type-only INTERFACE parameter is not fed by a NAMED
// value (supplied, or produced by a converter) whose type implements it,
// although a type-only parameter of a CONCRETE type is fed by a named value of
// that type, and the same implementation given type-only is accepted.
//
// Package/dir: package argmapper, repository root (next to call.go).
// Run:  go test -count=1 -run 'TestFinding1' .
package argmapper

import (
	"errors"
	"reflect"
	"testing"
)

type f1Iface interface{ M() string }
type f1Impl struct{ S string }

func (v f1Impl) M() string { return v.S }

func TestFinding1_TypeOnlyInterfaceParamNamedImplementation(t *testing.T) {
	concrete := MustFunc(NewFunc(func(x f1Impl) string { return x.S }))
	iface := MustFunc(NewFunc(func(x f1Iface) string { return x.M() }))

	// Control 1: a type-only parameter of the concrete type takes the named value.
	if r := concrete.Call(Named("a", f1Impl{"v"})); r.Err() != nil || r.Out(0) != "v" {
		t.Fatalf("control (concrete type-only param, named value) failed: %v", r.Err())
	}
	// Control 2: the interface parameter takes the same value given type-only.
	if r := iface.Call(Typed(f1Impl{"v"})); r.Err() != nil || r.Out(0) != "v" {
		t.Fatalf("control (interface param, type-only value) failed: %v", r.Err())
	}

	// Defect, direct value: the parameter (type-only, interface f1Iface) and the
	// supplied value (name "a", type f1Impl) are compatible under the matching
	// table: only one side is named, and f1Impl implements f1Iface.
	r := iface.Call(Named("a", f1Impl{"v"}))
	if err := r.Err(); err != nil {
		var ua *ErrArgumentUnsatisfied
		if errors.As(err, &ua) {
			t.Errorf("Call(Named(\"a\", impl)) on func(f1Iface): unsatisfied, missing=%v inputs=%v",
				ua.Args, ua.Inputs)
		} else {
			t.Errorf("Call failed: %v", err)
		}
	} else if r.Out(0) != "v" {
		t.Errorf("got %v", r.Out(0))
	}

	// Defect, through a single-input converter with a named result.
	conv := func(n int) struct {
		Struct
		A f1Impl
	} {
		return struct {
			Struct
			A f1Impl
		}{A: f1Impl{"conv"}}
	}
	if r := concrete.Call(Typed(1), Converter(conv)); r.Err() != nil || r.Out(0) != "conv" {
		t.Fatalf("control (concrete param, named converter output) failed: %v", r.Err())
	}
	if r := iface.Call(Typed(1), Converter(conv)); r.Err() != nil {
		t.Errorf("Call(Typed(1), Converter(int -> (a f1Impl))) on func(f1Iface) failed: %T", r.Err())
	}

	// Same through Convert (C10 ties Convert to Call).
	if _, err := Convert(reflect.TypeOf((*f1Iface)(nil)).Elem(), Named("a", f1Impl{"v"})); err != nil {
		t.Errorf("Convert(f1Iface, Named(\"a\", impl)) failed: %T", err)
	}
}
