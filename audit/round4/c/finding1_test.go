// Finding 1 (C15, Args round trip): Value.Arg / ValueSet.Args ignore the
// declared (interface) Type of a value and send it under the dynamic type of
// whatever reflect.Value the entry holds.
//
// Place this file in the root of the library (package directory
// github.com/hashicorp/go-argmapper) and run:
//
//	go test -count=1 -run 'TestFinding1' .
//
// Both tests FAIL on the current tree.
package argmapper_test

import (
	"fmt"
	"io"
	"reflect"
	"strings"
	"testing"

	"github.com/hashicorp/go-argmapper"
	"github.com/hashicorp/go-hclog"
)

type f1In struct {
	argmapper.Struct

	R io.Reader // a NAMED value "r" of type io.Reader
}

// (a) The input set of a function, completely filled in, rendered with
// Args(), does not satisfy that very function.
func TestFinding1_NamedInterfaceValue(t *testing.T) {
	f, err := argmapper.NewFunc(func(in f1In) string {
		b, _ := io.ReadAll(in.R)
		return string(b)
	})
	if err != nil {
		t.Fatal(err)
	}

	set := f.Input()
	v := set.Named("r")
	if v == nil || v.Type != reflect.TypeOf((*io.Reader)(nil)).Elem() {
		t.Fatalf("unexpected input set: %v", set.Values())
	}
	// The only way the reflect package offers to wrap a value: its type is
	// the dynamic type (*strings.Reader). SignatureValues, BuildFunc etc.
	// all accept such a value for an io.Reader entry.
	v.Value = reflect.ValueOf(strings.NewReader("hello"))

	// sanity: the set renders fine as a signature
	if got := set.SignatureValues()[0].Interface().(f1In).R; got == nil {
		t.Fatal("SignatureValues lost the value")
	}

	res := f.Call(append(set.Args(), argmapper.Logger(hclog.NewNullLogger()))...)
	if err := res.Err(); err != nil {
		t.Fatalf("f.Call(f.Input().Args()...) with every value set must succeed, got:\n%v", err)
	}
	if res.Out(0) != "hello" {
		t.Fatalf("got %q", res.Out(0))
	}
}

type f1Str string

func (s f1Str) String() string { return string(s) }

// (b) Two DISTINCT entries of one set -- (f1Str) and (fmt.Stringer) -- are
// rendered as two Args with the SAME key, so one value silently replaces the
// other: the function receives, for its f1Str parameter, the value the set
// holds for the fmt.Stringer entry.
func TestFinding1_DistinctEntriesCollide(t *testing.T) {
	f, err := argmapper.NewFunc(func(a f1Str, b fmt.Stringer) string {
		return string(a) + "/" + b.String()
	})
	if err != nil {
		t.Fatal(err)
	}

	set := f.Input()
	vals := set.Values()
	if len(vals) != 2 || vals[0].Type != reflect.TypeOf(f1Str("")) ||
		vals[1].Type != reflect.TypeOf((*fmt.Stringer)(nil)).Elem() {
		t.Fatalf("unexpected input set: %v", vals)
	}
	set.Typed(vals[0].Type).Value = reflect.ValueOf(f1Str("first"))
	set.Typed(vals[1].Type).Value = reflect.ValueOf(f1Str("second")) // a Stringer

	// The set itself is fine: rendering it as a signature gives both values.
	sv := set.SignatureValues()
	if sv[0].Interface() != f1Str("first") || sv[1].Interface().(fmt.Stringer).String() != "second" {
		t.Fatalf("SignatureValues: %v", sv)
	}

	res := f.Call(append(set.Args(), argmapper.Logger(hclog.NewNullLogger()))...)
	if err := res.Err(); err != nil {
		t.Fatal(err)
	}
	if got := res.Out(0); got != "first/second" {
		t.Fatalf("the function must receive the values of the set (first/second), got %q", got)
	}
}
