// Finding 2 (C16, case-insensitive names, non-ASCII): names are normalised
// with strings.ToLower on both sides. Lower-casing is not a case folding:
// several letters have two lower-case forms with ONE upper-case form
// (Greek sigma: Σ -> σ, but also final ς -> Σ; long s: ſ -> S; micro sign
// µ -> Μ; ϐ ϑ ϕ ϖ ϰ ϱ ϵ ẛ ...). Two spellings of one name that differ only in
// case (strings.EqualFold reports true; one is simply strings.ToUpper of the
// other) are therefore treated as different names.
//
// Place this file in the root of the library (package directory
// github.com/hashicorp/go-argmapper) and run:
//
//	go test -count=1 -run 'TestFinding2' .
//
// FAILS on the current tree.
package argmapper_test

import (
	"strings"
	"testing"

	"github.com/hashicorp/go-argmapper"
	"github.com/hashicorp/go-hclog"
)

type f2Greek struct {
	argmapper.Struct

	Κόσμος int // "kosmos": every Greek word ending in s ends in a final sigma
}

type f2GreekTag struct {
	argmapper.Struct

	A int `argmapper:"ΚΌΣΜΟΣ"` // the same name, upper-cased, given by tag
}

type f2Long struct {
	argmapper.Struct

	Maſt int // long s
}

func TestFinding2_CaseInsensitiveNonASCII(t *testing.T) {
	quiet := argmapper.Logger(hclog.NewNullLogger())

	// sanity: the spellings differ only in case
	if !strings.EqualFold("ΚΌΣΜΟΣ", "Κόσμος") || strings.ToUpper("Κόσμος") != "ΚΌΣΜΟΣ" {
		t.Fatal("test premise broken")
	}
	if strings.ToUpper("Maſt") != "MAST" {
		t.Fatal("test premise broken")
	}

	f, err := argmapper.NewFunc(func(in f2Greek) int { return in.Κόσμος })
	if err != nil {
		t.Fatal(err)
	}
	// control: other case variants do match
	for _, n := range []string{"Κόσμος", "κόσμος", "ΚόΣΜΟς"} {
		if res := f.Call(argmapper.Named(n, 42), quiet); res.Err() != nil || res.Out(0) != 42 {
			t.Fatalf("control %q failed: %v", n, res.Err())
		}
	}
	// the all-caps spelling of the field name
	if res := f.Call(argmapper.Named("ΚΌΣΜΟΣ", 42), quiet); res.Err() != nil {
		t.Errorf("field Κόσμος is not matched by Named(\"ΚΌΣΜΟΣ\"): %T", res.Err())
	}

	// other side: name given upper-cased in the tag, value named in lower case
	g, err := argmapper.NewFunc(func(in f2GreekTag) int { return in.A })
	if err != nil {
		t.Fatal(err)
	}
	if res := g.Call(argmapper.Named("κόσμος", 42), quiet); res.Err() != nil {
		t.Errorf("tag name ΚΌΣΜΟΣ is not matched by Named(\"κόσμος\"): %T", res.Err())
	}

	// Latin: long s
	h, err := argmapper.NewFunc(func(in f2Long) int { return in.Maſt })
	if err != nil {
		t.Fatal(err)
	}
	if res := h.Call(argmapper.Named("MAST", 42), quiet); res.Err() != nil {
		t.Errorf("field Maſt is not matched by Named(\"MAST\"): %T", res.Err())
	}
}
