// Finding 1 (C06): Redefine panics (reflect.FuncOf: too many arguments) on a
// function with 127 results instead of returning normally / reporting an error.
//
// Package/dir: package argmapper_test, file in the repository root
//
//	cp finding1_test.go <worktree>/finding1_test.go
//	cd <worktree> && go test -count=1 -run 'TestFinding1' .
//
// FAILS on the current tree: Redefine panics with
// "reflect.FuncOf: too many arguments" (redefine.go:65).
package argmapper_test

import (
	"testing"

	"github.com/hashicorp/go-argmapper"
	"github.com/hashicorp/go-hclog"
)

// 127 distinctly named types.
type h1T000 int
type h1T001 int
type h1T002 int
type h1T003 int
type h1T004 int
type h1T005 int
type h1T006 int
type h1T007 int
type h1T008 int
type h1T009 int
type h1T010 int
type h1T011 int
type h1T012 int
type h1T013 int
type h1T014 int
type h1T015 int
type h1T016 int
type h1T017 int
type h1T018 int
type h1T019 int
type h1T020 int
type h1T021 int
type h1T022 int
type h1T023 int
type h1T024 int
type h1T025 int
type h1T026 int
type h1T027 int
type h1T028 int
type h1T029 int
type h1T030 int
type h1T031 int
type h1T032 int
type h1T033 int
type h1T034 int
type h1T035 int
type h1T036 int
type h1T037 int
type h1T038 int
type h1T039 int
type h1T040 int
type h1T041 int
type h1T042 int
type h1T043 int
type h1T044 int
type h1T045 int
type h1T046 int
type h1T047 int
type h1T048 int
type h1T049 int
type h1T050 int
type h1T051 int
type h1T052 int
type h1T053 int
type h1T054 int
type h1T055 int
type h1T056 int
type h1T057 int
type h1T058 int
type h1T059 int
type h1T060 int
type h1T061 int
type h1T062 int
type h1T063 int
type h1T064 int
type h1T065 int
type h1T066 int
type h1T067 int
type h1T068 int
type h1T069 int
type h1T070 int
type h1T071 int
type h1T072 int
type h1T073 int
type h1T074 int
type h1T075 int
type h1T076 int
type h1T077 int
type h1T078 int
type h1T079 int
type h1T080 int
type h1T081 int
type h1T082 int
type h1T083 int
type h1T084 int
type h1T085 int
type h1T086 int
type h1T087 int
type h1T088 int
type h1T089 int
type h1T090 int
type h1T091 int
type h1T092 int
type h1T093 int
type h1T094 int
type h1T095 int
type h1T096 int
type h1T097 int
type h1T098 int
type h1T099 int
type h1T100 int
type h1T101 int
type h1T102 int
type h1T103 int
type h1T104 int
type h1T105 int
type h1T106 int
type h1T107 int
type h1T108 int
type h1T109 int
type h1T110 int
type h1T111 int
type h1T112 int
type h1T113 int
type h1T114 int
type h1T115 int
type h1T116 int
type h1T117 int
type h1T118 int
type h1T119 int
type h1T120 int
type h1T121 int
type h1T122 int
type h1T123 int
type h1T124 int
type h1T125 int
type h1T126 int

// A well-formed, non-variadic function over distinctly named types: no
// parameter, 127 results, no repeated type.
func finding1Target() (h1T000, h1T001, h1T002, h1T003, h1T004, h1T005, h1T006, h1T007, h1T008, h1T009, h1T010, h1T011, h1T012, h1T013, h1T014, h1T015, h1T016, h1T017, h1T018, h1T019, h1T020, h1T021, h1T022, h1T023, h1T024, h1T025, h1T026, h1T027, h1T028, h1T029, h1T030, h1T031, h1T032, h1T033, h1T034, h1T035, h1T036, h1T037, h1T038, h1T039, h1T040, h1T041, h1T042, h1T043, h1T044, h1T045, h1T046, h1T047, h1T048, h1T049, h1T050, h1T051, h1T052, h1T053, h1T054, h1T055, h1T056, h1T057, h1T058, h1T059, h1T060, h1T061, h1T062, h1T063, h1T064, h1T065, h1T066, h1T067, h1T068, h1T069, h1T070, h1T071, h1T072, h1T073, h1T074, h1T075, h1T076, h1T077, h1T078, h1T079, h1T080, h1T081, h1T082, h1T083, h1T084, h1T085, h1T086, h1T087, h1T088, h1T089, h1T090, h1T091, h1T092, h1T093, h1T094, h1T095, h1T096, h1T097, h1T098, h1T099, h1T100, h1T101, h1T102, h1T103, h1T104, h1T105, h1T106, h1T107, h1T108, h1T109, h1T110, h1T111, h1T112, h1T113, h1T114, h1T115, h1T116, h1T117, h1T118, h1T119, h1T120, h1T121, h1T122, h1T123, h1T124, h1T125, h1T126) {
	return 0, 1, 2, 3, 4, 5, 6, 7, 8, 9, 10, 11, 12, 13, 14, 15, 16, 17, 18, 19, 20, 21, 22, 23, 24, 25, 26, 27, 28, 29, 30, 31, 32, 33, 34, 35, 36, 37, 38, 39, 40, 41, 42, 43, 44, 45, 46, 47, 48, 49, 50, 51, 52, 53, 54, 55, 56, 57, 58, 59, 60, 61, 62, 63, 64, 65, 66, 67, 68, 69, 70, 71, 72, 73, 74, 75, 76, 77, 78, 79, 80, 81, 82, 83, 84, 85, 86, 87, 88, 89, 90, 91, 92, 93, 94, 95, 96, 97, 98, 99, 100, 101, 102, 103, 104, 105, 106, 107, 108, 109, 110, 111, 112, 113, 114, 115, 116, 117, 118, 119, 120, 121, 122, 123, 124, 125, 126
}

func TestFinding1_RedefinePanicsOnManyResults(t *testing.T) {
	quiet := argmapper.Logger(hclog.NewNullLogger())

	f, err := argmapper.NewFunc(finding1Target)
	if err != nil {
		t.Fatalf("NewFunc rejected the function: %v", err)
	}

	// Call works fine on this signature.
	res := f.Call(quiet)
	if res.Err() != nil || res.Len() != 127 {
		t.Fatalf("Call: err=%v len=%d", res.Err(), res.Len())
	}

	// Redefine must return normally (a func or an error).
	var rf *argmapper.Func
	var panicked interface{}
	func() {
		defer func() { panicked = recover() }()
		rf, err = f.Redefine(quiet)
	}()
	if panicked != nil {
		t.Fatalf("Redefine panicked instead of returning: %v", panicked)
	}
	if err == nil {
		r := rf.Call(quiet)
		if r.Err() != nil || r.Len() != 127 {
			t.Fatalf("redefined call: err=%v len=%d", r.Err(), r.Len())
		}
	} else {
		t.Logf("Redefine reported an error (acceptable): %v", err)
	}
}
