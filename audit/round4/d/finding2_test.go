// Finding 2 (C06, low severity / exotic): with a trace-level Logger option a
// Call whose supplied value contains itself (a slice of a recursive named
// type) kills the whole process with "fatal error: stack overflow" (not even
// a recoverable panic). Without the Logger option the very same Call succeeds.
//
// Package/dir: package argmapper_test, file in the repository root
//
//	cp finding2_test.go <worktree>/finding2_test.go
//	cd <worktree> && go test -count=1 -run 'TestFinding2' .
//
// FAILS on the current tree: the child process dies in
// fmt -> hclog -> argBuilder.graph (args.go:341, log.Trace("input", ..., "value", v)).
// The crash cannot be recovered, so the Call is made in a child process (the
// test binary re-executes itself).
package argmapper_test

import (
	"io"
	"os"
	"os/exec"
	"runtime/debug"
	"strings"
	"testing"

	"github.com/hashicorp/go-argmapper"
	"github.com/hashicorp/go-hclog"
)

// A recursive named type (explicitly: "recursive types").
type f2List []f2List

func finding2Call(trace bool) argmapper.Result {
	v := f2List{nil}
	v[0] = v // the value contains itself

	opts := []argmapper.Arg{argmapper.Typed(v)}
	if trace {
		opts = append(opts, argmapper.Logger(hclog.New(&hclog.LoggerOptions{
			Level:  hclog.Trace,
			Output: io.Discard,
		})))
	} else {
		opts = append(opts, argmapper.Logger(hclog.NewNullLogger()))
	}

	f := argmapper.MustFunc(argmapper.NewFunc(func(l f2List) int { return len(l) }))
	return f.Call(opts...)
}

func TestFinding2_TraceLoggerCrashesOnSelfContainingValue(t *testing.T) {
	if os.Getenv("FINDING2_CHILD") == "1" {
		// Only makes the runaway recursion die sooner (default limit: 1 GB).
		debug.SetMaxStack(64 << 20)
		r := finding2Call(true)
		if r.Err() != nil || r.Out(0) != 1 {
			os.Exit(3)
		}
		os.Exit(0)
	}

	// Sanity: the use is well-formed, the call works without trace logging.
	r := finding2Call(false)
	if r.Err() != nil || r.Out(0) != 1 {
		t.Fatalf("call without trace logging failed: %v", r.Err())
	}

	cmd := exec.Command(os.Args[0], "-test.run=^TestFinding2_TraceLoggerCrashesOnSelfContainingValue$")
	cmd.Env = append(os.Environ(), "FINDING2_CHILD=1")
	out, err := cmd.CombinedOutput()
	if err != nil {
		first := string(out)
		if i := strings.Index(first, "fatal error"); i >= 0 {
			first = first[i:]
		}
		if len(first) > 300 {
			first = first[:300]
		}
		t.Fatalf("Call with a trace-level Logger did not return: child died (%v):\n%s", err, first)
	}
}
