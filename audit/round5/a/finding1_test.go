// Finding 1 -- incomplete fix cd314ae (name affinity for the inputs of
// converters on the path); property C07.
//
// Copy to the root of the worktree (package argmapper_test, directory
// /tmp/hunt5/a/wt) and run:
//
//	go test -count=1 -run 'TestFinding1' .
//
// Two named parameters A and B (string) have to be produced by the same
// converter, which takes a named option next to a type-only int. The int of
// a and the int of b are both supplied. For the parameter that is resolved
// second, the converter's type-only input is NOT searched for again: the
// typedArgVertex still carries the value the first parameter left there, so
// both parameters are converted from the same int.
package argmapper_test

import (
	"fmt"
	"testing"

	"github.com/hashicorp/go-argmapper"
	"github.com/hashicorp/go-hclog"
)

type f1Opt struct{ P string }

func TestFinding1_StaleTypeOnlyInputAcrossParameters(t *testing.T) {
	hclog.L().SetLevel(hclog.Error)

	conv := func(in struct {
		argmapper.Struct
		Opt f1Opt
		V   int `argmapper:",typeOnly"`
	}) string {
		return fmt.Sprintf("%s%d", in.Opt.P, in.V)
	}

	got := map[string]int{}
	for i := 0; i < 50; i++ {
		target, err := argmapper.NewFunc(func(in struct {
			argmapper.Struct
			A string
			B string
		}) string {
			return in.A + "|" + in.B
		})
		if err != nil {
			t.Fatal(err)
		}

		r := target.Call(
			argmapper.Named("a", 1),
			argmapper.Named("b", 2),
			argmapper.Named("opt", f1Opt{"p"}),
			argmapper.Converter(conv),
		)
		if err := r.Err(); err != nil {
			t.Fatal(err)
		}
		got[r.Out(0).(string)]++
	}

	// C07: parameter a is converted from the value named a, parameter b
	// from the value named b.
	if len(got) != 1 || got["p1|p2"] == 0 {
		t.Fatalf("want only p1|p2, got %v", got)
	}
}

// The same with a converter that has two type-only inputs: whichever input
// the path does not enter through keeps the value of the other parameter.
type f1F float64

func TestFinding1_TwoTypeOnlyInputs(t *testing.T) {
	hclog.L().SetLevel(hclog.Error)

	conv := func(i int, f f1F) string { return fmt.Sprintf("%d/%v", i, float64(f)) }

	got := map[string]int{}
	for i := 0; i < 50; i++ {
		target, err := argmapper.NewFunc(func(in struct {
			argmapper.Struct
			A string
			B string
		}) string {
			return in.A + "|" + in.B
		})
		if err != nil {
			t.Fatal(err)
		}

		r := target.Call(
			argmapper.Named("a", 1),
			argmapper.Named("b", 2),
			argmapper.NamedSubtype("a", f1F(1.5), "s"),
			argmapper.NamedSubtype("b", f1F(2.5), "s"),
			argmapper.Converter(conv),
		)
		if err := r.Err(); err != nil {
			t.Fatal(err)
		}
		got[r.Out(0).(string)]++
	}

	if len(got) != 1 || got["1/1.5|2/2.5"] == 0 {
		t.Fatalf("want only 1/1.5|2/2.5, got %v", got)
	}
}
