// Finding 2 -- incomplete fix cd314ae (name affinity for the inputs of
// converters on the path); property C07.
//
// Copy to the root of the worktree (package argmapper_test, directory
// /tmp/hunt5/a/wt) and run:
//
//	go test -count=1 -run 'TestFinding2' .
//
// The named parameter A (string) is produced by conv2, which takes a
// type-only int and a NAMED input x. x in turn is produced by conv1 from a
// type-only int. Ints named a and b are supplied. The nested search for the
// named input x replaces the remembered affinity "a" by "x", so conv1's
// type-only input ties between a and b: in about a third of the calls the
// parameter a is (partly) converted from the value named b.
package argmapper_test

import (
	"fmt"
	"testing"

	"github.com/hashicorp/go-argmapper"
	"github.com/hashicorp/go-hclog"
)

type f2F float64

func TestFinding2_AffinityLostAtNamedConverterInput(t *testing.T) {
	hclog.L().SetLevel(hclog.Error)

	conv1 := func(i int) struct {
		argmapper.Struct
		X f2F
	} {
		return struct {
			argmapper.Struct
			X f2F
		}{X: f2F(i * 10)}
	}
	conv2 := func(in struct {
		argmapper.Struct
		V int `argmapper:",typeOnly"`
		X f2F
	}) string {
		return fmt.Sprint(in.V, "/", float64(in.X))
	}

	got := map[string]int{}
	for i := 0; i < 200; i++ {
		target, err := argmapper.NewFunc(func(in struct {
			argmapper.Struct
			A string
		}) string {
			return in.A
		})
		if err != nil {
			t.Fatal(err)
		}

		r := target.Call(
			argmapper.Named("a", 1),
			argmapper.Named("b", 2),
			argmapper.Converter(conv1, conv2),
		)
		if err := r.Err(); err != nil {
			t.Fatal(err)
		}
		got[r.Out(0).(string)]++
	}

	// Everything on the way to the parameter a is converted from the
	// value named a: conv2(1, conv1(1)) = "1/10".
	if len(got) != 1 || got["1/10"] == 0 {
		t.Fatalf("want only 1/10, got %v", got)
	}
}
