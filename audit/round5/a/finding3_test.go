// Finding 3 -- incomplete fix 830fc78 (Value.Arg honours the declared
// interface type of a value), sibling of bca5ac6; property C15.
//
// Copy to the root of the worktree (package argmapper_test, directory
// /tmp/hunt5/a/wt) and run:
//
//	go test -count=1 -run 'TestFinding3' .
//
// A value declared with the interface type io.Reader is filled with a
// reflect.Value of ANOTHER interface type (io.ReadCloser, as loaded from the
// result of another function). ValueSet.SignatureValues accepts it, but
// Value.Arg sends it under io.ReadCloser instead of the declared io.Reader:
// the fully filled input set does not satisfy its own function.
package argmapper_test

import (
	"bytes"
	"io"
	"testing"

	"github.com/hashicorp/go-argmapper"
	"github.com/hashicorp/go-hclog"
)

type f3RC struct{ *bytes.Buffer }

func (f3RC) Close() error { return nil }

func TestFinding3_ArgDeclaredInterfaceHoldingOtherInterface(t *testing.T) {
	hclog.L().SetLevel(hclog.Error)

	type prodOut struct {
		argmapper.Struct
		RC io.ReadCloser
	}
	prod, err := argmapper.NewFunc(func() prodOut {
		return prodOut{RC: f3RC{bytes.NewBufferString("x")}}
	})
	if err != nil {
		t.Fatal(err)
	}
	cons, err := argmapper.NewFunc(func(in struct {
		argmapper.Struct
		R io.Reader
	}) string {
		b, _ := io.ReadAll(in.R)
		return string(b)
	})
	if err != nil {
		t.Fatal(err)
	}

	// Load the producer's outputs.
	out := prod.Output()
	if err := out.FromResult(prod.Call()); err != nil {
		t.Fatal(err)
	}

	// Fill the consumer's input set with it: an interface-kind value of
	// type io.ReadCloser for the value declared as io.Reader.
	in := cons.Input()
	in.Named("r").Value = out.Named("rc").Value

	// The set accepts the value: it renders as the function's signature.
	_ = in.SignatureValues()

	// ... but its Args do not satisfy the function.
	r := cons.Call(in.Args()...)
	if err := r.Err(); err != nil {
		t.Fatalf("a fully filled input set does not satisfy its own function: %T", err)
	}
	if r.Out(0) != "x" {
		t.Fatalf("got %v", r.Out(0))
	}
}
