// Finding 4 (low severity, sibling of 0df23c0 "a converter given to Call
// overrides a default converter of the same type"); property C16.
//
// Copy to the root of the worktree (package argmapper_test, directory
// /tmp/hunt5/a/wt) and run:
//
//	go test -count=1 -run 'TestFinding4' .
//
// 0df23c0 made explicit converters last-wins, so that a converter given to
// Call replaces a default converter with the same function type. Converters
// produced by converter GENERATORS are still first-wins: a generator given
// to Call can never take the place of a default generator that produces a
// converter of the same function type.
package argmapper_test

import (
	"reflect"
	"testing"

	"github.com/hashicorp/go-argmapper"
	"github.com/hashicorp/go-hclog"
)

func TestFinding4_CallGeneratorDoesNotOverrideDefaultGenerator(t *testing.T) {
	hclog.L().SetLevel(hclog.Error)

	gen := func(label string) argmapper.ConverterGenFunc {
		return func(v argmapper.Value) (*argmapper.Func, error) {
			if v.Type != reflect.TypeOf(0) {
				return nil, nil
			}
			return argmapper.NewFunc(func(int) string { return label })
		}
	}

	// Reference: explicit converters (fixed by 0df23c0).
	target, err := argmapper.NewFunc(func(s string) string { return s },
		argmapper.Converter(func(int) string { return "default" }))
	if err != nil {
		t.Fatal(err)
	}
	r := target.Call(argmapper.Typed(1), argmapper.Converter(func(int) string { return "call" }))
	if r.Err() != nil || r.Out(0) != "call" {
		t.Fatalf("explicit converters: %v %v", r.Err(), r.Out(0))
	}

	// Generators.
	target, err = argmapper.NewFunc(func(s string) string { return s },
		argmapper.ConverterGen(gen("default")))
	if err != nil {
		t.Fatal(err)
	}
	r = target.Call(argmapper.Typed(1), argmapper.ConverterGen(gen("call")))
	if err := r.Err(); err != nil {
		t.Fatal(err)
	}
	if r.Out(0) != "call" {
		t.Fatalf("generator given to Call should override the default generator, got %q", r.Out(0))
	}
}
