// Finding 5 (low severity, sibling of d0d2149 "Redefine returns an error for
// functions with too many results"); properties C15 / C06 (spirit).
//
// Copy to the root of the worktree (package argmapper_test, directory
// /tmp/hunt5/a/wt) and run:
//
//	go test -count=1 -run 'TestFinding5' .
//
// BuildFunc appends a final error result to the output signature exactly
// like Redefine does, and hands the total to reflect.FuncOf, which panics
// above 128 parameters+results. For the (lifted) value sets of a function
// that NewFunc accepts -- 127 parameters and one result -- BuildFunc panics
// instead of returning an error.
package argmapper_test

import (
	"reflect"
	"testing"

	"github.com/hashicorp/go-argmapper"
)

func TestFinding5_BuildFuncPanicsOnLargeSignature(t *testing.T) {
	it := reflect.TypeOf(0)
	in := make([]reflect.Type, 127)
	for i := range in {
		in[i] = it
	}
	ft := reflect.FuncOf(in, []reflect.Type{it}, false) // 128 in total: legal
	fn := reflect.MakeFunc(ft, func([]reflect.Value) []reflect.Value {
		return []reflect.Value{reflect.Zero(it)}
	})

	f, err := argmapper.NewFunc(fn.Interface())
	if err != nil {
		t.Fatal(err)
	}

	defer func() {
		if r := recover(); r != nil {
			t.Fatalf("BuildFunc panicked instead of returning an error: %v", r)
		}
	}()
	_, err = argmapper.BuildFunc(f.Input(), f.Output(), func(in, out *argmapper.ValueSet) error {
		return nil
	})
	t.Logf("BuildFunc returned: %v", err)
}
