package argmapper

import (
	"errors"
	"fmt"
	"reflect"
	"sync/atomic"
	"testing"
)

type pOut struct {
	Struct
	B sB `argmapper:"b,subtype=x"`
	I iface
}

func TestZZP_OnceShapes(t *testing.T) {
	// nil pointer struct output, once
	var c1 int32
	nilOut := MustFunc(NewFunc(func(a sA) *pOut { atomic.AddInt32(&c1, 1); return nil }, FuncOnce()))
	target := MustFunc(NewFunc(func(in struct {
		Struct
		B sB
	}) sB {
		return in.B
	}))
	for i := 0; i < 3; i++ {
		r := target.Call(Typed(sA(i)), ConverterFunc(nilOut))
		t.Logf("nil ptr out: %v len=%d", r.Err(), r.Len())
		if r.Err() == nil {
			t.Logf("  out=%v", r.Out(0))
		}
	}
	if c1 != 1 {
		t.Errorf("c1=%d", c1)
	}

	// non-nil pointer output with interface, used for iface param
	var c2 int32
	ptrOut := MustFunc(NewFunc(func(a sA) (*pOut, error) {
		atomic.AddInt32(&c2, 1)
		return &pOut{B: sB(a) + 10, I: &impl{v: int(a)}}, nil
	}, FuncOnce()))
	target2 := MustFunc(NewFunc(func(in *struct {
		Struct
		B sB   `argmapper:",subtype=x"`
		I iface `argmapper:",typeOnly"`
	}) string {
		return fmt.Sprint(in.B, in.I.Get())
	}, FuncOnce()))
	for i := 0; i < 3; i++ {
		r := target2.Call(Typed(sA(i+1)), ConverterFunc(ptrOut))
		if r.Err() != nil {
			t.Errorf("err: %v", r.Err())
			continue
		}
		if r.Out(0).(string) != "11 1" {
			t.Errorf("got %v", r.Out(0))
		}
	}
	if c2 != 1 {
		t.Errorf("c2=%d", c2)
	}
	rf, err := target2.Redefine(ConverterFunc(ptrOut), FilterInput(FilterType(reflect.TypeOf(sA(0)))))
	if err != nil {
		t.Fatalf("redefine: %v", err)
	}
	r := rf.Call(Typed(sA(77)))
	if r.Err() != nil || r.Out(0).(string) != "11 1" {
		t.Errorf("rf: %v %v", r.Err(), r.Out(0))
	}

	// once function used as target then as converter, and vice versa
	var c3 int32
	f := MustFunc(NewFunc(func(a sA) (sB, error) {
		atomic.AddInt32(&c3, 1)
		if a == 0 {
			return 0, errors.New("zero")
		}
		return sB(a), nil
	}, FuncOnce()))
	r = f.Call() // unsatisfied, not executed
	if r.Err() == nil || c3 != 0 {
		t.Errorf("expected unsatisfied: %v %d", r.Err(), c3)
	}
	r = f.Call(Typed(sA(4)))
	if r.Err() != nil || r.Out(0).(sB) != 4 {
		t.Errorf("bad")
	}
	g := MustFunc(NewFunc(func(b sB) sB { return b }))
	r = g.Call(Typed(sA(9)), ConverterFunc(f))
	if r.Err() != nil || r.Out(0).(sB) != 4 {
		t.Errorf("bad %v", r.Err())
	}
	v, err := Convert(reflect.TypeOf(sB(0)), Typed(sA(8)), ConverterFunc(f))
	if err != nil || v.(sB) != 4 {
		t.Errorf("bad %v %v", v, err)
	}
	if c3 != 1 {
		t.Errorf("c3=%d", c3)
	}
}

// A once converter needed twice in one call through different consumers;
// and once converter used with multiple named outputs.
func TestZZP_OnceWithinCall(t *testing.T) {
	var c int32
	once := MustFunc(NewFunc(func(a sA) struct {
		Struct
		X sB
		Y sC
		Z sD `argmapper:",typeOnly"`
	} {
		n := atomic.AddInt32(&c, 1)
		return struct {
			Struct
			X sB
			Y sC
			Z sD `argmapper:",typeOnly"`
		}{X: sB(n), Y: sC(n), Z: sD(n)}
	}, FuncOnce()))
	de := MustFunc(NewFunc(func(d sD) sE { return sE(fmt.Sprint("d", d)) }))
	target := MustFunc(NewFunc(func(in struct {
		Struct
		X sB
		Y sC
		E sE `argmapper:",typeOnly"`
	}) string {
		return fmt.Sprint(in.X, in.Y, in.E)
	}))
	for i := 0; i < 5; i++ {
		r := target.Call(Typed(sA(i)), ConverterFunc(once, de))
		if r.Err() != nil {
			t.Fatalf("err %v", r.Err())
		}
		if r.Out(0).(string) != "1 1d1" {
			t.Errorf("got %v", r.Out(0))
		}
	}
	if c != 1 {
		t.Errorf("c=%d", c)
	}
}
