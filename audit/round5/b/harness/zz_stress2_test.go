package argmapper

import (
	"fmt"
	"io"
	"reflect"
	"sync/atomic"
	"testing"

	"github.com/hashicorp/go-hclog"
)

type iface interface{ Get() int }
type impl struct{ v int }

func (i *impl) Get() int { return i.v }

func TestZZ2_TraceLoggerShared(t *testing.T) {
	logger := hclog.New(&hclog.LoggerOptions{Level: hclog.Trace, Output: io.Discard})
	var count int32
	once := MustFunc(NewFunc(func(a sA) sB { atomic.AddInt32(&count, 1); return sB(a) }, FuncOnce()))
	gen := func(v Value) (*Func, error) {
		if v.Type == reflect.TypeOf(sA(0)) {
			return once, nil
		}
		return nil, nil
	}
	bc := MustFunc(NewFunc(func(in struct {
		Struct
		B sB `argmapper:",typeOnly,subtype=x"`
	}) struct {
		Struct
		C sC `argmapper:"c,subtype=y"`
	} {
		return struct {
			Struct
			C sC `argmapper:"c,subtype=y"`
		}{C: sC(in.B)}
	}))
	ci := MustFunc(NewFunc(func(in struct {
		Struct
		C sC
	}) *impl {
		return &impl{v: int(in.C)}
	}))
	target := MustFunc(NewFunc(func(i iface) int { return i.Get() },
		Logger(logger), ConverterFunc(bc, ci), ConverterGen(gen)))

	var vals [48]int
	runN(48, func(i int) {
		for j := 0; j < 5; j++ {
			switch i % 3 {
			case 0:
				r := target.Call(Typed(sA(i + 1)))
				if r.Err() != nil {
					t.Errorf("call err: %v", r.Err())
					return
				}
				vals[i] = r.Out(0).(int)
			case 1:
				rf, err := target.Redefine(ConverterFunc(once), FilterInput(FilterType(reflect.TypeOf(sA(0)))))
				if err != nil {
					t.Errorf("redefine err: %v", err)
					return
				}
				r := rf.Call(Typed(sA(i + 1)))
				if r.Err() != nil {
					t.Errorf("rf call err: %v", r.Err())
					return
				}
				vals[i] = r.Out(0).(int)
			case 2:
				v, err := Convert(reflect.TypeOf((*iface)(nil)).Elem(), Typed(sA(i+1)), Logger(logger), ConverterFunc(bc, ci), ConverterGen(gen))
				if err != nil {
					t.Errorf("convert err: %v", err)
					return
				}
				vals[i] = v.(iface).Get()
			}
		}
	})
	if count != 1 {
		t.Fatalf("count %d", count)
	}
	for _, v := range vals {
		if v != vals[0] {
			t.Fatalf("vals %v", vals)
		}
	}
}

// Redefine must not run once converter & once converter runs once after; concurrent.
func TestZZ2_RedefineOnlyThenCall(t *testing.T) {
	for iter := 0; iter < 30; iter++ {
		var count int32
		once := MustFunc(NewFunc(func(a sA) (sB, error) {
			atomic.AddInt32(&count, 1)
			return sB(a), nil
		}, FuncOnce()))
		target := MustFunc(NewFunc(func(b sB) (sB, error) { return b, nil }, FuncOnce()))
		runN(16, func(i int) {
			_, err := target.Redefine(ConverterFunc(once), FilterInput(FilterType(reflect.TypeOf(sA(0)))))
			if err != nil {
				t.Errorf("err %v", err)
			}
		})
		if count != 0 {
			t.Fatalf("redefine ran converter: %d", count)
		}
		var outs [16]sB
		runN(16, func(i int) {
			if i%2 == 0 {
				rf, err := target.Redefine(ConverterFunc(once), FilterInput(FilterType(reflect.TypeOf(sA(0)))))
				if err != nil {
					t.Errorf("err %v", err)
					return
				}
				r := rf.Call(Typed(sA(i + 1)))
				if r.Err() != nil {
					t.Errorf("err %v", r.Err())
					return
				}
				outs[i] = r.Out(0).(sB)
			} else {
				r := target.Call(Typed(sA(i+1)), ConverterFunc(once))
				if r.Err() != nil {
					t.Errorf("err %v", r.Err())
					return
				}
				outs[i] = r.Out(0).(sB)
			}
		})
		if count != 1 {
			t.Fatalf("count %d", count)
		}
		for _, o := range outs {
			if o != outs[0] {
				t.Fatalf("outs: %v", outs)
			}
		}
	}
}

// Redefined function of a target without error result and once; append on shared out.
func TestZZ2_RedefinedOnceNoErr(t *testing.T) {
	var count int32
	target := MustFunc(NewFunc(func(a sA, b sB) (sC, sD) {
		atomic.AddInt32(&count, 1)
		return sC(a), sD(b)
	}, FuncOnce()))
	rf, err := target.Redefine()
	if err != nil {
		t.Fatal(err)
	}
	var outs [32]string
	runN(32, func(i int) {
		r := rf.Call(Typed(sA(i+1)), Typed(sB(i+1)))
		if r.Err() != nil {
			t.Errorf("err %v", r.Err())
			return
		}
		if r.Len() != 2 {
			t.Errorf("len %d", r.Len())
			return
		}
		outs[i] = fmt.Sprint(r.Out(0), r.Out(1))
	})
	if count != 1 {
		t.Fatalf("count %d", count)
	}
	for _, o := range outs {
		if o != outs[0] {
			t.Fatalf("outs %v", outs)
		}
	}
}
