package argmapper

import (
	"errors"
	"fmt"
	"reflect"
	"sync"
	"sync/atomic"
	"testing"
	"time"
)

type sA int
type sB int
type sC int
type sD int
type sE string

func runN(n int, fn func(i int)) {
	var wg sync.WaitGroup
	start := make(chan struct{})
	for i := 0; i < n; i++ {
		wg.Add(1)
		go func(i int) {
			defer wg.Done()
			<-start
			fn(i)
		}(i)
	}
	close(start)
	wg.Wait()
}

// shared target, shared converters, shared option slice, per-call values.
func TestZZ_SharedEverything(t *testing.T) {
	target := MustFunc(NewFunc(func(in struct {
		Struct
		X sC
		Y sB `argmapper:",typeOnly"`
	}) string {
		return fmt.Sprintf("%d/%d", in.X, in.Y)
	}))
	ab := MustFunc(NewFunc(func(a sA) sB { return sB(a) + 1 }))
	bc := MustFunc(NewFunc(func(in struct {
		Struct
		B sB `argmapper:",typeOnly"`
	}) struct {
		Struct
		X sC
	} {
		return struct {
			Struct
			X sC
		}{X: sC(in.B) * 2}
	}))
	shared := []Arg{ConverterFunc(ab, bc), ConverterGen(func(v Value) (*Func, error) { return nil, nil })}

	runN(64, func(i int) {
		for j := 0; j < 50; j++ {
			a := sA(i*1000 + j)
			opts := append([]Arg{}, shared...)
			opts = append(opts, Typed(a))
			r := target.Call(opts...)
			if err := r.Err(); err != nil {
				t.Errorf("err: %v", err)
				return
			}
			want := fmt.Sprintf("%d/%d", (int(a)+1)*2, int(a)+1)
			if got := r.Out(0).(string); got != want {
				t.Errorf("got %s want %s", got, want)
			}
			_ = target.Input().Values()
			_ = target.Output().Values()
			_ = ab.Input().Values()
			_ = bc.Output().Values()
			_ = target.Name()
		}
	})
}

// FuncOnce converter, first use concurrent
func TestZZ_OnceConverterConcurrentFirstUse(t *testing.T) {
	for iter := 0; iter < 50; iter++ {
		var count int32
		once := MustFunc(NewFunc(func(a sA) sB {
			atomic.AddInt32(&count, 1)
			time.Sleep(time.Millisecond)
			return sB(a)
		}, FuncOnce()))
		target := MustFunc(NewFunc(func(b sB) sB { return b }))
		results := make([]sB, 32)
		runN(32, func(i int) {
			r := target.Call(Typed(sA(i+1)), ConverterFunc(once))
			if r.Err() != nil {
				t.Errorf("err %v", r.Err())
				return
			}
			results[i] = r.Out(0).(sB)
		})
		if count != 1 {
			t.Fatalf("count=%d", count)
		}
		for _, r := range results {
			if r != results[0] {
				t.Fatalf("different results: %v", results)
			}
		}
	}
}

// FuncOnce as target, with error, concurrently
func TestZZ_OnceTargetFailing(t *testing.T) {
	for iter := 0; iter < 50; iter++ {
		var count int32
		target := MustFunc(NewFunc(func(a sA) (sB, error) {
			n := atomic.AddInt32(&count, 1)
			if n == 1 {
				return 0, fmt.Errorf("fail %d", a)
			}
			return sB(a), nil
		}, FuncOnce()))
		errs := make([]error, 16)
		runN(16, func(i int) {
			r := target.Call(Typed(sA(i + 1)))
			errs[i] = r.Err()
		})
		if count != 1 {
			t.Fatalf("count=%d", count)
		}
		for _, e := range errs {
			if e == nil || e != errs[0] {
				t.Fatalf("errs differ %v", errs)
			}
		}
		// later
		r := target.Call(Typed(sA(99)))
		if r.Err() != errs[0] {
			t.Fatalf("later err differs: %v", r.Err())
		}
	}
}

// Once converter failing first
func TestZZ_OnceConverterFailing(t *testing.T) {
	var count int32
	myErr := errors.New("boom")
	once := MustFunc(NewFunc(func(a sA) (sB, error) {
		atomic.AddInt32(&count, 1)
		return 7, myErr
	}, FuncOnce()))
	target := MustFunc(NewFunc(func(b sB) sB { return b }))
	runN(16, func(i int) {
		for j := 0; j < 10; j++ {
			r := target.Call(Typed(sA(i+1)), ConverterFunc(once))
			if r.Err() != myErr {
				t.Errorf("err %v", r.Err())
			}
		}
	})
	if count != 1 {
		t.Fatalf("count=%d", count)
	}
}

// Redefine concurrently with calls & once converters (C09)
func TestZZ_RedefineConcurrentWithCalls(t *testing.T) {
	for iter := 0; iter < 20; iter++ {
		var count int32
		once := MustFunc(NewFunc(func(a sA) *struct {
			Struct
			B sB
		} {
			atomic.AddInt32(&count, 1)
			return &struct {
				Struct
				B sB
			}{B: sB(a)}
		}, FuncOnce()))
		bc := MustFunc(NewFunc(func(in struct {
			Struct
			B sB
		}) sC {
			return sC(in.B)
		}))
		target := MustFunc(NewFunc(func(c sC) sC { return c }))
		opts := []Arg{ConverterFunc(once, bc)}
		var vals [32]sC
		runN(32, func(i int) {
			if i%2 == 0 {
				rf, err := target.Redefine(append([]Arg{FilterInput(FilterType(reflect.TypeOf(sA(0))))}, opts...)...)
				if err != nil {
					t.Errorf("redefine: %v", err)
					return
				}
				vs := rf.Input().Values()
				if len(vs) != 1 || vs[0].Type != reflect.TypeOf(sA(0)) {
					t.Errorf("bad inputs %v", vs)
				}
				r := rf.Call(Typed(sA(i + 1)))
				if r.Err() != nil {
					t.Errorf("err %v", r.Err())
					return
				}
				vals[i] = r.Out(0).(sC)
			} else {
				r := target.Call(append([]Arg{Typed(sA(i + 1))}, opts...)...)
				if r.Err() != nil {
					t.Errorf("err %v", r.Err())
					return
				}
				vals[i] = r.Out(0).(sC)
			}
		})
		if count != 1 {
			t.Fatalf("count=%d", count)
		}
		for _, v := range vals {
			if v != vals[0] || v == 0 {
				t.Fatalf("vals %v", vals)
			}
		}
	}
}

// Redefined function called concurrently
func TestZZ_RedefinedConcurrent(t *testing.T) {
	target := MustFunc(NewFunc(func(in struct {
		Struct
		A sA
		E sE
	}) string {
		return fmt.Sprintf("%d-%s", in.A, in.E)
	}))
	conv := MustFunc(NewFunc(func(in struct {
		Struct
		A sB
	}) struct {
		Struct
		A sA
	} {
		return struct {
			Struct
			A sA
		}{A: sA(in.A) + 1}
	}))
	rf, err := target.Redefine(ConverterFunc(conv), FilterInput(FilterOr(FilterType(reflect.TypeOf(sB(0))), FilterType(reflect.TypeOf(sE(""))))))
	if err != nil {
		t.Fatal(err)
	}
	runN(64, func(i int) {
		for j := 0; j < 20; j++ {
			b := sB(i*100 + j)
			e := sE(fmt.Sprint("e", i, j))
			r := rf.Call(Named("a", b), Named("e", e))
			if r.Err() != nil {
				t.Errorf("err %v", r.Err())
				return
			}
			want := fmt.Sprintf("%d-%s", int(b)+1, e)
			if r.Out(0).(string) != want {
				t.Errorf("got %v want %v", r.Out(0), want)
			}
			_ = rf.Input().Args
			_ = rf.Input().Values()
		}
	})
}

// Convert from many goroutines
func TestZZ_ConvertConcurrent(t *testing.T) {
	var count int32
	once := MustFunc(NewFunc(func() sD { atomic.AddInt32(&count, 1); return 5 }, FuncOnce()))
	ab := MustFunc(NewFunc(func(a sA, d sD) sB { return sB(a) + sB(d) }))
	opts := []Arg{ConverterFunc(ab, once)}
	runN(64, func(i int) {
		for j := 0; j < 20; j++ {
			a := sA(i*100 + j)
			v, err := Convert(reflect.TypeOf(sB(0)), append([]Arg{Typed(a)}, opts...)...)
			if err != nil {
				t.Errorf("err %v", err)
				return
			}
			if v.(sB) != sB(a)+5 {
				t.Errorf("got %v", v)
			}
		}
	})
	if count != 1 {
		t.Fatalf("count %d", count)
	}
}

// Once function with defaults, multiple outputs, repeated needs within a single call
func TestZZ_OnceRepeatedNeed(t *testing.T) {
	var count int32
	once := MustFunc(NewFunc(func(a sA) (sB, sC) {
		atomic.AddInt32(&count, 1)
		return sB(a), sC(a)
	}, FuncOnce()))
	cd := MustFunc(NewFunc(func(c sC) sD { return sD(c) }))
	target := MustFunc(NewFunc(func(b sB, c sC, d sD) string { return fmt.Sprint(b, c, d) }))
	var outs [16]string
	runN(16, func(i int) {
		r := target.Call(Typed(sA(i+1)), ConverterFunc(once, cd))
		if r.Err() != nil {
			t.Errorf("err %v", r.Err())
			return
		}
		outs[i] = r.Out(0).(string)
	})
	if count != 1 {
		t.Fatalf("count %d", count)
	}
	for _, o := range outs {
		if o != outs[0] {
			t.Fatalf("outs %v", outs)
		}
	}
}
