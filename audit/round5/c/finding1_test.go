// Finding 1: a NAMED value (or named converter output) whose type implements an
// interface is never matched to a TYPE-ONLY parameter of that interface type.
//
// Package/dir: copy this file into the root of the library worktree (package
// argmapper_test, next to func.go), then run:
//
//	go test -count=1 -run 'TestFinding1' .
//
// It FAILS on the unmodified library (properties C05 and C13, matching table of
// C01): the parameter is derivable - it is matched directly by a supplied
// value - yet Call/Convert return ErrArgumentUnsatisfied and list the
// parameter as missing. The identical calls with a concrete parameter type, or
// with the same value given through Typed instead of Named, succeed (the
// control assertions at the top of each test pass).
package argmapper_test

import (
	"bytes"
	"errors"
	"io"
	"reflect"
	"testing"

	"github.com/hashicorp/go-argmapper"
)

func f1IsUnsatisfied(err error) (*argmapper.ErrArgumentUnsatisfied, bool) {
	var ue *argmapper.ErrArgumentUnsatisfied
	ok := errors.As(err, &ue)
	return ue, ok
}

// Direct value: func(io.Writer) called with Named("out", *bytes.Buffer).
func TestFinding1_NamedImplementationToTypeOnlyInterfaceParam(t *testing.T) {
	buf := &bytes.Buffer{}

	// Control 1: a named value DOES feed a type-only parameter of its own
	// (concrete) type.
	concrete, err := argmapper.NewFunc(func(w *bytes.Buffer) string { w.WriteString("x"); return "ok" })
	if err != nil {
		t.Fatal(err)
	}
	if r := concrete.Call(argmapper.Named("out", buf)); r.Err() != nil {
		t.Fatalf("control (concrete param, named value) failed: %v", r.Err())
	}

	// Control 2: a type-only implementation DOES feed the interface parameter.
	ran := 0
	target, err := argmapper.NewFunc(func(w io.Writer) string { ran++; return "ok" })
	if err != nil {
		t.Fatal(err)
	}
	if r := target.Call(argmapper.Typed(buf)); r.Err() != nil || ran != 1 {
		t.Fatalf("control (interface param, typed value) failed: %v", r.Err())
	}

	// The defect: same target, same value, given by name.
	ran = 0
	r := target.Call(argmapper.Named("out", buf))
	if r.Err() != nil {
		ue, ok := f1IsUnsatisfied(r.Err())
		if ok {
			t.Errorf("Call(Named(\"out\", *bytes.Buffer)) on func(io.Writer): unsatisfied; "+
				"missing=%v inputs=%v (the input implements the missing parameter's type)",
				ue.Args[0].String(), ue.Inputs[0].String())
		} else {
			t.Errorf("Call failed: %v", r.Err())
		}
	} else if ran != 1 {
		t.Errorf("target ran %d times", ran)
	}
}

// Named converter output: a provider returning struct{Struct; Out *bytes.Buffer}.
func TestFinding1_NamedConverterOutputToTypeOnlyInterfaceParam(t *testing.T) {
	type provided struct {
		argmapper.Struct
		Out *bytes.Buffer
	}
	provider := func() provided { return provided{Out: &bytes.Buffer{}} }

	// Control: concrete type-only parameter is fed by the named output.
	concrete, _ := argmapper.NewFunc(func(w *bytes.Buffer) {})
	if r := concrete.Call(argmapper.Converter(provider)); r.Err() != nil {
		t.Fatalf("control failed: %v", r.Err())
	}

	target, _ := argmapper.NewFunc(func(w io.Writer) {})
	if r := target.Call(argmapper.Converter(provider)); r.Err() != nil {
		_, ok := f1IsUnsatisfied(r.Err())
		t.Errorf("func(io.Writer) with provider of named *bytes.Buffer: failed (unsatisfied=%v)", ok)
	}
}

// A converter's type-only interface input, and Convert.
func TestFinding1_ConverterInputAndConvert(t *testing.T) {
	buf := bytes.NewBufferString("hello")

	target, _ := argmapper.NewFunc(func(s string) string { return s })

	// Control: converter with concrete input takes the named value.
	r := target.Call(argmapper.Named("src", buf),
		argmapper.Converter(func(b *bytes.Buffer) string { return b.String() }))
	if r.Err() != nil || r.Out(0) != "hello" {
		t.Fatalf("control failed: %v", r.Err())
	}

	// Single-input converter with an interface input (C05 domain (a)).
	r = target.Call(argmapper.Named("src", buf),
		argmapper.Converter(func(rd io.Reader) string { b, _ := io.ReadAll(rd); return string(b) }))
	if r.Err() != nil {
		_, ok := f1IsUnsatisfied(r.Err())
		t.Errorf("converter func(io.Reader) string with Named(\"src\", *bytes.Buffer): failed (unsatisfied=%v)", ok)
	}

	// Convert: control with the concrete type, then the interface type.
	if _, err := argmapper.Convert(reflect.TypeOf(buf), argmapper.Named("src", buf)); err != nil {
		t.Fatalf("control Convert failed: %v", err)
	}
	readerType := reflect.TypeOf((*io.Reader)(nil)).Elem()
	if v, err := argmapper.Convert(readerType, argmapper.Named("src", buf)); err != nil {
		t.Errorf("Convert(io.Reader, Named(\"src\", *bytes.Buffer)) = %v, error (should return the buffer)", v)
	}
}
