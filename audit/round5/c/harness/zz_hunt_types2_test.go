//go:build go1.18

package argmapper_test

import (
	"bytes"
	"errors"
	htmpl "html/template"
	"io"
	"reflect"
	"testing"
	ttmpl "text/template"

	"github.com/hashicorp/go-argmapper"
	"github.com/hashicorp/go-hclog"
)

func quiet() func() {
	hclog.L().SetLevel(hclog.Info)
	return func() { hclog.L().SetLevel(hclog.Trace) }
}

func unsat(err error) bool {
	var ue *argmapper.ErrArgumentUnsatisfied
	return errors.As(err, &ue)
}

func TestHuntNoFabrication(t *testing.T) {
	defer quiet()()
	ch := make(chan int)
	cases := []struct {
		name   string
		target interface{}
		args   []argmapper.Arg
		ok     bool
	}{
		{"recv chan from bidi", func(<-chan int) {}, []argmapper.Arg{argmapper.Typed(ch)}, false},
		{"bidi from recv", func(chan int) {}, []argmapper.Arg{argmapper.Typed((<-chan int)(ch))}, false},
		{"slice from named slice", func([]int) {}, []argmapper.Arg{argmapper.Typed(hMySlice{1})}, false},
		{"named slice from slice", func(hMySlice) {}, []argmapper.Arg{argmapper.Typed([]int{1})}, false},
		{"func from named func", func(func(int) string) {}, []argmapper.Arg{argmapper.Typed(hMyFunc(nil))}, false},
		{"text from html", func(*ttmpl.Template) {}, []argmapper.Arg{argmapper.Typed(htmpl.New("a"))}, false},
		{"html from text", func(*htmpl.Template) {}, []argmapper.Arg{argmapper.Typed(ttmpl.New("a"))}, false},
		{"box int from box string", func(hBox[int]) {}, []argmapper.Arg{argmapper.Typed(hBox[string]{})}, false},
		{"pair swapped", func(hPair[int, string]) {}, []argmapper.Arg{argmapper.Typed(hPair[string, int]{})}, false},
		{"ptr from ptrptr", func(*int) {}, []argmapper.Arg{argmapper.Typed(new(*int))}, false},
		{"array len", func([3]int) {}, []argmapper.Arg{argmapper.Typed([4]int{})}, false},
		{"uintptr from unsafe", func(uintptr) {}, []argmapper.Arg{argmapper.Typed(uint(1))}, false},
		{"struct tags differ", func(struct {
			A int `x:"1"`
		}) {
		}, []argmapper.Arg{argmapper.Typed(struct{ A int }{})}, false},
		{"identical anon structs", func(struct{ A int }) {}, []argmapper.Arg{argmapper.Typed(struct{ A int }{1})}, true},
		{"iface identical method sets", func(interface{ Close() error }) {}, []argmapper.Arg{
			argmapper.Converter(func() io.Closer { return io.NopCloser(nil) })}, true},
		{"iface not implemented (value recv vs ptr)", func(io.Writer) {}, []argmapper.Arg{argmapper.Typed(bytes.Buffer{})}, false},
		{"iface implemented ptr", func(io.Writer) {}, []argmapper.Arg{argmapper.Typed(&bytes.Buffer{})}, true},
		{"error from concrete ptr", func(error) {}, []argmapper.Arg{argmapper.Typed(&hErrVal{})}, true},
		{"empty iface from anything", func(interface{}) {}, []argmapper.Arg{argmapper.Typed(ch)}, true},
	}
	for _, c := range cases {
		t.Run(c.name, func(t *testing.T) {
			ran := false
			fv := reflect.ValueOf(c.target)
			wrapped := reflect.MakeFunc(fv.Type(), func(a []reflect.Value) []reflect.Value {
				ran = true
				return nil
			}).Interface()
			f, err := argmapper.NewFunc(wrapped)
			if err != nil {
				t.Fatal(err)
			}
			var r argmapper.Result
			safely(t, "call", func() { r = f.Call(c.args...) })
			if c.ok {
				if r.Err() != nil || !ran {
					t.Errorf("expected success: %v", firstLine(r.Err()))
				}
			} else {
				if !unsat(r.Err()) || ran {
					t.Errorf("expected unsatisfied: ran=%v err=%v", ran, firstLine(r.Err()))
				}
			}
			// Convert too
			T := fv.Type().In(0)
			var cv interface{}
			safely(t, "convert", func() { cv, err = argmapper.Convert(T, c.args...) })
			if c.ok != (err == nil) {
				t.Errorf("Convert: %v %v", cv, firstLine(err))
			}
			if err == nil && !reflect.TypeOf(cv).AssignableTo(T) {
				t.Errorf("Convert result not assignable")
			}
			if err != nil && cv != nil {
				t.Errorf("Convert nonnil value with error")
			}
		})
	}
}

// each parameter gets the value of its own type even though types look alike
func TestHuntLookalikes(t *testing.T) {
	defer quiet()()
	ch := make(chan int)
	tt, ht := ttmpl.New("t"), htmpl.New("h")
	var got []interface{}
	f, err := argmapper.NewFunc(func(a []int, b hMySlice, c chan int, d <-chan int, e chan<- int,
		f *ttmpl.Template, g *htmpl.Template, h hBox[int], i hBox[string], j **int, k *int,
		l func(), m func() error, n [2]int, o [3]int, p map[string]int, q hMyMap) {
		got = []interface{}{a, b, c, d, e, f, g, h, i, j, k, l, m, n, o, p, q}
	})
	if err != nil {
		t.Fatal(err)
	}
	one := 1
	pone := &one
	fn1 := func() {}
	fn2 := func() error { return nil }
	vals := []interface{}{[]int{1}, hMySlice{2}, ch, (<-chan int)(ch), (chan<- int)(ch), tt, ht,
		hBox[int]{1}, hBox[string]{"s"}, &pone, pone, fn1, fn2, [2]int{1, 2}, [3]int{1, 2, 3},
		map[string]int{"a": 1}, hMyMap{"b": 2}}
	for round := 0; round < 20; round++ {
		got = nil
		// half of them through providers
		var args []argmapper.Arg
		for i, v := range vals {
			v := v
			if (i+round)%2 == 0 {
				args = append(args, argmapper.Typed(v))
			} else {
				ft := reflect.FuncOf(nil, []reflect.Type{reflect.TypeOf(v)}, false)
				args = append(args, argmapper.Converter(reflect.MakeFunc(ft, func([]reflect.Value) []reflect.Value {
					return []reflect.Value{reflect.ValueOf(v)}
				}).Interface()))
			}
		}
		r := f.Call(args...)
		if r.Err() != nil {
			t.Fatalf("err: %v", firstLine(r.Err()))
		}
		for i := range vals {
			if !same(got[i], vals[i]) {
				t.Errorf("param %d: got %#v want %#v", i, got[i], vals[i])
			}
		}
	}
}

type hStr1 struct{ s string }

func (h hStr1) String() string { return h.s }

// Finding A variants: named implementation to type-only interface parameter.
func TestHuntNamedImplToTypedIface(t *testing.T) {
	defer quiet()()
	type stringer interface{ String() string }

	// concrete: works
	fc, _ := argmapper.NewFunc(func(s hStr1) string { return s.s })
	r := fc.Call(argmapper.Named("x", hStr1{"a"}))
	if r.Err() != nil {
		t.Fatalf("concrete: %v", r.Err())
	}

	fi, _ := argmapper.NewFunc(func(s stringer) string { return s.String() })
	r = fi.Call(argmapper.Typed(hStr1{"a"}))
	if r.Err() != nil {
		t.Fatalf("typed impl: %v", r.Err())
	}
	r = fi.Call(argmapper.Named("x", hStr1{"a"}))
	if r.Err() != nil {
		t.Errorf("named impl -> typed iface param: %v", firstLine(r.Err()))
	}

	// converter output named
	r = fi.Call(argmapper.Converter(func() struct {
		argmapper.Struct
		X hStr1
	} {
		return struct {
			argmapper.Struct
			X hStr1
		}{X: hStr1{"b"}}
	}))
	if r.Err() != nil {
		t.Errorf("named conv output impl -> typed iface param: %v", firstLine(r.Err()))
	}

	// converter with typed iface input, named value
	ft, _ := argmapper.NewFunc(func(s string) string { return s })
	r = ft.Call(argmapper.Named("x", hStr1{"c"}), argmapper.Converter(func(s stringer) string { return s.String() }))
	if r.Err() != nil {
		t.Errorf("named impl -> converter typed iface input: %v", firstLine(r.Err()))
	}
	// same with concrete input converter works
	r = ft.Call(argmapper.Named("x", hStr1{"c"}), argmapper.Converter(func(s hStr1) string { return s.String() }))
	if r.Err() != nil {
		t.Errorf("named impl -> converter typed concrete input: %v", firstLine(r.Err()))
	}
	// Convert
	_, err := argmapper.Convert(reflect.TypeOf((*stringer)(nil)).Elem(), argmapper.Named("x", hStr1{"c"}))
	if err != nil {
		t.Errorf("Convert named impl -> iface: %v", firstLine(err))
	}
	_, err = argmapper.Convert(reflect.TypeOf(hStr1{}), argmapper.Named("x", hStr1{"c"}))
	if err != nil {
		t.Errorf("Convert named -> concrete: %v", firstLine(err))
	}
}
