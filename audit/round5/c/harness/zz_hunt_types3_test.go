//go:build go1.18

package argmapper_test

import (
	"fmt"
	"io"
	"reflect"
	"testing"

	"github.com/hashicorp/go-argmapper"
)

type HEmb struct{ Q int }
type HPtrEmb struct{ R int }
type hunexp struct{ Z int }

type hShape struct {
	A int
	argmapper.Struct
	B  string `argmapper:"Bee"`
	C  bool   `argmapper:",typeOnly"`
	D  int    `argmapper:"dee,subtype=x=y"`
	e  int
	_  int
	E2 int `argmapper:",subtype=s2"`
	F  int `argmapper:"IGNORED,typeOnly,subtype=s3"`
	HEmb
	*HPtrEmb
	io.Reader
	hunexp
	G  func() `argmapper:""`
	H  chan int `json:"h"`
	Ü  []int
	I9 map[string]int `argmapper:",typeonly"`
}

type hGenShape[T any] struct {
	argmapper.Struct
	V T
	W []T `argmapper:",typeOnly"`
}

func wantValues() []string {
	return []string{
		"a|int|", "bee|string|", "|bool|", "dee|int|x=y", "e2|int|s2", "|int|s3",
		"hemb|argmapper_test.HEmb|", "hptremb|*argmapper_test.HPtrEmb|", "reader|io.Reader|",
		"g|func()|", "h|chan int|", "ü|[]int|", "i9|map[string]int|",
	}
}

func render(vs []argmapper.Value) []string {
	var out []string
	for _, v := range vs {
		out = append(out, fmt.Sprintf("%s|%s|%s", v.Name, v.Type, v.Subtype))
	}
	return out
}

func TestHuntIntrospection(t *testing.T) {
	defer quiet()()
	fns := map[string]interface{}{
		"in struct":       func(hShape) {},
		"in ptr":          func(*hShape) {},
		"out struct":      func() hShape { return hShape{} },
		"out ptr":         func() *hShape { return nil },
		"out struct err":  func() (hShape, error) { return hShape{}, nil },
		"out ptr err":     func() (*hShape, error) { return nil, nil },
		"in out":          func(hShape) hShape { return hShape{} },
		"in ptr out ptr":  func(*hShape) *hShape { return nil },
		"in ptr out perr": func(*hShape) (*hShape, error) { return nil, nil },
	}
	for name, fn := range fns {
		f, err := argmapper.NewFunc(fn)
		if err != nil {
			t.Errorf("%s: %v", name, err)
			continue
		}
		ft := reflect.TypeOf(fn)
		if ft.NumIn() > 0 {
			if got := render(f.Input().Values()); !reflect.DeepEqual(got, wantValues()) {
				t.Errorf("%s input:\n got %q\nwant %q", name, got, wantValues())
			}
		} else if n := len(f.Input().Values()); n != 0 {
			t.Errorf("%s: inputs %d", name, n)
		}
		if ft.NumOut() > 0 {
			if got := render(f.Output().Values()); !reflect.DeepEqual(got, wantValues()) {
				t.Errorf("%s output:\n got %q\nwant %q", name, got, wantValues())
			}
		}
	}

	// generic
	f, err := argmapper.NewFunc(func(hGenShape[hBox[int]]) *hGenShape[string] { return nil })
	if err != nil {
		t.Fatal(err)
	}
	if got, want := render(f.Input().Values()), []string{"v|argmapper_test.hBox[int]|", "|[]argmapper_test.hBox[int]|"}; !reflect.DeepEqual(got, want) {
		t.Errorf("generic in: %q", got)
	}
	if got, want := render(f.Output().Values()), []string{"v|string|", "|[]string|"}; !reflect.DeepEqual(got, want) {
		t.Errorf("generic out: %q", got)
	}

	// positional
	f, err = argmapper.NewFunc(func(a int, b int, c error, d hunexp, e struct{ argmapperX int }, f *argmapper.Struct, g argmapper.Struct, h []hShape, i map[string]*hShape, j func(hShape), k [1]hShape, l chan hShape) (error, int, error, error) {
		return nil, 0, nil, nil
	})
	if err != nil {
		t.Fatal(err)
	}
	if got := render(f.Input().Values()); len(got) != 12 || got[0] != "|int|" || got[1] != "|int|" || got[2] != "|error|" {
		t.Errorf("positional in: %q", got)
	}
	if got, want := render(f.Output().Values()), []string{"|error|", "|int|", "|error|"}; !reflect.DeepEqual(got, want) {
		t.Errorf("positional out: %q", got)
	}

	// rejected
	var pps **hShape
	type named func(int)
	bad := map[string]interface{}{
		"mixed in":         func(hShape, int) {},
		"mixed in 2":       func(int, *hShape) {},
		"mixed in 3":       func(hShape, hShape) {},
		"mixed out":        func() (hShape, int) { return hShape{}, 0 },
		"mixed out 2":      func() (int, hShape, error) { return 0, hShape{}, nil },
		"mixed out 3":      func() (error, hShape) { return nil, hShape{} },
		"pp in":            func(**hShape) {},
		"pp out":           func() **hShape { return nil },
		"pp out err":       func() (**hShape, error) { return nil, nil },
		"ppp":              func(***hShape) {},
		"mixed pp":         func(int, **hShape) {},
		"int":              5,
		"string":           "x",
		"struct":           hShape{},
		"ptr to func":      new(func()),
		"pps":              pps,
		"chan":             make(chan int),
		"reflect.Value fn": reflect.ValueOf(func() {}),
		"slice of func":    []func(){},
	}
	for name, fn := range bad {
		func() {
			defer func() {
				if r := recover(); r != nil {
					t.Errorf("%s: PANIC %v", name, r)
				}
			}()
			f, err := argmapper.NewFunc(fn)
			if err == nil {
				t.Errorf("%s: accepted: in=%q out=%q", name, render(f.Input().Values()), render(f.Output().Values()))
			}
			r := (&argmapper.Func{})
			_ = r
			// as converter: Call must report error, not panic
			tgt, _ := argmapper.NewFunc(func() {})
			res := tgt.Call(argmapper.Converter(fn))
			if res.Err() == nil {
				t.Errorf("%s: accepted as converter", name)
			}
		}()
	}
	// accepted named func type
	if _, err := argmapper.NewFunc(named(func(int) {})); err != nil {
		t.Errorf("named func type: %v", err)
	}
}

func TestHuntConvertMarker(t *testing.T) {
	defer quiet()()
	type S struct {
		argmapper.Struct
		A int
		B []string `argmapper:",typeOnly"`
	}
	for _, T := range []reflect.Type{reflect.TypeOf(S{}), reflect.TypeOf(&S{})} {
		cv, err := argmapper.Convert(T, argmapper.Named("a", 1), argmapper.Typed([]string{"x"}))
		if err != nil {
			t.Errorf("%s: %v", T, err)
			continue
		}
		if reflect.TypeOf(cv) != T {
			t.Errorf("%s: got %T", T, cv)
		}
		rv := reflect.Indirect(reflect.ValueOf(cv))
		if rv.Field(1).Int() != 1 || rv.Field(2).Len() != 1 {
			t.Errorf("%s: got %#v", T, cv)
		}
		cv, err = argmapper.Convert(T, argmapper.Named("a", 1))
		if err == nil || cv != nil {
			t.Errorf("%s: expected failure: %v", T, cv)
		}
	}
	type E struct{ argmapper.Struct }
	cv, err := argmapper.Convert(reflect.TypeOf(E{}))
	if err != nil || reflect.TypeOf(cv) != reflect.TypeOf(E{}) {
		t.Errorf("E: %v %v", cv, err)
	}
	cv, err = argmapper.Convert(reflect.TypeOf(new(*S)), argmapper.Named("a", 1), argmapper.Typed([]string{"x"}))
	if err == nil || cv != nil {
		t.Errorf("**S: %v %v", cv, err)
	}
}
