//go:build go1.18

package argmapper_test

import (
	"fmt"
	"math/rand"
	"reflect"
	"testing"

	"github.com/hashicorp/go-argmapper"
)

type rIA interface{ A() }
type rIB interface{ B() }
type rIAB interface {
	rIA
	rIB
}
type rIABC interface {
	rIAB
	C()
}
type rIA2 interface{ A() } // same method set as rIA, different type

type rC0 struct{ ID int }
type rC1 struct{ ID int }
type rC2 struct{ ID int }
type rC3 struct{ ID int }
type rC4 struct{ ID int }
type rC5 struct{ ID int }
type rC6 []int // slice-kinded with methods

func (rC1) A()  {}
func (rC2) B()  {}
func (rC3) A()  {}
func (rC3) B()  {}
func (rC4) A()  {}
func (rC4) B()  {}
func (rC4) C()  {}
func (*rC5) A() {}
func (*rC5) B() {}
func (rC6) A()  {}
func (rC6) C()  {}
func (rC6) B()  {}

var rConcrete = []reflect.Type{
	typeOf[rC0](), typeOf[rC1](), typeOf[rC2](), typeOf[rC3](), typeOf[rC4](), typeOf[rC5](), typeOf[*rC5](), typeOf[rC6](),
	typeOf[*rC1](), // pointer to value-receiver type also implements
}
var rIfaces = []reflect.Type{typeOf[rIA](), typeOf[rIB](), typeOf[rIAB](), typeOf[rIABC](), typeOf[rIA2](), typeOf[interface{}]()}

func rMake(T reflect.Type, id int) reflect.Value {
	switch T {
	case typeOf[rC6]():
		return reflect.ValueOf(rC6{id})
	case typeOf[*rC5]():
		return reflect.ValueOf(&rC5{id})
	case typeOf[*rC1]():
		return reflect.ValueOf(&rC1{id})
	}
	v := reflect.New(T).Elem()
	v.Field(0).SetInt(int64(id))
	return v
}

func rID(v reflect.Value) int {
	for v.Kind() == reflect.Interface || v.Kind() == reflect.Ptr {
		v = v.Elem()
	}
	if v.Kind() == reflect.Slice {
		return int(v.Index(0).Int())
	}
	return int(v.Field(0).Int())
}

func rSatisfies(have, want reflect.Type) bool {
	if have == want {
		return true
	}
	return want.Kind() == reflect.Interface && have.Implements(want)
}

type rConv struct {
	in, out reflect.Type
	impl    reflect.Type // concrete type produced when out is an interface
}

func TestHuntRandomIfaceResolution(t *testing.T) {
	defer quiet()()
	all := append(append([]reflect.Type{}, rConcrete...), rIfaces...)
	for seed := int64(0); seed < 4000; seed++ {
		rng := rand.New(rand.NewSource(seed))
		nextID := 1
		live := map[int]bool{}

		// inputs: typed concrete values
		var args []argmapper.Arg
		avail := map[reflect.Type]bool{} // static types available (typed outputs)
		for i, n := 0, rng.Intn(3); i < n; i++ {
			T := rConcrete[rng.Intn(len(rConcrete))]
			if avail[T] {
				continue
			}
			avail[T] = true
			v := rMake(T, nextID)
			live[nextID] = true
			nextID++
			args = append(args, argmapper.Typed(v.Interface()))
		}

		// converters: single input (or zero), distinct (in,out)
		var convs []rConv
		seen := map[[2]reflect.Type]bool{}
		for i, n := 0, rng.Intn(6); i < n; i++ {
			var in reflect.Type
			if rng.Intn(5) > 0 {
				in = all[rng.Intn(len(all))]
			}
			out := all[rng.Intn(len(all))]
			if in == out || seen[[2]reflect.Type{in, out}] {
				continue
			}
			seen[[2]reflect.Type{in, out}] = true
			c := rConv{in: in, out: out}
			if out.Kind() == reflect.Interface {
				var impls []reflect.Type
				for _, ct := range rConcrete {
					if ct.Implements(out) {
						impls = append(impls, ct)
					}
				}
				c.impl = impls[rng.Intn(len(impls))]
			} else {
				c.impl = out
			}
			convs = append(convs, c)
		}

		var violation string
		ranTarget := false
		for _, c := range convs {
			c := c
			var ins []reflect.Type
			if c.in != nil {
				ins = []reflect.Type{c.in}
			}
			fn := reflect.MakeFunc(reflect.FuncOf(ins, []reflect.Type{c.out}, false), func(a []reflect.Value) []reflect.Value {
				if ranTarget {
					violation = "converter after target"
				}
				if c.in != nil {
					v := a[0]
					if v.Kind() == reflect.Interface && v.IsNil() {
						violation = fmt.Sprintf("conv %v->%v got nil", c.in, c.out)
					} else if !live[rID(v)] {
						violation = fmt.Sprintf("conv %v->%v got fabricated id %d", c.in, c.out, rID(v))
					}
				}
				nv := rMake(c.impl, nextID)
				live[nextID] = true
				nextID++
				rv := reflect.New(c.out).Elem()
				rv.Set(nv)
				return []reflect.Value{rv}
			})
			args = append(args, argmapper.Converter(fn.Interface()))
		}

		// model: closure of available static types
		satisfiable := func(want reflect.Type) bool {
			for have := range avail {
				if rSatisfies(have, want) {
					return true
				}
			}
			return false
		}
		for changed := true; changed; {
			changed = false
			for _, c := range convs {
				if avail[c.out] {
					continue
				}
				if c.in == nil || satisfiable(c.in) {
					avail[c.out] = true
					changed = true
				}
			}
		}

		// target
		np := 1 + rng.Intn(2)
		var params []reflect.Type
		for i := 0; i < np; i++ {
			params = append(params, all[rng.Intn(len(all))])
		}
		want := true
		for _, p := range params {
			if !satisfiable(p) {
				want = false
			}
		}
		target := reflect.MakeFunc(reflect.FuncOf(params, nil, false), func(a []reflect.Value) []reflect.Value {
			ranTarget = true
			for i, v := range a {
				if v.Kind() == reflect.Interface && v.IsNil() {
					violation = fmt.Sprintf("target param %d nil", i)
				} else if !live[rID(v)] {
					violation = fmt.Sprintf("target param %d fabricated", i)
				}
			}
			return nil
		})
		f, err := argmapper.NewFunc(target.Interface())
		if err != nil {
			t.Fatal(err)
		}
		var r argmapper.Result
		func() {
			defer func() {
				if p := recover(); p != nil {
					violation = fmt.Sprintf("PANIC %v", p)
				}
			}()
			r = f.Call(args...)
		}()
		desc := func() string {
			s := fmt.Sprintf("seed %d params %v avail-inputs ", seed, params)
			for _, c := range convs {
				s += fmt.Sprintf(" conv(%v->%v)", c.in, c.out)
			}
			return s
		}
		if violation != "" {
			t.Errorf("%s: %s", desc(), violation)
			continue
		}
		if want && r.Err() != nil {
			t.Errorf("%s: derivable but failed: %s", desc(), firstLine(r.Err())[:80])
		}
		if !want && (r.Err() == nil || ranTarget) {
			t.Errorf("%s: underivable but ran=%v err=%v", desc(), ranTarget, r.Err())
		}
		if !want && !unsat(r.Err()) {
			t.Errorf("%s: underivable, wrong error type %T", desc(), r.Err())
		}
		if want && !ranTarget {
			t.Errorf("%s: target not run", desc())
		}
	}
}
