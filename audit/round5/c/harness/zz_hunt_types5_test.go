//go:build go1.18

package argmapper_test

import (
	"fmt"
	"reflect"
	"testing"

	"github.com/hashicorp/go-argmapper"
)

// C07 over odd types: name affinity.
func TestHuntAffinityOddTypes(t *testing.T) {
	defer quiet()()
	type stringer interface{ String() string }
	type tgt struct {
		argmapper.Struct
		X hSink
	}
	for _, sp := range specimens() {
		T := sp.typ
		if T.Kind() == reflect.Interface {
			continue
		}
		for round := 0; round < 5; round++ {
			v1 := reflect.ValueOf(sp.val)
			// two named values of type T: x and y; must convert x
			var gotNamed string
			// type-only converter: func(T) hSink; we can't tell which value by content for
			// all types, so use wrapper struct types around: instead use two values with
			// distinguishable identity only where possible: use converter taking named.
			convTyped := reflect.MakeFunc(reflect.FuncOf([]reflect.Type{T}, []reflect.Type{reflect.TypeOf(hSink{})}, false),
				func(a []reflect.Value) []reflect.Value {
					gotNamed = "typed"
					return []reflect.Value{reflect.ValueOf(hSink{true})}
				}).Interface()
			ins, _ := argmapper.NewValueSet([]argmapper.Value{{Name: "x", Type: T}})
			outs, _ := argmapper.NewValueSet([]argmapper.Value{{Type: reflect.TypeOf(hSink{})}})
			convNamed, err := argmapper.BuildFunc(ins, outs, func(in, out *argmapper.ValueSet) error {
				gotNamed = "named"
				out.Typed(reflect.TypeOf(hSink{})).Value = reflect.ValueOf(hSink{true})
				return nil
			})
			if err != nil {
				t.Fatal(err)
			}
			f, _ := argmapper.NewFunc(func(in tgt) bool { return in.X.ok })
			r := f.Call(argmapper.Named("x", v1.Interface()), argmapper.Named("y", v1.Interface()),
				argmapper.Converter(convTyped), argmapper.ConverterFunc(convNamed))
			if r.Err() != nil {
				t.Errorf("%s: %v", sp.name, firstLine(r.Err()))
				continue
			}
			if gotNamed != "named" {
				t.Errorf("%s: executed %s converter", sp.name, gotNamed)
			}
		}
	}

	// which value is converted: use slices with distinguishable content
	type tgt2 struct {
		argmapper.Struct
		X string
	}
	f, _ := argmapper.NewFunc(func(in tgt2) string { return in.X })
	for i := 0; i < 50; i++ {
		r := f.Call(
			argmapper.Named("y", []int{2}), argmapper.Named("x", []int{1}), argmapper.Named("z", []int{3}),
			argmapper.Converter(func(s []int) string { return fmt.Sprint(s) }))
		if r.Err() != nil || r.Out(0) != "[1]" {
			t.Fatalf("slice affinity: %v %v", r.Out(0), r.Err())
		}
		r = f.Call(
			argmapper.Named("y", map[string]func(){"y": nil}), argmapper.Named("x", map[string]func(){"x": nil}),
			argmapper.Converter(func(s map[string]func()) string {
				for k := range s {
					return k
				}
				return ""
			}))
		if r.Err() != nil || r.Out(0) != "x" {
			t.Fatalf("map affinity: %v %v", r.Out(0), r.Err())
		}
		// interface typed named values through Value.Arg
		st := reflect.TypeOf((*stringer)(nil)).Elem()
		vx := argmapper.Value{Name: "x", Type: st, Value: reflect.ValueOf(hStr1{"vx"})}
		vy := argmapper.Value{Name: "y", Type: st, Value: reflect.ValueOf(hStr1{"vy"})}
		r = f.Call(vy.Arg(), vx.Arg(), argmapper.Converter(func(s stringer) string { return s.String() }))
		if r.Err() != nil || r.Out(0) != "vx" {
			t.Fatalf("iface affinity: %v %v", r.Out(0), firstLine(r.Err()))
		}
	}
}

func TestHuntManyParams(t *testing.T) {
	defer quiet()()
	// 150 distinct array types as params, 100 results
	var ins, outs []reflect.Type
	var args []argmapper.Arg
	for i := 1; i <= 150; i++ {
		T := reflect.ArrayOf(i, reflect.TypeOf(byte(0)))
		ins = append(ins, T)
		args = append(args, argmapper.Typed(reflect.Zero(T).Interface()))
	}
	for i := 1; i <= 100; i++ {
		outs = append(outs, reflect.ArrayOf(i, reflect.TypeOf(int8(0))))
	}
	// reflect.FuncOf is limited to 128: build smaller
	ft := reflect.FuncOf(ins[:100], outs[:27], false)
	fn := reflect.MakeFunc(ft, func(a []reflect.Value) []reflect.Value {
		var r []reflect.Value
		for _, o := range outs[:27] {
			r = append(r, reflect.Zero(o))
		}
		return r
	})
	f, err := argmapper.NewFunc(fn.Interface())
	if err != nil {
		t.Fatal(err)
	}
	safely(t, "call", func() {
		r := f.Call(args...)
		if r.Err() != nil || r.Len() != 27 {
			t.Errorf("many: %v", firstLine(r.Err()))
		}
	})
	safely(t, "redefine", func() {
		rf, err := f.Redefine(args[:50]...)
		if err != nil {
			t.Errorf("redefine: %v", err)
			return
		}
		if n := len(rf.Input().Values()); n != 50 {
			t.Errorf("redefine inputs: %d", n)
		}
		r := rf.Call(args[50:]...)
		if r.Err() != nil || r.Len() != 27 {
			t.Errorf("redefined call: %v", firstLine(r.Err()))
		}
	})
}
