//go:build go1.18

package argmapper_test

import (
	"fmt"
	"math/rand"
	"reflect"
	"testing"

	"github.com/hashicorp/go-argmapper"
)

// Like TestHuntRandomIfaceResolution but with named inputs and named target
// parameters. The model encodes the library's *actual* table including the
// gap found (named impl does not feed type-only iface); any other mismatch
// is new.
func TestHuntRandomIfaceNamed(t *testing.T) {
	defer quiet()()
	all := append(append([]reflect.Type{}, rConcrete...), rIfaces...)
	names := []string{"x", "y"}
	for seed := int64(0); seed < 6000; seed++ {
		rng := rand.New(rand.NewSource(seed))
		nextID := 1
		live := map[int]bool{}
		var args []argmapper.Arg
		avail := map[reflect.Type]bool{}
		type nk struct {
			n string
			t reflect.Type
		}
		named := map[string]reflect.Type{} // one type per name (Named key is the name)
		namedID := map[string]int{}
		for i, n := 0, rng.Intn(3); i < n; i++ {
			T := rConcrete[rng.Intn(len(rConcrete))]
			if avail[T] {
				continue
			}
			avail[T] = true
			v := rMake(T, nextID)
			live[nextID] = true
			nextID++
			args = append(args, argmapper.Typed(v.Interface()))
		}
		for i, n := 0, rng.Intn(3); i < n; i++ {
			T := rConcrete[rng.Intn(len(rConcrete))]
			nm := names[rng.Intn(len(names))]
			if _, ok := named[nm]; ok {
				continue
			}
			named[nm] = T
			v := rMake(T, nextID)
			namedID[nm] = nextID
			live[nextID] = true
			nextID++
			args = append(args, argmapper.Named(nm, v.Interface()))
		}

		var convs []rConv
		seen := map[[2]reflect.Type]bool{}
		for i, n := 0, rng.Intn(5); i < n; i++ {
			var in reflect.Type
			if rng.Intn(5) > 0 {
				in = all[rng.Intn(len(all))]
			}
			out := all[rng.Intn(len(all))]
			if in == out || seen[[2]reflect.Type{in, out}] {
				continue
			}
			seen[[2]reflect.Type{in, out}] = true
			c := rConv{in: in, out: out}
			if out.Kind() == reflect.Interface {
				var impls []reflect.Type
				for _, ct := range rConcrete {
					if ct.Implements(out) {
						impls = append(impls, ct)
					}
				}
				c.impl = impls[rng.Intn(len(impls))]
			} else {
				c.impl = out
			}
			convs = append(convs, c)
		}

		var violation string
		ranTarget := false
		nconv := 0
		for _, c := range convs {
			c := c
			var ins []reflect.Type
			if c.in != nil {
				ins = []reflect.Type{c.in}
			}
			fn := reflect.MakeFunc(reflect.FuncOf(ins, []reflect.Type{c.out}, false), func(a []reflect.Value) []reflect.Value {
				nconv++
				if c.in != nil {
					v := a[0]
					if v.Kind() == reflect.Interface && v.IsNil() {
						violation = fmt.Sprintf("conv %v->%v got nil", c.in, c.out)
					} else if !live[rID(v)] {
						violation = fmt.Sprintf("conv %v->%v got fabricated id %d", c.in, c.out, rID(v))
					}
				}
				nv := rMake(c.impl, nextID)
				live[nextID] = true
				nextID++
				rv := reflect.New(c.out).Elem()
				rv.Set(nv)
				return []reflect.Value{rv}
			})
			args = append(args, argmapper.Converter(fn.Interface()))
		}

		typedSat := func(want reflect.Type) bool { // type-only requirement
			for have := range avail {
				if rSatisfies(have, want) {
					return true
				}
			}
			for _, have := range named {
				if have == want { // actual library behaviour: exact only
					return true
				}
			}
			return false
		}
		for changed := true; changed; {
			changed = false
			for _, c := range convs {
				if avail[c.out] {
					continue
				}
				if c.in == nil || typedSat(c.in) {
					avail[c.out] = true
					changed = true
				}
			}
		}
		namedSat := func(n string, want reflect.Type) bool {
			if named[n] == want {
				return true
			}
			for have := range avail {
				if rSatisfies(have, want) {
					return true
				}
			}
			return false
		}

		// target: BuildFunc with mix of named and typed params
		np := 1 + rng.Intn(2)
		var pvals []argmapper.Value
		usedN := map[string]bool{}
		usedT := map[reflect.Type]bool{}
		want := true
		exact := true
		for i := 0; i < np; i++ {
			T := all[rng.Intn(len(all))]
			if rng.Intn(2) == 0 {
				nm := names[rng.Intn(len(names))]
				if usedN[nm] {
					continue
				}
				usedN[nm] = true
				pvals = append(pvals, argmapper.Value{Name: nm, Type: T})
				if !namedSat(nm, T) {
					want = false
				}
				if named[nm] != T {
					exact = false
				}
			} else {
				if usedT[T] {
					continue
				}
				usedT[T] = true
				pvals = append(pvals, argmapper.Value{Type: T})
				if !typedSat(T) {
					want = false
				}
				exact = false // typed inputs only tracked loosely
			}
		}
		if len(pvals) == 0 {
			continue
		}
		ins, err := argmapper.NewValueSet(pvals)
		if err != nil {
			t.Fatal(err)
		}
		f, err := argmapper.BuildFunc(ins, nil, func(in, out *argmapper.ValueSet) error {
			ranTarget = true
			for _, v := range in.Values() {
				if v.Value.Kind() == reflect.Interface && v.Value.IsNil() {
					violation = fmt.Sprintf("target param %s nil", v.String())
				} else if !live[rID(v.Value)] {
					violation = fmt.Sprintf("target param %s fabricated", v.String())
				} else if v.Name != "" && named[v.Name] == v.Type && rID(v.Value) != namedID[v.Name] {
					violation = fmt.Sprintf("target param %s: exact named value not used", v.String())
				}
			}
			return nil
		})
		if err != nil {
			t.Fatal(err)
		}
		var r argmapper.Result
		func() {
			defer func() {
				if p := recover(); p != nil {
					violation = fmt.Sprintf("PANIC %v", p)
				}
			}()
			rf, rerr := f.Redefine(args...)
			if nconv != 0 || ranTarget {
				violation = "Redefine ran user code"
			}
			if want && rerr != nil {
				violation = fmt.Sprintf("Redefine failed though callable: %.100s", firstLine(rerr))
			}
			if rerr == nil && want {
				// everything derivable: calling with values for declared inputs must work
				var extra []argmapper.Arg
				for _, iv := range rf.Input().Values() {
					var impl reflect.Type
					for _, ct := range rConcrete {
						if rSatisfies(ct, iv.Type) {
							impl = ct
							break
						}
					}
					val := reflect.New(iv.Type).Elem()
					val.Set(rMake(impl, nextID))
					live[nextID] = true
					nextID++
					iv.Value = val
					extra = append(extra, iv.Arg())
				}
				rr := rf.Call(extra...)
				if rr.Err() != nil {
					violation = fmt.Sprintf("redefined call failed: inputs=%v %.100s", rf.Input().Values(), firstLine(rr.Err()))
				}
				ranTarget = false
				nconv = 0
			}
			r = f.Call(args...)
		}()
		desc := func() string {
			s := fmt.Sprintf("seed %d params %v named %v typed %v", seed, ins.Values(), named, avail)
			for _, c := range convs {
				s += fmt.Sprintf(" conv(%v->%v)", c.in, c.out)
			}
			return s
		}
		if violation != "" {
			t.Errorf("%s: %s", desc(), violation)
			continue
		}
		if exact && nconv > 0 && r.Err() == nil {
			t.Errorf("%s: exact named matches but %d converters ran", desc(), nconv)
		}
		if want && r.Err() != nil {
			t.Errorf("%s: derivable but failed: %.80s", desc(), firstLine(r.Err()))
		}
		if !want && (r.Err() == nil || ranTarget) {
			t.Errorf("%s: underivable but ran=%v err=%v", desc(), ranTarget, r.Err())
		}
		if !want && r.Err() != nil && !unsat(r.Err()) {
			t.Errorf("%s: underivable, wrong error type %T", desc(), r.Err())
		}
	}
}
