//go:build go1.18

package argmapper_test

import (
	"fmt"
	"math/rand"
	"reflect"
	"testing"

	"github.com/hashicorp/go-argmapper"
)

type rConvN struct {
	ins  []reflect.Type
	out  reflect.Type
	impl reflect.Type
}

// C05(b): acyclic multi-input converter sets over interface types, each
// converter satisfiable.
func TestHuntRandomIfaceAcyclicMulti(t *testing.T) {
	defer quiet()()
	all := append(append([]reflect.Type{}, rConcrete...), rIfaces...)
	tested := 0
	for seed := int64(0); seed < 20000; seed++ {
		rng := rand.New(rand.NewSource(seed))
		nextID := 1
		live := map[int]bool{}
		var args []argmapper.Arg
		avail := map[reflect.Type]bool{}
		for i, n := 0, 1+rng.Intn(2); i < n; i++ {
			T := rConcrete[rng.Intn(len(rConcrete))]
			if avail[T] {
				continue
			}
			avail[T] = true
			v := rMake(T, nextID)
			live[nextID] = true
			nextID++
			args = append(args, argmapper.Typed(v.Interface()))
		}
		satisfiable := func(want reflect.Type) bool {
			for have := range avail {
				if rSatisfies(have, want) {
					return true
				}
			}
			return false
		}
		// build converters in order; each must be satisfiable from what is
		// available before it, and its output must not be able to feed itself
		// or any earlier converter, nor be already available (so that the
		// dependency relation is acyclic and outputs are unique).
		var convs []rConvN
		ftypes := map[reflect.Type]bool{}
		ok := true
		for i, n := 0, rng.Intn(5); i < n; i++ {
			c := rConvN{}
			for j, m := 0, rng.Intn(3); j < m; j++ {
				in := all[rng.Intn(len(all))]
				dup := false
				for _, x := range c.ins {
					if x == in {
						dup = true
					}
				}
				if !dup {
					c.ins = append(c.ins, in)
				}
			}
			c.out = all[rng.Intn(len(all))]
			if avail[c.out] {
				continue
			}
			bad := false
			for _, in := range c.ins {
				if !satisfiable(in) {
					bad = true
				}
			}
			// output must not feed own or earlier converters' inputs
			feeds := func(out reflect.Type, cc rConvN) bool {
				for _, in := range cc.ins {
					if rSatisfies(out, in) {
						return true
					}
				}
				return false
			}
			if feeds(c.out, c) {
				bad = true
			}
			for _, e := range convs {
				if feeds(c.out, e) {
					bad = true
				}
			}
			ft := reflect.FuncOf(c.ins, []reflect.Type{c.out}, false)
			if bad || ftypes[ft] {
				continue
			}
			ftypes[ft] = true
			if c.out.Kind() == reflect.Interface {
				var impls []reflect.Type
				for _, ct := range rConcrete {
					if ct.Implements(c.out) {
						impls = append(impls, ct)
					}
				}
				c.impl = impls[rng.Intn(len(impls))]
			} else {
				c.impl = c.out
			}
			// NOTE: an interface-typed output holding impl does not make impl's
			// static type available.
			avail[c.out] = true
			convs = append(convs, c)
		}
		if !ok {
			continue
		}
		var violation string
		ranTarget := false
		for _, c := range convs {
			c := c
			fn := reflect.MakeFunc(reflect.FuncOf(c.ins, []reflect.Type{c.out}, false), func(a []reflect.Value) []reflect.Value {
				for _, v := range a {
					if v.Kind() == reflect.Interface && v.IsNil() {
						violation = fmt.Sprintf("conv %v->%v got nil", c.ins, c.out)
					} else if !live[rID(v)] {
						violation = fmt.Sprintf("conv %v->%v got fabricated id %d", c.ins, c.out, rID(v))
					}
				}
				nv := rMake(c.impl, nextID)
				live[nextID] = true
				nextID++
				rv := reflect.New(c.out).Elem()
				rv.Set(nv)
				return []reflect.Value{rv}
			})
			args = append(args, argmapper.Converter(fn.Interface()))
		}
		rng.Shuffle(len(args), func(i, j int) { args[i], args[j] = args[j], args[i] })

		np := 1 + rng.Intn(3)
		var params []reflect.Type
		want := true
		for i := 0; i < np; i++ {
			p := all[rng.Intn(len(all))]
			params = append(params, p)
			if !satisfiable(p) {
				want = false
			}
		}
		tested++
		target := reflect.MakeFunc(reflect.FuncOf(params, nil, false), func(a []reflect.Value) []reflect.Value {
			ranTarget = true
			for i, v := range a {
				if v.Kind() == reflect.Interface && v.IsNil() {
					violation = fmt.Sprintf("target param %d nil", i)
				} else if !live[rID(v)] {
					violation = fmt.Sprintf("target param %d fabricated", i)
				}
			}
			return nil
		})
		f, err := argmapper.NewFunc(target.Interface())
		if err != nil {
			t.Fatal(err)
		}
		var r argmapper.Result
		func() {
			defer func() {
				if p := recover(); p != nil {
					violation = fmt.Sprintf("PANIC %v", p)
				}
			}()
			r = f.Call(args...)
		}()
		desc := func() string {
			s := fmt.Sprintf("seed %d params %v", seed, params)
			for _, c := range convs {
				s += fmt.Sprintf(" conv(%v->%v)", c.ins, c.out)
			}
			return s
		}
		if violation != "" {
			t.Errorf("%s: %s", desc(), violation)
			continue
		}
		if want && r.Err() != nil {
			t.Errorf("%s: derivable but failed: %.200s", desc(), firstLine(r.Err()))
		}
		if !want && (r.Err() == nil || ranTarget) {
			t.Errorf("%s: underivable but ran=%v err=%v", desc(), ranTarget, r.Err())
		}
		if !want && !unsat(r.Err()) {
			t.Errorf("%s: underivable, wrong error type %T", desc(), r.Err())
		}
	}
	t.Logf("tested %d", tested)
}
