//go:build go1.18

package argmapper_test

import (
	"errors"
	"fmt"
	htmpl "html/template"
	"io"
	"os"
	"reflect"
	"strings"
	"testing"
	ttmpl "text/template"
	"unsafe"

	"github.com/hashicorp/go-argmapper"
	"github.com/hashicorp/go-hclog"
)

type hMySlice []int
type hMyMap map[string]int
type hMyFunc func(int) string
type hMyChan chan int
type hBox[T any] struct{ V T }
type hPair[A, B any] struct {
	A A
	B B
}
type hInner struct{ X int }
type hOdd struct {
	hInner
	Exported int
	hidden   string
	_        int
}
type hNonComparable struct {
	I interface{}
	S []int
	F func()
}
type hZero struct{}
type hBig struct{ A [1 << 20]byte }
type hNode struct {
	Next *hNode
	V    int
}
type hRecSlice []hRecSlice
type hRecFunc func() hRecFunc
type hRecPtr *hRecPtr
type hRecMap map[string]hRecMap
type hErrVal struct{ msg string }

func (e hErrVal) Error() string { return e.msg }

type hRW interface {
	io.Reader
	io.Writer
}
type hRWC interface {
	hRW
	io.Closer
}
type hrwc struct{ strings.Builder }

func (*hrwc) Read(p []byte) (int, error) { return 0, io.EOF }
func (*hrwc) Close() error               { return nil }

type hGenIface[T any] interface{ Get() T }
type hGenImpl struct{}

func (hGenImpl) Get() int { return 1 }

type specimen struct {
	name string
	typ  reflect.Type // declared type (may be interface)
	val  interface{}  // value supplied
}

func typeOf[T any]() reflect.Type { return reflect.TypeOf((*T)(nil)).Elem() }

func specimens() []specimen {
	one := 1
	pone := &one
	var rp hRecPtr
	rp = hRecPtr(&rp)
	node := &hNode{V: 1}
	node.Next = node
	var rf hRecFunc
	rf = func() hRecFunc { return rf }
	ch := make(chan int, 1)
	s := []specimen{
		{"array", typeOf[[3]int](), [3]int{1, 2, 3}},
		{"array0", typeOf[[0]int](), [0]int{}},
		{"slice", typeOf[[]int](), []int{1, 2}},
		{"nilslice", typeOf[[]string](), []string(nil)},
		{"named slice", typeOf[hMySlice](), hMySlice{1}},
		{"map", typeOf[map[string]int](), map[string]int{"a": 1}},
		{"nilmap", typeOf[map[int]int](), map[int]int(nil)},
		{"named map", typeOf[hMyMap](), hMyMap{"a": 1}},
		{"map arr key", typeOf[map[[2]string]struct{}](), map[[2]string]struct{}{{"a", "b"}: {}}},
		{"map iface key", typeOf[map[interface{}]int](), map[interface{}]int{1: 1}},
		{"chan", typeOf[chan int](), ch},
		{"recv chan", typeOf[<-chan int](), (<-chan int)(ch)},
		{"send chan", typeOf[chan<- int](), (chan<- int)(ch)},
		{"named chan", typeOf[hMyChan](), hMyChan(ch)},
		{"func", typeOf[func()](), func() {}},
		{"func2", typeOf[func(int) string](), func(int) string { return "" }},
		{"named func", typeOf[hMyFunc](), hMyFunc(func(int) string { return "" })},
		{"nil func", typeOf[func(string)](), (func(string))(nil)},
		{"ptrptr", typeOf[**int](), &pone},
		{"ptrptrptr", typeOf[***int](), func() ***int { p := &pone; return &p }()},
		{"nil ptr", typeOf[*string](), (*string)(nil)},
		{"box int", typeOf[hBox[int]](), hBox[int]{1}},
		{"box string", typeOf[hBox[string]](), hBox[string]{"x"}},
		{"box box", typeOf[hBox[hBox[int]]](), hBox[hBox[int]]{}},
		{"pair", typeOf[hPair[int, string]](), hPair[int, string]{1, "a"}},
		{"pair2", typeOf[hPair[string, int]](), hPair[string, int]{"a", 1}},
		{"odd struct", typeOf[hOdd](), hOdd{hInner{1}, 2, "h", 0}},
		{"anon struct", typeOf[struct {
			A int
			b string
		}](), struct {
			A int
			b string
		}{1, "x"}},
		{"noncomparable", typeOf[hNonComparable](), hNonComparable{I: []int{1}, S: []int{1}}},
		{"iface w/ unhashable", typeOf[interface{}](), []int{1}},
		{"empty iface int", typeOf[interface{}](), 7},
		{"zero struct", typeOf[struct{}](), struct{}{}},
		{"named zero", typeOf[hZero](), hZero{}},
		{"ptr zero", typeOf[*hZero](), &hZero{}},
		{"big", typeOf[hBig](), hBig{}},
		{"ptr big", typeOf[*hBig](), &hBig{}},
		{"node", typeOf[*hNode](), node},
		{"rec slice", typeOf[hRecSlice](), hRecSlice{hRecSlice{}}},
		{"rec func", typeOf[hRecFunc](), rf},
		{"rec ptr", typeOf[hRecPtr](), rp},
		{"rec map", typeOf[hRecMap](), hRecMap{"a": nil}},
		{"unsafe ptr", typeOf[unsafe.Pointer](), unsafe.Pointer(pone)},
		{"uintptr", typeOf[uintptr](), uintptr(5)},
		{"error iface", typeOf[error](), errors.New("boom")},
		{"error iface val", typeOf[error](), hErrVal{"x"}},
		{"error concrete", typeOf[hErrVal](), hErrVal{"x"}},
		{"rwc iface", typeOf[hRWC](), &hrwc{}},
		{"rw iface", typeOf[hRW](), &hrwc{}},
		{"reader iface", typeOf[io.Reader](), &hrwc{}},
		{"anon iface", typeOf[interface{ Close() error }](), &hrwc{}},
		{"generic iface", typeOf[hGenIface[int]](), hGenImpl{}},
		{"text tmpl", typeOf[*ttmpl.Template](), ttmpl.New("a")},
		{"html tmpl", typeOf[*htmpl.Template](), htmpl.New("a")},
		{"text tmpl val", typeOf[ttmpl.Template](), *ttmpl.New("a")},
		{"html tmpl val", typeOf[htmpl.Template](), *htmpl.New("a")},
		{"reflect.Type", typeOf[reflect.Type](), reflect.TypeOf(1)},
		{"reflect.Value", typeOf[reflect.Value](), reflect.ValueOf(1)},
		{"complex", typeOf[complex128](), complex(1, 2)},
		{"arr of iface", typeOf[[2]interface{}](), [2]interface{}{[]int{1}, nil}},
	}
	return s
}

// same reports whether got is "the same" as want without panicking for
// incomparable values.
func same(got, want interface{}) (ok bool) {
	gv, wv := reflect.ValueOf(got), reflect.ValueOf(want)
	if gv.IsValid() != wv.IsValid() {
		return false
	}
	if !gv.IsValid() {
		return true
	}
	if gv.Type() != wv.Type() {
		return false
	}
	switch gv.Kind() {
	case reflect.Func:
		return gv.Pointer() == wv.Pointer()
	case reflect.Chan, reflect.Map, reflect.Ptr, reflect.UnsafePointer, reflect.Slice:
		if gv.Kind() == reflect.Slice {
			return gv.Len() == wv.Len() && (gv.Len() == 0 || gv.Pointer() == wv.Pointer())
		}
		return gv.Pointer() == wv.Pointer()
	}
	defer func() {
		if r := recover(); r != nil {
			ok = fmt.Sprintf("%#v", got) == fmt.Sprintf("%#v", want)
		}
	}()
	if gv.Type().Kind() == reflect.Struct && gv.Type().Size() > 1<<16 {
		return true
	}
	if gv.Comparable() {
		return got == want
	}
	return fmt.Sprintf("%#v", got) == fmt.Sprintf("%#v", want)
}

func safely(t *testing.T, what string, f func()) {
	t.Helper()
	defer func() {
		if r := recover(); r != nil {
			t.Errorf("%s: PANIC: %v", what, r)
		}
	}()
	f()
}

func identityFunc(T reflect.Type, calls *int) interface{} {
	return reflect.MakeFunc(reflect.FuncOf([]reflect.Type{T}, []reflect.Type{T}, false),
		func(a []reflect.Value) []reflect.Value { *calls++; return a }).Interface()
}

type hSeed struct{ n int }
type hSink struct{ ok bool }

func TestHuntTypes(t *testing.T) {
	if os.Getenv("HUNT_TRACE") == "" {
		hclog.L().SetLevel(hclog.Info)
		defer hclog.L().SetLevel(hclog.Trace)
	}
	for _, sp := range specimens() {
		sp := sp
		t.Run(sp.name, func(t *testing.T) {
			T := sp.typ
			// 1. NewFunc + introspection
			var calls int
			f, err := argmapper.NewFunc(identityFunc(T, &calls))
			if err != nil {
				t.Fatalf("NewFunc: %v", err)
			}
			in := f.Input().Values()
			if len(in) != 1 || in[0].Type != T || in[0].Name != "" || in[0].Subtype != "" {
				t.Errorf("Input: %#v", in)
			}
			out := f.Output().Values()
			if T == typeOf[error]() {
				if len(out) != 0 {
					t.Errorf("Output for error: %#v", out)
				}
			} else if len(out) != 1 || out[0].Type != T || out[0].Name != "" {
				t.Errorf("Output: %#v", out)
			}

			// 2. direct typed call
			safely(t, "Call typed", func() {
				calls = 0
				r := f.Call(argmapper.Typed(sp.val))
				if T == typeOf[error]() {
					if calls != 1 || !same(r.Err(), sp.val) {
						t.Errorf("Call typed (error): calls=%d err=%v", calls, r.Err())
					}
					return
				}
				if r.Err() != nil {
					t.Errorf("Call typed: %v", r.Err())
					return
				}
				if calls != 1 || r.Len() != 1 || !same(r.Out(0), sp.val) {
					t.Errorf("Call typed: calls=%d len=%d out=%v", calls, r.Len(), r.Out(0))
				}
			})

			// 3. named input to typed param
			safely(t, "Call named->typed", func() {
				calls = 0
				r := f.Call(argmapper.Named("x", sp.val))
				if T == typeOf[error]() {
					if calls != 1 {
						t.Errorf("Call named->typed (error): calls=%d err=%v", calls, r.Err())
					}
					return
				}
				if r.Err() != nil {
					t.Errorf("Call named->typed (T kind %s): %v", T.Kind(), firstLine(r.Err()))
					return
				}
				if calls != 1 || !same(r.Out(0), sp.val) {
					t.Errorf("Call named->typed: calls=%d out=%v", calls, r.Out(0))
				}
			})

			// 4. nothing given: unsatisfied error with message
			safely(t, "Call nothing", func() {
				calls = 0
				r := f.Call()
				var ue *argmapper.ErrArgumentUnsatisfied
				if !errors.As(r.Err(), &ue) || calls != 0 {
					t.Errorf("Call nothing: calls=%d err=%v", calls, r.Err())
					return
				}
				_ = ue.Error()
				if len(ue.Args) != 1 || ue.Args[0].Type != T {
					t.Errorf("Args=%v", ue.Args)
				}
			})

			// 5. named param via ValueSet-built function
			safely(t, "BuildFunc named", func() {
				ins, err := argmapper.NewValueSet([]argmapper.Value{{Name: "x", Type: T}})
				if err != nil {
					t.Errorf("NewValueSet: %v", err)
					return
				}
				outs, err := argmapper.NewValueSet([]argmapper.Value{{Name: "y", Type: reflect.TypeOf(hSink{})}})
				if err != nil {
					t.Errorf("NewValueSet: %v", err)
					return
				}
				var got interface{}
				n := 0
				bf, err := argmapper.BuildFunc(ins, outs, func(in, out *argmapper.ValueSet) error {
					n++
					got = in.Named("x").Value.Interface()
					out.Named("y").Value = reflect.ValueOf(hSink{true})
					return nil
				})
				if err != nil {
					t.Errorf("BuildFunc: %v", err)
					return
				}
				// only concrete-typed named values match a named param
				if T.Kind() != reflect.Interface {
					r := bf.Call(argmapper.Named("X", sp.val))
					if r.Err() != nil || n != 1 || !same(got, sp.val) {
						t.Errorf("named call: n=%d err=%v got=%v", n, r.Err(), got)
					}
				}
				n = 0
				r := bf.Call(argmapper.Typed(sp.val))
				if r.Err() != nil || n != 1 || !same(got, sp.val) {
					t.Errorf("named param<-typed: n=%d err=%v got=%v", n, firstLine(r.Err()), got)
				}
				// value with exact declared type via Value.Arg
				n = 0
				v := argmapper.Value{Name: "x", Type: T, Value: reflect.ValueOf(sp.val)}
				r = bf.Call(v.Arg())
				if r.Err() != nil || n != 1 || !same(got, sp.val) {
					t.Errorf("named param<-Value.Arg: n=%d err=%v got=%v", n, firstLine(r.Err()), got)
				}
			})

			// 6. converter producing T from a seed; converter consuming T
			safely(t, "converter chain", func() {
				seedT := reflect.TypeOf(hSeed{})
				sinkT := reflect.TypeOf(hSink{})
				var order []string
				mk := reflect.MakeFunc(reflect.FuncOf([]reflect.Type{seedT}, []reflect.Type{T}, false),
					func(a []reflect.Value) []reflect.Value {
						order = append(order, "mk")
						rv := reflect.New(T).Elem()
						rv.Set(reflect.ValueOf(sp.val))
						return []reflect.Value{rv}
					}).Interface()
				var consumed interface{}
				use := reflect.MakeFunc(reflect.FuncOf([]reflect.Type{T}, []reflect.Type{sinkT}, false),
					func(a []reflect.Value) []reflect.Value {
						order = append(order, "use")
						consumed = a[0].Interface()
						return []reflect.Value{reflect.ValueOf(hSink{true})}
					}).Interface()
				if T == typeOf[error]() {
					// func(seed) error is an error-only converter, not a producer
					return
				}
				target, err := argmapper.NewFunc(func(s hSink) bool { order = append(order, "target"); return s.ok })
				if err != nil {
					t.Fatal(err)
				}
				r := target.Call(argmapper.Typed(hSeed{1}), argmapper.Converter(mk, use))
				if r.Err() != nil {
					t.Errorf("chain: %v", firstLine(r.Err()))
					return
				}
				if strings.Join(order, ",") != "mk,use,target" || !same(consumed, sp.val) || r.Out(0) != true {
					t.Errorf("chain: order=%v consumed=%v", order, consumed)
				}

				// Convert via converter
				order = nil
				cv, err := argmapper.Convert(T, argmapper.Typed(hSeed{1}), argmapper.Converter(mk, use))
				if err != nil || !same(cv, sp.val) {
					t.Errorf("Convert via conv: %v %v", cv, firstLine(err))
				}
			})

			// 7. Convert direct
			safely(t, "Convert direct", func() {
				cv, err := argmapper.Convert(T, argmapper.Typed(sp.val))
				if T == typeOf[error]() {
					t.Logf("Convert(error): %v, %v", cv, err)
					return
				}
				if err != nil || !same(cv, sp.val) {
					t.Errorf("Convert direct: %v %v", cv, firstLine(err))
				}
				cv, err = argmapper.Convert(T)
				if err == nil || cv != nil {
					t.Errorf("Convert nothing: %v %v", cv, err)
				}
			})

			// 8. Redefine with nothing
			safely(t, "Redefine", func() {
				calls = 0
				rf, err := f.Redefine()
				if err != nil {
					t.Errorf("Redefine: %v", err)
					return
				}
				if calls != 0 {
					t.Errorf("Redefine ran target")
				}
				rin := rf.Input().Values()
				if len(rin) != 1 || rin[0].Type != T || rin[0].Name != "" {
					t.Errorf("Redefine input: %v", rin)
				}
				r := rf.Call(argmapper.Typed(sp.val))
				if T == typeOf[error]() {
					return
				}
				if r.Err() != nil || calls != 1 || !same(r.Out(0), sp.val) {
					t.Errorf("Redefined call: calls=%d err=%v", calls, firstLine(r.Err()))
				}
				// Redefine with value given
				calls = 0
				rf, err = f.Redefine(argmapper.Typed(sp.val))
				if err != nil {
					t.Errorf("Redefine given: %v", err)
					return
				}
				if n := len(rf.Input().Values()); n != 0 {
					t.Errorf("Redefine given: inputs %v", rf.Input().Values())
				}
				r = rf.Call()
				if r.Err() != nil || calls != 1 || !same(r.Out(0), sp.val) {
					t.Errorf("Redefined given call: calls=%d err=%v", calls, firstLine(r.Err()))
				}
			})
		})
	}
}

func firstLine(err error) string {
	if err == nil {
		return "<nil>"
	}
	s := strings.TrimSpace(err.Error())
	if len(s) > 300 {
		s = s[:300]
	}
	return strings.ReplaceAll(s, "\n", " | ")
}
