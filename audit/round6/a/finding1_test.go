// Finding 1 -- regression of d2fc96e ("a named input of a converter adds to the
// name preference instead of replacing it"): the inherited (outer) name now TIES
// with the name of the parameter that is actually being produced, so the value
// that is converted for a named converter parameter is chosen by map order.
//
// Package / dir : package argmapper, repository root (next to call.go)
// Run           : go test -count=1 -run 'TestFinding1' .
//
// Passes on d2fc96e~1 (always "n"), fails on d2fc96e and HEAD.
package argmapper

import (
	"fmt"
	"testing"

	"github.com/hashicorp/go-hclog"
)

type f1Out struct{ from string }
type f1Key struct{}

// target:  func(struct{ A f1Out })                      -- named parameter "a"
// conv K:  func(struct{ N string; M float64 typeOnly }) f1Out
//
//	(the commit's own shape: "a named option next to a type-only input")
//
// conv C:  func(int) string                             -- type-only converter
// values:  Named(a,1) Named(n,2) Named(z,3) Typed(1.5)
//
// K is entered through its type-only input M (Typed(1.5)); its named parameter
// "n string" has to be produced by conversion through C, whose type-only input
// can be fed by the supplied named ints a, n and z. C07: the value whose name
// equals the parameter's name -- n -- is the one converted.
func TestFinding1_OwnNameTiesWithInheritedName(t *testing.T) {
	counts := map[string]int{}
	for i := 0; i < 300; i++ {
		var got string
		target := MustFunc(NewFunc(func(s struct {
			Struct
			A f1Out
		}) {
			got = s.A.from
		}))
		k := func(s struct {
			Struct
			N string
			M float64 `argmapper:",typeOnly"`
		}) f1Out {
			return f1Out{s.N}
		}
		c := func(n int) string { return fmt.Sprint(n) }

		r := target.Call(
			Logger(hclog.NewNullLogger()),
			Named("a", 1), Named("n", 2), Named("z", 3), Typed(1.5),
			Converter(k, c),
		)
		if err := r.Err(); err != nil {
			t.Fatal(err)
		}
		counts[got]++
	}
	if counts["2"] != 300 {
		t.Fatalf("parameter n of the converter must be converted from the value named n (2) "+
			"every time; converted-from histogram over 300 identical calls: %v", counts)
	}
}

// Same defect with a two-input converter producing "n": K2 takes a key and an
// int, both type-only. The search for "n string" runs under the name list
// [a n]; the ints named a and n get the same discount and tie.
func TestFinding1_NestedTypeOnlyInput(t *testing.T) {
	counts := map[string]int{}
	for i := 0; i < 300; i++ {
		var got string
		target := MustFunc(NewFunc(func(s struct {
			Struct
			A f1Out
		}) {
			got = s.A.from
		}))
		k := func(s struct {
			Struct
			N string
			M float64 `argmapper:",typeOnly"`
		}) f1Out {
			return f1Out{s.N}
		}
		k2 := func(_ f1Key, n int) string { return fmt.Sprint(n) }

		r := target.Call(
			Logger(hclog.NewNullLogger()),
			Named("a", 1), Named("n", 2), Typed(1.5), Typed(f1Key{}),
			Converter(k, k2),
		)
		if err := r.Err(); err != nil {
			t.Fatal(err)
		}
		counts[got]++
	}
	if counts["2"] != 300 {
		t.Fatalf("n must be converted from the value named n (2) every time; histogram: %v", counts)
	}
}
