// Finding 2 -- regression of 1285545 ("a typed argument resolved for one
// function is not reused for the next"): every use of a type-only argument is
// now resolved from scratch, converters included, so a converter set in which
// each level needs the two values of the level below (a "diamond ladder") is
// resolved in time 2^depth instead of depth^2. 1285545~1 needs 65 converter
// executions / 3 ms for depth 10 and 230 executions / a few ms for depth 20;
// HEAD needs 2046 executions / 0.4 s for depth 10, doubles with every level
// (8 s at depth 14) and would need about 2 million executions at depth 20.
// FuncOnce does not help: a run-once converter that has run still has all its
// arguments resolved again.
//
// Package / dir : package argmapper, repository root (next to call.go)
// Run           : go test -count=1 -run 'TestFinding2' .
//
// Both tests pass on 1285545~1 and fail on 1285545 and HEAD.
package argmapper

import (
	"testing"
	"time"

	"github.com/hashicorp/go-hclog"
)

type f2A0 struct{ n int }
type f2B0 struct{ n int }
type f2A1 struct{ n int }
type f2B1 struct{ n int }
type f2A2 struct{ n int }
type f2B2 struct{ n int }
type f2A3 struct{ n int }
type f2B3 struct{ n int }
type f2A4 struct{ n int }
type f2B4 struct{ n int }
type f2A5 struct{ n int }
type f2B5 struct{ n int }
type f2A6 struct{ n int }
type f2B6 struct{ n int }
type f2A7 struct{ n int }
type f2B7 struct{ n int }
type f2A8 struct{ n int }
type f2B8 struct{ n int }
type f2A9 struct{ n int }
type f2B9 struct{ n int }
type f2A10 struct{ n int }
type f2B10 struct{ n int }
type f2A11 struct{ n int }
type f2B11 struct{ n int }
type f2A12 struct{ n int }
type f2B12 struct{ n int }
type f2A13 struct{ n int }
type f2B13 struct{ n int }
type f2A14 struct{ n int }
type f2B14 struct{ n int }
type f2A15 struct{ n int }
type f2B15 struct{ n int }
type f2A16 struct{ n int }
type f2B16 struct{ n int }
type f2A17 struct{ n int }
type f2B17 struct{ n int }
type f2A18 struct{ n int }
type f2B18 struct{ n int }
type f2A19 struct{ n int }
type f2B19 struct{ n int }
type f2A20 struct{ n int }
type f2B20 struct{ n int }

var f2Execs int

func f2C1(a f2A0, b f2B0) f2A1     { f2Execs++; return f2A1{a.n + b.n} }
func f2D1(a f2A0, b f2B0) f2B1     { f2Execs++; return f2B1{a.n + b.n} }
func f2C2(a f2A1, b f2B1) f2A2     { f2Execs++; return f2A2{a.n + b.n} }
func f2D2(a f2A1, b f2B1) f2B2     { f2Execs++; return f2B2{a.n + b.n} }
func f2C3(a f2A2, b f2B2) f2A3     { f2Execs++; return f2A3{a.n + b.n} }
func f2D3(a f2A2, b f2B2) f2B3     { f2Execs++; return f2B3{a.n + b.n} }
func f2C4(a f2A3, b f2B3) f2A4     { f2Execs++; return f2A4{a.n + b.n} }
func f2D4(a f2A3, b f2B3) f2B4     { f2Execs++; return f2B4{a.n + b.n} }
func f2C5(a f2A4, b f2B4) f2A5     { f2Execs++; return f2A5{a.n + b.n} }
func f2D5(a f2A4, b f2B4) f2B5     { f2Execs++; return f2B5{a.n + b.n} }
func f2C6(a f2A5, b f2B5) f2A6     { f2Execs++; return f2A6{a.n + b.n} }
func f2D6(a f2A5, b f2B5) f2B6     { f2Execs++; return f2B6{a.n + b.n} }
func f2C7(a f2A6, b f2B6) f2A7     { f2Execs++; return f2A7{a.n + b.n} }
func f2D7(a f2A6, b f2B6) f2B7     { f2Execs++; return f2B7{a.n + b.n} }
func f2C8(a f2A7, b f2B7) f2A8     { f2Execs++; return f2A8{a.n + b.n} }
func f2D8(a f2A7, b f2B7) f2B8     { f2Execs++; return f2B8{a.n + b.n} }
func f2C9(a f2A8, b f2B8) f2A9     { f2Execs++; return f2A9{a.n + b.n} }
func f2D9(a f2A8, b f2B8) f2B9     { f2Execs++; return f2B9{a.n + b.n} }
func f2C10(a f2A9, b f2B9) f2A10   { f2Execs++; return f2A10{a.n + b.n} }
func f2D10(a f2A9, b f2B9) f2B10   { f2Execs++; return f2B10{a.n + b.n} }
func f2C11(a f2A10, b f2B10) f2A11 { f2Execs++; return f2A11{a.n + b.n} }
func f2D11(a f2A10, b f2B10) f2B11 { f2Execs++; return f2B11{a.n + b.n} }
func f2C12(a f2A11, b f2B11) f2A12 { f2Execs++; return f2A12{a.n + b.n} }
func f2D12(a f2A11, b f2B11) f2B12 { f2Execs++; return f2B12{a.n + b.n} }
func f2C13(a f2A12, b f2B12) f2A13 { f2Execs++; return f2A13{a.n + b.n} }
func f2D13(a f2A12, b f2B12) f2B13 { f2Execs++; return f2B13{a.n + b.n} }
func f2C14(a f2A13, b f2B13) f2A14 { f2Execs++; return f2A14{a.n + b.n} }
func f2D14(a f2A13, b f2B13) f2B14 { f2Execs++; return f2B14{a.n + b.n} }
func f2C15(a f2A14, b f2B14) f2A15 { f2Execs++; return f2A15{a.n + b.n} }
func f2D15(a f2A14, b f2B14) f2B15 { f2Execs++; return f2B15{a.n + b.n} }
func f2C16(a f2A15, b f2B15) f2A16 { f2Execs++; return f2A16{a.n + b.n} }
func f2D16(a f2A15, b f2B15) f2B16 { f2Execs++; return f2B16{a.n + b.n} }
func f2C17(a f2A16, b f2B16) f2A17 { f2Execs++; return f2A17{a.n + b.n} }
func f2D17(a f2A16, b f2B16) f2B17 { f2Execs++; return f2B17{a.n + b.n} }
func f2C18(a f2A17, b f2B17) f2A18 { f2Execs++; return f2A18{a.n + b.n} }
func f2D18(a f2A17, b f2B17) f2B18 { f2Execs++; return f2B18{a.n + b.n} }
func f2C19(a f2A18, b f2B18) f2A19 { f2Execs++; return f2A19{a.n + b.n} }
func f2D19(a f2A18, b f2B18) f2B19 { f2Execs++; return f2B19{a.n + b.n} }
func f2C20(a f2A19, b f2B19) f2A20 { f2Execs++; return f2A20{a.n + b.n} }
func f2D20(a f2A19, b f2B19) f2B20 { f2Execs++; return f2B20{a.n + b.n} }

// Acyclic, every converter satisfiable from the two supplied values, distinct
// named types, two positional inputs per converter: inside the domains of
// C05(b) and C06.
//
// Depth 10 = 20 converters. Each converter has to run at most once per need of
// its result; before 1285545 the whole call executed 65 converter bodies.
func TestFinding2_ExecutionsExplode(t *testing.T) {
	f2Execs = 0
	var got int
	f := MustFunc(NewFunc(func(a f2A10, b f2B10) { got = a.n + b.n }))
	r := f.Call(Logger(hclog.NewNullLogger()),
		Typed(f2A0{1}, f2B0{1}),
		Converter(f2C1, f2D1, f2C2, f2D2, f2C3, f2D3, f2C4, f2D4, f2C5, f2D5, f2C6, f2D6, f2C7, f2D7, f2C8, f2D8, f2C9, f2D9, f2C10, f2D10))
	if err := r.Err(); err != nil {
		t.Fatal(err)
	}
	if got != 2048 {
		t.Fatalf("wrong result %d", got)
	}
	// 20 converters, 10 levels: anything polynomial stays far below this.
	if f2Execs > 400 {
		t.Fatalf("20 converters on 10 levels needed %d converter executions (65 before 1285545; 2^11-2 = 2046 now)", f2Execs)
	}
}

// Depth 20 = 40 converters: must return (C06: "never ... fail to terminate").
// Before 1285545 this call takes a few milliseconds.
func TestFinding2_DoesNotReturnInReasonableTime(t *testing.T) {
	done := make(chan Result, 1)
	start := time.Now()
	go func() {
		f := MustFunc(NewFunc(func(a f2A20, b f2B20) {}))
		done <- f.Call(Logger(hclog.NewNullLogger()),
			Typed(f2A0{1}, f2B0{1}),
			Converter(f2C1, f2D1, f2C2, f2D2, f2C3, f2D3, f2C4, f2D4, f2C5, f2D5, f2C6, f2D6, f2C7, f2D7, f2C8, f2D8, f2C9, f2D9, f2C10, f2D10, f2C11, f2D11, f2C12, f2D12, f2C13, f2D13, f2C14, f2D14, f2C15, f2D15, f2C16, f2D16, f2C17, f2D17, f2C18, f2D18, f2C19, f2D19, f2C20, f2D20))
	}()
	select {
	case r := <-done:
		if err := r.Err(); err != nil {
			t.Fatal(err)
		}
		t.Logf("returned after %v", time.Since(start))
	case <-time.After(20 * time.Second):
		t.Fatalf("Call with 40 acyclic, satisfiable converters (ladder of depth 20) did not return within 20s")
	}
}
