// Finding 2 (relates to fix a903590, question 1/3: incomplete): a generator
// given to Call overrides a default generator only when both emit their
// converter for the SAME graph vertex. The generators are run inside a loop
// over g.Vertices() (map order); when the default generator also reacts to
// another value, which converter enters the call graph first -- and stays --
// depends on map iteration order. The same call then returns different results
// from one repetition to the next.
//
// Package/dir: package argmapper, root of the worktree (/tmp/hunt6/b/wt).
// Run:  cp finding2_test.go /tmp/hunt6/b/wt/ && cd /tmp/hunt6/b/wt && \
//       go test -count=1 -run 'TestFinding2' .
package argmapper

import (
	"reflect"
	"testing"
)

func TestFinding2_CallGeneratorVsDefaultGeneratorOnAnotherValue(t *testing.T) {
	intType := reflect.TypeOf(0)

	// Default of the Func: every int can be rendered as a string.
	byType := func(v Value) (*Func, error) {
		if v.Type == intType {
			return NewFunc(func(int) string { return "default generator" })
		}
		return nil, nil
	}

	// Given to Call: because there is a value called "id", ints are rendered
	// another way. Emits a converter of the same function type.
	byName := func(v Value) (*Func, error) {
		if v.Name == "id" && v.Type == intType {
			return NewFunc(func(int) string { return "call generator" })
		}
		return nil, nil
	}

	f := MustFunc(NewFunc(func(s string) string { return s }, ConverterGen(byType)))

	seen := map[string]int{}
	for i := 0; i < 400; i++ {
		r := f.Call(Named("id", 1), Named("other", 2), ConverterGen(byName))
		if err := r.Err(); err != nil {
			t.Fatal(err)
		}
		seen[r.Out(0).(string)]++
	}

	if seen["default generator"] > 0 {
		t.Fatalf("the converter of the default generator shadowed the one of the generator "+
			"given to Call in %d of 400 identical calls: %v", seen["default generator"], seen)
	}
}
