// Finding 3 (relates to fix e27c09e, and its predecessors 830fc78/bca5ac6;
// question 3: incomplete): Value.Arg / ValueSet.Args honour the declared type
// of a value only when that type is an interface. A value declared with a
// NON-interface type that holds a reflect.Value of another type assignable to
// it (chan int in a <-chan int entry, []int in an entry of type `type IDs
// []int`, map[string]string in a `type Labels map[string]string` entry) is
// still sent under the type of what it holds. SignatureValues accepts the very
// same set (reflect's Set converts), but the "fully filled input set does not
// satisfy its own function".
//
// Package/dir: package argmapper, root of the worktree (/tmp/hunt6/b/wt).
// Run:  cp finding3_test.go /tmp/hunt6/b/wt/ && cd /tmp/hunt6/b/wt && \
//       go test -count=1 -run 'TestFinding3' .
package argmapper

import (
	"reflect"
	"testing"
)

type finding3IDs []int

func TestFinding3_NamedSliceType(t *testing.T) {
	type in struct {
		Struct
		IDs finding3IDs
	}
	f := MustFunc(NewFunc(func(i in) int { return len(i.IDs) }))

	set := f.Input()
	set.Named("ids").Value = reflect.ValueOf([]int{1, 2, 3}) // assignable to finding3IDs

	// The set is a valid, fully filled signature of the function ...
	if got := f.Func().(func(in) int)(set.SignatureValues()[0].Interface().(in)); got != 3 {
		t.Fatalf("SignatureValues: got %d", got)
	}

	// ... but its Args do not satisfy the function.
	r := f.Call(set.Args()...)
	if err := r.Err(); err != nil {
		t.Fatalf("a fully filled input set does not satisfy its own function: %T", err)
	}
	if r.Out(0) != 3 {
		t.Fatalf("got %v", r.Out(0))
	}
}

func TestFinding3_PositionalDirectionalChannel(t *testing.T) {
	f := MustFunc(NewFunc(func(ch <-chan int) int { return cap(ch) }))

	set := f.Input()
	recvT := reflect.TypeOf((<-chan int)(nil))
	set.Typed(recvT).Value = reflect.ValueOf(make(chan int, 7)) // chan int is assignable to <-chan int

	// The set is a valid, fully filled signature of the function ...
	if got := reflect.ValueOf(f.Func()).Call(set.SignatureValues())[0].Interface(); got != 7 {
		t.Fatalf("SignatureValues: got %v", got)
	}

	// ... but its Args do not satisfy the function.

	r := f.Call(set.Args()...)
	if err := r.Err(); err != nil {
		t.Fatalf("a fully filled input set does not satisfy its own function: %T", err)
	}
	if r.Out(0) != 7 {
		t.Fatalf("got %v", r.Out(0))
	}
}

// Control: the interface cases repaired by bca5ac6, 830fc78 and e27c09e.
func TestFinding3_ControlInterface(t *testing.T) {
	type stringer interface{ String() string }
	f := MustFunc(NewFunc(func(s stringer) string { return s.String() }))
	set := f.Input()
	set.Typed(reflect.TypeOf((*stringer)(nil)).Elem()).Value = reflect.ValueOf(reflect.TypeOf(0)) // *rtype has String()
	r := f.Call(set.Args()...)
	if err := r.Err(); err != nil {
		t.Fatal(err)
	}
}
