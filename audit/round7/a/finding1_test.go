// Finding 1 (fix commits d2fc96e / 41a11f2): all inherited names get the same
// discount, so the name of the value that is being produced right there ties
// with the names inherited from further out as soon as the input in question
// is reached by a nested search (i.e. it is not on the path of the named
// value itself).
//
// Package argmapper (internal test package), directory: root of the library.
//   go test -count=1 -run 'TestHunt7A_Finding1$' .
//
// PASSES at d0d2149 and 1285545, FAILS from d2fc96e on (incl. 41a11f2 = HEAD):
// about 60% of the calls convert n from the S named a.
package argmapper

import "testing"

type h7f1S struct{ V string }
type h7f1M struct{ V string }
type h7f1Y struct{ V string }
type h7f1T struct{ V string }

func TestHunt7A_Finding1(t *testing.T) {
	// target(a T)
	type targetIn struct {
		Struct
		A h7f1T
	}
	// convT(a S, n Y) -> T : takes the S named a and the Y named n
	type convTIn struct {
		Struct
		A h7f1S
		N h7f1Y
	}
	convT := func(in convTIn) h7f1T { return h7f1T{"T(" + in.A.V + "," + in.N.V + ")"} }
	// convY(S type-only, m M) -> n Y : the only producer of the named value n
	type convYIn struct {
		Struct
		S h7f1S `argmapper:",typeOnly"`
		M h7f1M
	}
	type convYOut struct {
		Struct
		N h7f1Y
	}
	convY := func(in convYIn) convYOut {
		return convYOut{N: h7f1Y{"Y(" + in.S.V + "," + in.M.V + ")"}}
	}

	counts := map[string]int{}
	const runs = 300
	for i := 0; i < runs; i++ {
		var got string
		target := MustFunc(NewFunc(func(in targetIn) { got = in.A.V }))
		res := target.Call(
			Named("a", h7f1S{"a"}), // S named like the target's parameter
			Named("n", h7f1S{"n"}), // S named like convT's parameter n
			Named("m", h7f1M{"m"}),
			Converter(convT, convY),
		)
		if err := res.Err(); err != nil {
			t.Fatal(err)
		}
		counts[got]++
	}

	// convT's named parameter n (type Y) has to be produced by conversion
	// (convY); convY's type-only input S can be fed by the supplied values
	// named a and n: the one named n is the one to convert (C07).
	want := "T(a,Y(n,m))"
	if counts[want] != runs {
		t.Fatalf("want %s in every call; got %v", want, counts)
	}
}
