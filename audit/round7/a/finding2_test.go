// Finding 2 (sibling of fix commit 41a11f2, present in every tree since before
// d0d2149): when the named input n of a converter lies ON the path that was
// searched for the outer named value a, the whole path is chosen (and the
// typed argument tagged) under a's discount: n is converted from the value
// named a although a value named n is supplied -- in 100% of the calls.
//
// Package argmapper (internal test package), directory: root of the library.
//   go test -count=1 -run 'TestHunt7A_Finding2$' .
//
// FAILS on HEAD (41a11f2) and on d0d2149, 1285545, d2fc96e, 31d1bb3 alike.
package argmapper

import "testing"

type h7f2S struct{ V string }
type h7f2W struct{ V string }
type h7f2Y struct{ V string }
type h7f2T struct{ V string }

func TestHunt7A_Finding2(t *testing.T) {
	// target(a T)
	type targetIn struct {
		Struct
		A h7f2T
	}
	// convT(S type-only, n Y) -> T
	type convTIn struct {
		Struct
		S h7f2S `argmapper:",typeOnly"`
		N h7f2Y
	}
	convT := func(in convTIn) h7f2T { return h7f2T{"T(" + in.S.V + "," + in.N.V + ")"} }
	// convY(S, W) -> n Y : both inputs type-only
	type convYOut struct {
		Struct
		N h7f2Y
	}
	convY := func(s h7f2S, w h7f2W) convYOut {
		return convYOut{N: h7f2Y{"Y(" + s.V + "," + w.V + ")"}}
	}

	counts := map[string]int{}
	const runs = 100
	for i := 0; i < runs; i++ {
		var got string
		target := MustFunc(NewFunc(func(in targetIn) { got = in.A.V }))
		res := target.Call(
			Named("a", h7f2W{"a"}), Named("n", h7f2W{"n"}),
			Typed(h7f2S{"s"}),
			Converter(convT, convY),
		)
		if err := res.Err(); err != nil {
			t.Fatal(err)
		}
		counts[got]++
	}

	// convT's named parameter n has to be produced by conversion (convY);
	// convY's type-only input W can be fed by the supplied values named a
	// and n: the one named n is the one to convert (C07).
	want := "T(s,Y(s,n))"
	if counts[want] != runs {
		t.Fatalf("want %s in every call; got %v", want, counts)
	}
}
