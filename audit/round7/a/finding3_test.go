// Finding 3 (fix commit 41a11f2, regression against 31d1bb3 and d0d2149):
// weightInheritedName == weightNormal, which is what a function -> named
// value edge weighs anyway. An inherited name is therefore no preference at
// all where a converter takes its input BY NAME: while the named value a is
// produced, a converter taking "a" ties with a converter taking "b".
//
// Package argmapper (internal test package), directory: root of the library.
//   go test -count=1 -run 'TestHunt7A_Finding3$' .
//
// PASSES at d0d2149, 1285545, d2fc96e, 31d1bb3 (Ua in 300 of 300 calls);
// FAILS at 41a11f2 = HEAD (Ua in about half of the calls).
package argmapper

import "testing"

type h7f3S struct{ V string }
type h7f3S2 struct{ V string }
type h7f3U struct{ V string }
type h7f3T struct{ V string }

func TestHunt7A_Finding3(t *testing.T) {
	// target(a T)
	type targetIn struct {
		Struct
		A h7f3T
	}
	// convT(S, U) -> T, both type-only. S is supplied, so the path for a
	// runs through S and U is reached by a nested search under the
	// inherited name a.
	convT := func(s h7f3S, u h7f3U) h7f3T { return h7f3T{"T(" + s.V + "," + u.V + ")"} }
	type uaIn struct {
		Struct
		A h7f3S2
	}
	type ubIn struct {
		Struct
		B h7f3S2
	}
	convUa := func(in uaIn) h7f3U { return h7f3U{"Ua(" + in.A.V + ")"} }
	convUb := func(in ubIn) h7f3U { return h7f3U{"Ub(" + in.B.V + ")"} }

	counts := map[string]int{}
	const runs = 300
	for i := 0; i < runs; i++ {
		var got string
		target := MustFunc(NewFunc(func(in targetIn) { got = in.A.V }))
		res := target.Call(
			Named("a", h7f3S2{"a"}), Named("b", h7f3S2{"b"}),
			Typed(h7f3S{"s"}),
			Converter(convT, convUa, convUb),
		)
		if err := res.Err(); err != nil {
			t.Fatal(err)
		}
		counts[got]++
	}

	want := "T(s,Ua(a))"
	if counts[want] != runs {
		t.Fatalf("while a is produced, the converter that takes the name a is preferred (as it was up to 31d1bb3): want %s in every call; got %v", want, counts)
	}
}
