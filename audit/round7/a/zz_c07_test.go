package argmapper

import (
	"fmt"
	"math/rand"
	"os"
	"strconv"
	"strings"
	"testing"
)

// Directed C07 clause-1 check: k named target params of type T4, produced by
// conv(S=T0 typed, extras...) -> T4 typed. For each param name p a Named(p, T0)
// is supplied. Extras are fed in various ways. Each param must be converted
// from the T0 of its own name.
func TestZZC07(t *testing.T) {
	from, _ := strconv.Atoi(os.Getenv("HUNT_FROM"))
	to, _ := strconv.Atoi(os.Getenv("HUNT_TO"))
	bad := 0
	for seed := from; seed < to; seed++ {
		r := rand.New(rand.NewSource(int64(seed)))
		names := []string{"a", "b", "c"}
		k := 1 + r.Intn(3)
		var s zScenario
		for i := 0; i < k; i++ {
			s.target = append(s.target, zVal{names[i], 4})
			s.inputs = append(s.inputs, zVal{names[i], 0})
		}
		if r.Intn(3) == 0 {
			s.inputs = append(s.inputs, zVal{"", 0})
		}
		if r.Intn(3) == 0 {
			s.inputs = append(s.inputs, zVal{"z", 0})
		}
		conv := zConv{in: []zVal{{"", 0}}, out: []zVal{{"", 4}}}
		// extras
		nextra := r.Intn(3)
		for e := 0; e < nextra; e++ {
			typ := 1 + e // T1, T2
			switch r.Intn(6) {
			case 0: // typed extra, supplied typed
				conv.in = append(conv.in, zVal{"", typ})
				s.inputs = append(s.inputs, zVal{"", typ})
			case 1: // typed extra, supplied under unrelated name
				conv.in = append(conv.in, zVal{"", typ})
				s.inputs = append(s.inputs, zVal{fmt.Sprintf("x%d", e), typ})
			case 2: // named extra, supplied
				conv.in = append(conv.in, zVal{fmt.Sprintf("x%d", e), typ})
				s.inputs = append(s.inputs, zVal{fmt.Sprintf("x%d", e), typ})
			case 3: // named extra, produced from T0 typed by another converter
				conv.in = append(conv.in, zVal{fmt.Sprintf("x%d", e), typ})
				s.convs = append(s.convs, zConv{in: []zVal{{"", 0}}, out: []zVal{{fmt.Sprintf("x%d", e), typ}}})
			case 4: // typed extra, produced from T0 typed by another converter
				conv.in = append(conv.in, zVal{"", typ})
				s.convs = append(s.convs, zConv{in: []zVal{{"", 0}}, out: []zVal{{"", typ}}})
			case 5: // typed extra, produced from T0 typed + T3 typed(supplied) by another converter
				conv.in = append(conv.in, zVal{"", typ})
				s.convs = append(s.convs, zConv{in: []zVal{{"", 0}, {"", 3}}, out: []zVal{{"", typ}}})
				s.inputs = append(s.inputs, zVal{"", 3})
			}
		}
		r.Shuffle(len(conv.in), func(i, j int) { conv.in[i], conv.in[j] = conv.in[j], conv.in[i] })
		s.convs = append([]zConv{conv}, s.convs...)
		// dedupe inputs by key
		seen := map[string]bool{}
		var ins []zVal
		for _, v := range s.inputs {
			key := v.name
			if key == "" {
				key = fmt.Sprint("t", v.typ)
			}
			if !seen[key] {
				seen[key] = true
				ins = append(ins, v)
			}
		}
		s.inputs = ins

		outs := map[string]int{}
		for i := 0; i < 30; i++ {
			o, _ := zRun(s, "call")
			outs[o]++
		}
		for o := range outs {
			if !strings.HasPrefix(o, "ok[") {
				fmt.Printf("C07 %d NOTOK %s :: %s\n", seed, o, s)
				bad++
				continue
			}
			parts := strings.Split(strings.TrimSuffix(strings.TrimPrefix(o, "ok["), "]"), " | ")
			for i, p := range parts {
				// the T0 argument of c0 must be in-<name>; nested producers c1.. too
				want := "in-" + names[i]
				// every "in-" occurrence of type T0 should be own name; T0 inputs are the only ones named a/b/c/z or typed T0
				for _, tok := range []string{"in-a", "in-b", "in-c", "in-z"} {
					if tok != want && strings.Contains(p, tok) {
						fmt.Printf("C07 %d BAD param %s got %s (%d/30) :: %s\n", seed, names[i], p, outs[o], s)
						bad++
					}
				}
				_ = want
			}
		}
	}
	fmt.Println("C07 bad:", bad)
}
