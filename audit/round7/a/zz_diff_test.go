package argmapper

// Differential harness: deterministic per-seed scenarios, printed outcomes.
// Run in several trees and diff the output.
//   HUNT_FROM=0 HUNT_TO=2000 HUNT_PROFILE=any go test -count=1 -run TestZZDiff . > out.txt

import (
	"fmt"
	"math/rand"
	"os"
	"reflect"
	"sort"
	"strconv"
	"strings"
	"testing"
	"time"
)

type ZT0 struct{ S string }
type ZT1 struct{ S string }
type ZT2 struct{ S string }
type ZT3 struct{ S string }
type ZT4 struct{ S string }
type ZT5 struct{ S string }

var zTypes = []reflect.Type{
	reflect.TypeOf(ZT0{}), reflect.TypeOf(ZT1{}), reflect.TypeOf(ZT2{}),
	reflect.TypeOf(ZT3{}), reflect.TypeOf(ZT4{}), reflect.TypeOf(ZT5{}),
}

func init() {
	for i := 6; i < 16; i++ {
		zTypes = append(zTypes, reflect.StructOf([]reflect.StructField{{Name: "S", Type: reflect.TypeOf("")}, {Name: fmt.Sprintf("Pad%d", i), Type: reflect.TypeOf(struct{}{})}}))
	}
}

func zMk(t reflect.Type, s string) reflect.Value {
	v := reflect.New(t).Elem()
	v.Field(0).SetString(s)
	return v
}

type zVal struct {
	name string
	typ  int
}

func (v zVal) String() string { return fmt.Sprintf("%s:T%d", v.name, v.typ) }

type zConv struct {
	in, out []zVal
	once    bool
	fails   bool
}

type zScenario struct {
	target []zVal
	convs  []zConv
	inputs []zVal
}

func (s zScenario) String() string {
	var sb strings.Builder
	fmt.Fprintf(&sb, "target%v inputs%v", s.target, s.inputs)
	for i, c := range s.convs {
		fmt.Fprintf(&sb, " c%d%v->%v", i, c.in, c.out)
		if c.once {
			sb.WriteString("!once")
		}
		if c.fails {
			sb.WriteString("!fail")
		}
	}
	return sb.String()
}

func zRandVals(r *rand.Rand, n int, ntypes int, names []string, pNamed float64) []zVal {
	var res []zVal
	seenName := map[string]bool{}
	seenType := map[int]bool{}
	for tries := 0; len(res) < n && tries < 50; tries++ {
		v := zVal{typ: r.Intn(ntypes)}
		if r.Float64() < pNamed {
			v.name = names[r.Intn(len(names))]
			if seenName[v.name] {
				continue
			}
			seenName[v.name] = true
		} else {
			if seenType[v.typ] {
				continue
			}
			seenType[v.typ] = true
		}
		res = append(res, v)
	}
	return res
}

func zGen(seed int64, profile string) zScenario {
	r := rand.New(rand.NewSource(seed))
	names := []string{"a", "b", "c"}
	ntypes := 3 + r.Intn(4)
	pNamed := []float64{0.2, 0.5, 0.8}[r.Intn(3)]
	var s zScenario
	s.target = zRandVals(r, 1+r.Intn(3), ntypes, names, pNamed)
	nconv := 1 + r.Intn(7)
	if profile == "dense" {
		ntypes = 2 + r.Intn(2)
		nconv = 4 + r.Intn(8)
	}
	if profile == "dag" {
		ntypes = 8 + r.Intn(8)
		nconv = 10 + r.Intn(30)
	}
	sigs := map[string]bool{}
	for i := 0; i < nconv; i++ {
		var c zConv
		maxIn := 3
		if profile == "single" {
			maxIn = 1
		}
		nin := 1 + r.Intn(maxIn)
		if profile != "single" && r.Intn(10) == 0 {
			nin = 0
		}
		c.in = zRandVals(r, nin, ntypes, names, pNamed)
		nout := 1
		if r.Intn(4) == 0 {
			nout = 2
		}
		c.out = zRandVals(r, nout, ntypes, names, pNamed)
		if profile == "acyclic" || profile == "dag" {
			// outputs have a type index strictly greater than all inputs
			maxT := -1
			for _, v := range c.in {
				if v.typ > maxT {
					maxT = v.typ
				}
			}
			if maxT >= ntypes-1 {
				continue
			}
			ok := true
			seenT := map[int]bool{}
			for j := range c.out {
				c.out[j].typ = maxT + 1 + r.Intn(ntypes-1-maxT)
				if c.out[j].name == "" {
					if seenT[c.out[j].typ] {
						ok = false
					}
					seenT[c.out[j].typ] = true
				}
			}
			if !ok {
				continue
			}
		}
		if profile == "any" || profile == "once" || profile == "dense" {
			c.once = r.Intn(5) == 0
		}
		if profile == "any" {
			c.fails = r.Intn(12) == 0
		}
		sig := fmt.Sprint(c.in, c.out)
		if sigs[sig] {
			continue
		}
		sigs[sig] = true
		s.convs = append(s.convs, c)
	}
	s.inputs = zRandVals(r, 1+r.Intn(4), ntypes, names, pNamed)
	return s
}

func zSet(vals []zVal) *ValueSet {
	var vs []Value
	for _, v := range vals {
		vs = append(vs, Value{Name: v.name, Type: zTypes[v.typ]})
	}
	set, err := NewValueSet(vs)
	if err != nil {
		panic(err)
	}
	return set
}

func zRead(set *ValueSet, vals []zVal) []string {
	var parts []string
	for _, v := range vals {
		var val *Value
		if v.name != "" {
			val = set.Named(v.name)
		} else {
			val = set.Typed(zTypes[v.typ])
		}
		parts = append(parts, val.Value.Field(0).String())
	}
	return parts
}

type zErr struct{ s string }

func (e *zErr) Error() string { return e.s }

// zRun executes a scenario once; returns outcome string and number of
// converter executions.
func zRun(s zScenario, mode string) (outcome string, execs int) {
	var args []Arg
	for i := range s.convs {
		i := i
		c := s.convs[i]
		in, out := zSet(c.in), zSet(c.out)
		var opts []Arg
		if c.once {
			opts = append(opts, FuncOnce())
		}
		f, err := BuildFunc(in, out, func(in, out *ValueSet) error {
			execs++
			if c.fails {
				return &zErr{fmt.Sprintf("fail-c%d", i)}
			}
			res := fmt.Sprintf("c%d(%s)", i, strings.Join(zRead(in, c.in), ","))
			for j, o := range c.out {
				val := zMk(zTypes[o.typ], res+"."+strconv.Itoa(j))
				if o.name != "" {
					out.Named(o.name).Value = val
				} else {
					out.Typed(zTypes[o.typ]).Value = val
				}
			}
			return nil
		}, opts...)
		if err != nil {
			return "builderr:" + err.Error(), 0
		}
		args = append(args, ConverterFunc(f))
	}
	for _, v := range s.inputs {
		if v.name != "" {
			args = append(args, Named(v.name, zMk(zTypes[v.typ], "in-"+v.name).Interface()))
		} else {
			args = append(args, Typed(zMk(zTypes[v.typ], "in-typed").Interface()))
		}
	}

	tin := zSet(s.target)
	var got string
	ran := false
	target, err := BuildFunc(tin, nil, func(in, out *ValueSet) error {
		ran = true
		got = strings.Join(zRead(in, s.target), " | ")
		return nil
	})
	if err != nil {
		return "targeterr:" + err.Error(), 0
	}

	defer func() {
		if p := recover(); p != nil {
			msg := fmt.Sprint(p)
			if len(msg) > 60 {
				msg = msg[:60]
			}
			outcome = "PANIC:" + msg
		}
	}()

	switch mode {
	case "call":
		res := target.Call(args...)
		if err := res.Err(); err != nil {
			cat := "err"
			if _, ok := err.(*ErrArgumentUnsatisfied); ok {
				cat = "unsat"
			} else if ze, ok := err.(*zErr); ok {
				cat = "converr:" + ze.s
			} else {
				cat = "err:" + strings.Join(strings.Fields(err.Error()), " ")
			}
			if ran {
				cat += "+RAN"
			}
			return cat, execs
		}
		return "ok[" + got + "]", execs
	case "redefine":
		if os.Getenv("HUNT_FILTER") != "" {
			args = append(args, FilterInput(func(v Value) bool {
				return v.Type == zTypes[0] || v.Type == zTypes[1]
			}))
		}
		nf, err := target.Redefine(args...)
		if execs != 0 || ran {
			return "REDEFINE-RAN-CODE", execs
		}
		if err != nil {
			return "rerr", execs
		}
		var ins []string
		var callArgs []Arg
		for _, v := range nf.Input().Values() {
			ins = append(ins, fmt.Sprintf("%s:%s", v.Name, v.Type.String()))
			val := zMk(v.Type, "re-"+v.Name)
			if v.Name != "" {
				callArgs = append(callArgs, Named(v.Name, val.Interface()))
			} else {
				callArgs = append(callArgs, Typed(val.Interface()))
			}
		}
		sort.Strings(ins)
		res := nf.Call(callArgs...)
		if err := res.Err(); err != nil {
			cat := "err"
			if _, ok := err.(*ErrArgumentUnsatisfied); ok {
				cat = "unsat"
			} else if ze, ok := err.(*zErr); ok {
				cat = "converr:" + ze.s
			}
			return fmt.Sprintf("rok%v->%s", ins, cat), execs
		}
		return fmt.Sprintf("rok%v->ok[%s]", ins, got), execs
	}
	return "?", 0
}

func zRunTimeout(s zScenario, mode string, d time.Duration) (string, int) {
	type res struct {
		o string
		e int
	}
	ch := make(chan res, 1)
	go func() {
		o, e := zRun(s, mode)
		ch <- res{o, e}
	}()
	select {
	case r := <-ch:
		return r.o, r.e
	case <-time.After(d):
		return "TIMEOUT", -1
	}
}

func TestZZDiff(t *testing.T) {
	from, _ := strconv.Atoi(os.Getenv("HUNT_FROM"))
	to, _ := strconv.Atoi(os.Getenv("HUNT_TO"))
	profile := os.Getenv("HUNT_PROFILE")
	if profile == "" {
		profile = "any"
	}
	mode := os.Getenv("HUNT_MODE")
	if mode == "" {
		mode = "call"
	}
	reps := 6
	if r := os.Getenv("HUNT_REPS"); r != "" {
		reps, _ = strconv.Atoi(r)
	}
	for seed := from; seed < to; seed++ {
		s := zGen(int64(seed), profile)
		outs := map[string]bool{}
		maxE := 0
		for i := 0; i < reps; i++ {
			o, e := zRunTimeout(s, mode, 10*time.Second)
			outs[o] = true
			if e > maxE {
				maxE = e
			}
			if o == "TIMEOUT" {
				break
			}
		}
		var list []string
		for o := range outs {
			list = append(list, o)
		}
		sort.Strings(list)
		eb := "lo"
		if maxE > 30 {
			eb = fmt.Sprintf("HI%d", maxE)
		}
		fmt.Printf("SEED %d %s execs=%s :: %s :: %s\n", seed, profile, eb, strings.Join(list, " || "), s)
	}
}
