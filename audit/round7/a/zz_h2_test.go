package argmapper

import "testing"

type h2S struct{ V string }
type h2S2 struct{ V string }
type h2U struct{ V string }
type h2T struct{ V string }

func TestZZH2(t *testing.T) {
	type targetIn struct {
		Struct
		A h2T
	}
	convT := func(s h2S, u h2U) h2T { return h2T{"T(" + s.V + "," + u.V + ")"} }
	type uaIn struct {
		Struct
		A h2S2
	}
	type ubIn struct {
		Struct
		B h2S2
	}
	convUa := func(in uaIn) h2U { return h2U{"Ua(" + in.A.V + ")"} }
	convUb := func(in ubIn) h2U { return h2U{"Ub(" + in.B.V + ")"} }
	counts := map[string]int{}
	for i := 0; i < 300; i++ {
		var got string
		target := MustFunc(NewFunc(func(in targetIn) { got = in.A.V }))
		res := target.Call(Named("a", h2S2{"a"}), Named("b", h2S2{"b"}), Typed(h2S{"s"}), Converter(convT, convUa, convUb))
		if err := res.Err(); err != nil {
			t.Fatal(err)
		}
		counts[got]++
	}
	t.Logf("%v", counts)
}
