package argmapper

import (
	"fmt"
	"math/rand"
	"os"
	"reflect"
	"strconv"
	"strings"
	"testing"
	"time"
)

func lType(level, k int) reflect.Type {
	return reflect.StructOf([]reflect.StructField{{Name: fmt.Sprintf("L%dK%d", level, k), Type: reflect.TypeOf("")}})
}

// ladder: levels 0..n, width w. names[level][k] is "" (typed) or a name.
// every value at level i>0 is produced by one converter from all w values at level i-1.
func lRun(n, w int, names [][]string, tnames []string, once bool) (execs int, dur time.Duration, outcome string) {
	var args []Arg
	mk := func(level int, nm []string) *ValueSet {
		var vs []Value
		for k := 0; k < w; k++ {
			vs = append(vs, Value{Name: nm[k], Type: lType(level, k)})
		}
		set, err := NewValueSet(vs)
		if err != nil {
			panic(err)
		}
		return set
	}
	for i := 1; i <= n; i++ {
		for k := 0; k < w; k++ {
			in := mk(i-1, names[i-1])
			out, err := NewValueSet([]Value{{Name: names[i][k], Type: lType(i, k)}})
			if err != nil {
				panic(err)
			}
			var opts []Arg
			if once {
				opts = append(opts, FuncOnce())
			}
			t := lType(i, k)
			f, err := BuildFunc(in, out, func(in, out *ValueSet) error {
				execs++
				out.Values()[0].Value = reflect.New(t).Elem()
				// write through the set's own value
				for _, v := range out.values {
					v.Value = reflect.New(t).Elem()
				}
				return nil
			}, opts...)
			if err != nil {
				panic(err)
			}
			args = append(args, ConverterFunc(f))
		}
	}
	for k := 0; k < w; k++ {
		v := reflect.New(lType(0, k)).Elem().Interface()
		if names[0][k] != "" {
			args = append(args, Named(names[0][k], v))
		} else {
			args = append(args, Typed(v))
		}
	}
	target, err := BuildFunc(mk(n, tnames), nil, func(in, out *ValueSet) error { return nil })
	if err != nil {
		panic(err)
	}
	start := time.Now()
	res := target.Call(args...)
	dur = time.Since(start)
	outcome = "ok"
	if res.Err() != nil {
		outcome = "ERR:" + strings.Join(strings.Fields(res.Err().Error()), " ")
		if len(outcome) > 80 {
			outcome = outcome[:80]
		}
	}
	return
}

func TestZZLadder(t *testing.T) {
	from, _ := strconv.Atoi(os.Getenv("HUNT_FROM"))
	to, _ := strconv.Atoi(os.Getenv("HUNT_TO"))
	sizes := []int{4, 6, 8, 10}
	if os.Getenv("HUNT_BIG") != "" {
		sizes = []int{20, 34}
	}
	for seed := from; seed < to; seed++ {
		r := rand.New(rand.NewSource(int64(seed)))
		w := 2 + r.Intn(2)
		pool := []string{"", "", "a", "b", "c"}
		period := 1 + r.Intn(3)
		// pattern per (level mod period, k)
		pat := make([][]string, period)
		for p := range pat {
			pat[p] = make([]string, w)
			used := map[string]bool{}
			for k := range pat[p] {
				for {
					nm := pool[r.Intn(len(pool))]
					if nm != "" && used[nm] {
						continue
					}
					used[nm] = true
					pat[p][k] = nm
					break
				}
			}
		}
		tn := make([]string, w)
		usedT := map[string]bool{}
		for k := range tn {
			for {
				nm := pool[r.Intn(len(pool))]
				if nm != "" && usedT[nm] {
					continue
				}
				usedT[nm] = true
				tn[k] = nm
				break
			}
		}
		once := r.Intn(4) == 0
		line := fmt.Sprintf("LADDER %d w=%d pat=%q target=%q once=%v ::", seed, w, pat, tn, once)
		for _, n := range sizes {
			names := make([][]string, n+1)
			for i := range names {
				names[i] = pat[i%period]
			}
			// the target takes the top level under its own names: top level outputs must match them
			names[n] = tn
			type res struct {
				e int
				d time.Duration
				o string
			}
			ch := make(chan res, 1)
			go func() {
				e, d, o := lRun(n, w, names, tn, once)
				ch <- res{e, d, o}
			}()
			select {
			case x := <-ch:
				line += fmt.Sprintf(" n=%d:%d(%s,%v)", n, x.e, x.o, x.d.Round(time.Millisecond))
			case <-time.After(120 * time.Second):
				line += fmt.Sprintf(" n=%d:TIMEOUT", n)
				fmt.Println(line)
				goto next
			}
		}
		fmt.Println(line)
	next:
	}
}
