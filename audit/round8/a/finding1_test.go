// Finding 1 (relates to fix commit aca4228): the converter that takes the
// preferred name explicitly loses against a type-only converter when the
// supplied value of that name carries a subtype and the name is an INHERITED
// (outer) one.
//
// Copy to the root of the library (package argmapper) and run:
//
//	cd /tmp/hunt8/a/wt && cp ../out/finding1_test.go . && go test -count=1 -run 'TestFinding1$' .
//
// FAILS at HEAD (aca4228): y is executed in every call (in larger converter
// sets the two tie and the choice follows map order). PASSES on the tree at
// d0d2149 and at 41a11f2: xA is executed in every call.
package argmapper

import "testing"

type f1S string
type f1T1 string
type f1T2 string

func TestFinding1(t *testing.T) {
	target := func(in struct {
		Struct
		A f1T2
	}) string {
		return string(in.A)
	}
	// h makes the target's parameter a; its named input m must be converted,
	// its type-only input x is fed by the supplied value directly (that is
	// the cheaper way into h, so m is resolved in a nested search under the
	// names [a m]).
	h := func(in struct {
		Struct
		M f1T1
		X f1S `argmapper:",typeOnly"`
	}) f1T2 {
		return f1T2("h(" + string(in.M) + "," + string(in.X) + ")")
	}
	// xA takes the preferred name a explicitly, y is type-only.
	xA := func(in struct {
		Struct
		A f1S
	}) f1T1 {
		return f1T1("xA(" + string(in.A) + ")")
	}
	y := func(s f1S) f1T1 { return f1T1("y(" + string(s) + ")") }

	f, err := NewFunc(target)
	if err != nil {
		t.Fatal(err)
	}
	got := map[string]int{}
	for i := 0; i < 300; i++ {
		r := f.Call(NamedSubtype("a", f1S("a"), "s"), Converter(h, xA, y))
		if r.Err() != nil {
			t.Fatal(r.Err())
		}
		got[r.Out(0).(string)]++
	}
	if len(got) != 1 || got["h(xA(a),a)"] != 300 {
		t.Fatalf("want h(xA(a),a) in 300 of 300 calls (as at d0d2149 and 41a11f2), got %v", got)
	}

	// Control: without the subtype the named converter does win.
	for i := 0; i < 100; i++ {
		r := f.Call(Named("a", f1S("a")), Converter(h, xA, y))
		if r.Err() != nil || r.Out(0).(string) != "h(xA(a),a)" {
			t.Fatalf("control: %v %v", r.Out(0), r.Err())
		}
	}
}
