// Finding 2 (relates to fix commit aca4228, low severity): "the nearest name
// decides" stops holding five levels out. The discount for an inherited name
// is weightInheritedName + rank - 1 capped at weightTyped - 1, so the names at
// distance 4 and at distance >= 5 get the same weight (4) and tie: the choice
// between their values follows map order.
//
// Copy to the root of the library (package argmapper) and run:
//
//	cd /tmp/hunt8/a/wt && cp ../out/finding2_test.go . && go test -count=1 -run 'TestFinding2$' .
//
// FAILS at HEAD: about one third of the calls convert the value named a (the
// outermost name, distance 5) instead of the one named k5 (distance 4).
// (d0d2149 and 41a11f2 are nondeterministic here as well; this is an
// incompleteness of the fix, not a regression.)
package argmapper

import "testing"

type f2S string
type f2T1 string
type f2T2 string
type f2T3 string
type f2T4 string
type f2T5 string
type f2T6 string

func TestFinding2(t *testing.T) {
	y := func(s f2S) f2T1 { return f2T1("y(" + string(s) + ")") }
	h1 := func(in struct {
		Struct
		K1 f2T1
		X  f2S `argmapper:",typeOnly"`
	}) f2T2 {
		return f2T2(in.K1)
	}
	h2 := func(in struct {
		Struct
		K2 f2T2
		X  f2S `argmapper:",typeOnly"`
	}) f2T3 {
		return f2T3(in.K2)
	}
	h3 := func(in struct {
		Struct
		K3 f2T3
		X  f2S `argmapper:",typeOnly"`
	}) f2T4 {
		return f2T4(in.K3)
	}
	h4 := func(in struct {
		Struct
		K4 f2T4
		X  f2S `argmapper:",typeOnly"`
	}) f2T5 {
		return f2T5(in.K4)
	}
	h5 := func(in struct {
		Struct
		K5 f2T5
		X  f2S `argmapper:",typeOnly"`
	}) f2T6 {
		return f2T6(in.K5)
	}
	f, err := NewFunc(func(in struct {
		Struct
		A f2T6
	}) string {
		return string(in.A)
	})
	if err != nil {
		t.Fatal(err)
	}

	// Names being produced when y's input is searched: [a k5 k4 k3 k2 k1].
	// Supplied: a (distance 5), k5 (distance 4) and an unrelated z.
	got := map[string]int{}
	for i := 0; i < 300; i++ {
		r := f.Call(Named("a", f2S("a")), Named("k5", f2S("k5")), Named("z", f2S("z")),
			Converter(y, h1, h2, h3, h4, h5))
		if r.Err() != nil {
			t.Fatal(r.Err())
		}
		got[r.Out(0).(string)]++
	}
	if len(got) != 1 || got["y(k5)"] != 300 {
		t.Fatalf("want y(k5) (the nearest supplied name) in 300 of 300 calls, got %v", got)
	}
}
