// Package defects holds one plain Go test per genuine defect (D1..D12 in
// DESIGN.md §6) that the generated checks surfaced on the pinned tree. Every
// test uses only the public API (and internal/graph) and bypasses rapid: it is
// the "shrunk failure turned into a plain regression check". Each fails on the
// pinned tree and passes once the corresponding "fix:" commit is applied.
package defects

import (
	"errors"
	"fmt"
	"reflect"
	"sync"
	"sync/atomic"
	"testing"
	"time"

	"github.com/hashicorp/go-argmapper"
	"github.com/hashicorp/go-argmapper/internal/graph"
	"github.com/hashicorp/go-hclog"
)

type T0 struct{ K int }
type T1 struct{ K int }
type T2 struct{ K int }
type T3 struct{ K int }
type T4 struct{ K int }

func quiet() argmapper.Arg { return argmapper.Logger(hclog.NewNullLogger()) }

// call runs f.Call and converts a panic into an error string.
func call(f *argmapper.Func, args ...argmapper.Arg) (res argmapper.Result, panicked interface{}) {
	defer func() { panicked = recover() }()
	res = f.Call(append(args, quiet())...)
	return
}

// D1 (C01, C02, C13): a subtype-less named parameter is fed from a value with
// a different name (because that value carries a subtype).
func TestD1_NamedNoSubtypeTakesOtherName(t *testing.T) {
	var got *T4
	f := argmapper.MustFunc(argmapper.NewFunc(func(in struct {
		argmapper.Struct
		C T4
	}) {
		v := in.C
		got = &v
	}))
	res, p := call(f, argmapper.NamedSubtype("a", T4{K: 7}, "t"))
	if p != nil {
		t.Fatalf("panic: %v", p)
	}
	if got != nil {
		t.Fatalf("parameter named c received value named a (K=%d); err=%v", got.K, res.Err())
	}
	if res.Err() == nil {
		t.Fatalf("expected an error")
	}
}

// D2 (C06, C05): panic "didn't reach a final value".
func TestD2_FinalValuePanic(t *testing.T) {
	conv := func(in struct {
		argmapper.Struct
		C T1 `argmapper:",subtype=t"`
	}) T2 {
		return T2{K: in.C.K + 1}
	}
	target := argmapper.MustFunc(argmapper.NewFunc(func(in struct {
		argmapper.Struct
		X T1 `argmapper:",typeOnly,subtype=t"`
	}) int {
		return in.X.K
	}))
	// Try repeatedly: the route depends on map order.
	for i := 0; i < 200; i++ {
		_, p := call(target, argmapper.Typed(T1{K: 5}), argmapper.Converter(conv))
		if p != nil {
			t.Fatalf("panic on iteration %d: %v", i, p)
		}
	}
}

// D3 (C06, C02): mutually recursive multi-input converters overflow the stack.
// The overflow is fatal, so this test is only meaningful in a child process;
// here it is guarded by a recursion counter inside the converter bodies — the
// bodies are never run in the defect (the recursion is inside reachTarget), so
// instead we bound the damage with debug.SetMaxStack in TestMain.
func TestD3_MutualRecursion(t *testing.T) {
	if testing.Short() {
		t.Skip("fatal on the unrepaired tree")
	}
	convA := func(a T0, b T1) T2 { return T2{} }
	convB := func(a T0, c T2) T1 { return T1{} }
	target := argmapper.MustFunc(argmapper.NewFunc(func(c T2) int { return c.K }))
	res, p := call(target, argmapper.Typed(T0{K: 1}), argmapper.Converter(convA, convB))
	if p != nil {
		t.Fatalf("panic: %v", p)
	}
	if res.Err() == nil {
		t.Fatalf("expected an error: T2 is not derivable")
	}
	var ua *argmapper.ErrArgumentUnsatisfied
	if !errors.As(res.Err(), &ua) {
		t.Fatalf("expected ErrArgumentUnsatisfied, got %T", res.Err())
	}
}

// D4 (C06): positional parameters repeating a type.
func TestD4_RepeatedPositionalType(t *testing.T) {
	f := argmapper.MustFunc(argmapper.NewFunc(func(a, b T0) int { return a.K + b.K }))
	res, p := call(f, argmapper.Typed(T0{K: 2}))
	if p != nil {
		t.Fatalf("panic: %v", p)
	}
	if res.Err() != nil {
		t.Fatalf("err: %v", res.Err())
	}
	if res.Out(0).(int) != 4 {
		t.Fatalf("got %v", res.Out(0))
	}
	// Results repeating a type.
	g := argmapper.MustFunc(argmapper.NewFunc(func() (T0, T0) { return T0{1}, T0{2} }))
	res, p = call(g)
	if p != nil {
		t.Fatalf("panic: %v", p)
	}
	if res.Len() != 2 {
		t.Fatalf("len %d", res.Len())
	}
	// As a converter.
	h := argmapper.MustFunc(argmapper.NewFunc(func(a T0) int { return a.K }))
	res, p = call(h, argmapper.ConverterFunc(g))
	if p != nil {
		t.Fatalf("panic: %v", p)
	}
	if res.Err() != nil {
		t.Fatalf("err: %v", res.Err())
	}
}

// D5 (C06): a converter generator reporting an error.
func TestD5_GeneratorError(t *testing.T) {
	f := argmapper.MustFunc(argmapper.NewFunc(func(a T0) int { return a.K }))
	boom := errors.New("boom")
	res, p := call(f, argmapper.Typed(T0{K: 2}), argmapper.ConverterGen(func(argmapper.Value) (*argmapper.Func, error) {
		return nil, boom
	}))
	if p != nil {
		t.Fatalf("panic: %v", p)
	}
	if res.Err() == nil {
		t.Fatalf("generator error was swallowed")
	}
}

// D6 (C06): nil function / nil converter.
func TestD6_NilFunction(t *testing.T) {
	func() {
		defer func() {
			if p := recover(); p != nil {
				t.Fatalf("NewFunc(nil) panic: %v", p)
			}
		}()
		if _, err := argmapper.NewFunc(nil); err == nil {
			t.Fatalf("NewFunc(nil) returned no error")
		}
	}()
	f := argmapper.MustFunc(argmapper.NewFunc(func(a T0) int { return a.K }))
	res, p := call(f, argmapper.Typed(T0{K: 2}), argmapper.Converter(nil))
	if p != nil {
		t.Fatalf("Converter(nil) panic: %v", p)
	}
	if res.Err() == nil {
		t.Fatalf("Converter(nil) was accepted silently")
	}
}

// D7 (C11): a run-once converter first used by several goroutines at once.
func TestD7_OnceConcurrent(t *testing.T) {
	for round := 0; round < 50; round++ {
		var n int32
		once := argmapper.MustFunc(argmapper.NewFunc(func(a T0) T1 {
			atomic.AddInt32(&n, 1)
			for i := 0; i < 1000; i++ {
				_ = fmt.Sprint(i)
			}
			return T1{K: a.K}
		}, argmapper.FuncOnce()))
		target := argmapper.MustFunc(argmapper.NewFunc(func(b T1) int { return b.K }))
		var wg sync.WaitGroup
		start := make(chan struct{})
		for i := 0; i < 8; i++ {
			wg.Add(1)
			go func() {
				defer wg.Done()
				<-start
				target.Call(argmapper.Typed(T0{K: 1}), argmapper.ConverterFunc(once), quiet())
			}()
		}
		close(start)
		wg.Wait()
		if c := atomic.LoadInt32(&n); c != 1 {
			t.Fatalf("run-once body executed %d times (round %d)", c, round)
		}
	}
}

// D8 (C12): one NamedSubtype option value applied by two goroutines (needs
// -race to be observable; without -race this test only exercises the path).
func TestD8_SharedNamedSubtypeOption(t *testing.T) {
	target := argmapper.MustFunc(argmapper.NewFunc(func(in struct {
		argmapper.Struct
		A T0 `argmapper:",subtype=s"`
	}) int {
		return in.A.K
	}))
	opt := argmapper.NamedSubtype("A", T0{K: 3}, "s")
	var wg sync.WaitGroup
	for i := 0; i < 4; i++ {
		wg.Add(1)
		go func() {
			defer wg.Done()
			for j := 0; j < 50; j++ {
				res := target.Call(opt, quiet())
				if res.Err() != nil {
					t.Errorf("err: %v", res.Err())
					return
				}
			}
		}()
	}
	wg.Wait()
}

// D9 (C08): Redefine lists a converter intermediate as an input.
func TestD9_RedefineIntermediate(t *testing.T) {
	target := argmapper.MustFunc(argmapper.NewFunc(func(c T2) int { return c.K }))
	for i := 0; i < 50; i++ {
		rf, err := target.Redefine(
			argmapper.Converter(func(a T0) T1 { return T1{a.K} }, func(b T1) T2 { return T2{b.K} }),
			argmapper.FilterInput(argmapper.FilterType(reflect.TypeOf(T0{}))),
			quiet(),
		)
		if err != nil {
			t.Fatalf("redefine: %v", err)
		}
		for _, v := range rf.Input().Values() {
			if v.Type != reflect.TypeOf(T0{}) {
				t.Fatalf("redefined function demands %s, which the filter rejects", v.String())
			}
		}
	}
}

// D10 (C08): Redefine demands again a type-only value the caller supplied.
func TestD10_RedefineSuppliedTyped(t *testing.T) {
	target := argmapper.MustFunc(argmapper.NewFunc(func(c T3, d T0) int { return c.K + d.K }))
	rf, err := target.Redefine(argmapper.Typed(T3{K: 9}), quiet())
	if err != nil {
		t.Fatalf("redefine: %v", err)
	}
	for _, v := range rf.Input().Values() {
		if v.Type == reflect.TypeOf(T3{}) {
			t.Fatalf("redefined function demands %s although it was supplied", v.String())
		}
	}
	res := rf.Call(argmapper.Typed(T0{K: 1}), quiet())
	if res.Err() != nil {
		t.Fatalf("call: %v", res.Err())
	}
	if res.Out(0).(int) != 10 {
		t.Fatalf("got %v want 10", res.Out(0))
	}
}

// D11 (C11, C06): a run-once converter returning a pointer struct, used twice.
func TestD11_OncePointerStruct(t *testing.T) {
	type out struct {
		argmapper.Struct
		B T1
	}
	once := argmapper.MustFunc(argmapper.NewFunc(func(a T0) *out {
		return &out{B: T1{K: a.K}}
	}, argmapper.FuncOnce()))
	target := argmapper.MustFunc(argmapper.NewFunc(func(in struct {
		argmapper.Struct
		B T1
	}) int {
		return in.B.K
	}))
	for i := 0; i < 3; i++ {
		res, p := call(target, argmapper.Typed(T0{K: 4}), argmapper.ConverterFunc(once))
		if p != nil {
			t.Fatalf("use %d: panic: %v", i, p)
		}
		if res.Err() != nil {
			t.Fatalf("use %d: %v", i, res.Err())
		}
		if res.Out(0).(int) != 4 {
			t.Fatalf("use %d: got %v", i, res.Out(0))
		}
	}
}

// D12 (C19): a reversed view of a never-initialised graph does not share state.
func TestD12_ReverseZeroGraph(t *testing.T) {
	var g graph.Graph
	r := g.Reverse()
	r.Add(1)
	if len(g.Vertices()) != 1 {
		t.Fatalf("vertex added through the reversed view is not visible in the original")
	}
}

// D13 (C06): Redefine panics (reflect.StructOf: duplicate field) when the
// inputs it discovers include one name under two different types.
func TestD13_RedefineDuplicateName(t *testing.T) {
	target := argmapper.MustFunc(argmapper.NewFunc(func(in struct {
		argmapper.Struct
		B T0
		X T1 `argmapper:",typeOnly"`
	}) int {
		return in.B.K + in.X.K
	}))
	conv := func(in struct {
		argmapper.Struct
		B T2
	}) T1 {
		return T1{K: in.B.K}
	}
	var rf *argmapper.Func
	var err error
	func() {
		defer func() {
			if p := recover(); p != nil {
				t.Fatalf("Redefine panicked: %v", p)
			}
		}()
		rf, err = target.Redefine(argmapper.Converter(conv), quiet(),
			argmapper.FilterInput(argmapper.FilterOr(
				argmapper.FilterType(reflect.TypeOf(T0{})),
				argmapper.FilterType(reflect.TypeOf(T2{})))))
	}()
	if err == nil {
		// If it succeeds, the function must be callable with its declared inputs.
		if rf == nil {
			t.Fatalf("nil func and nil error")
		}
	}
}

// D14 (C03, C05): a named parameter with an exactly matching supplied value is
// nevertheless produced by conversion, because the same-name discount makes the
// chain a:T0/t -> a:T0 -> conv -> a:T5 cheaper than the direct input.
func TestD14_ExactInputLosesToSameNameChain(t *testing.T) {
	convRan := 0
	conv := func(in struct {
		argmapper.Struct
		A T0
	}) struct {
		argmapper.Struct
		A T4
	} {
		convRan++
		return struct {
			argmapper.Struct
			A T4
		}{A: T4{K: 1000 + in.A.K}}
	}
	var got int
	target := argmapper.MustFunc(argmapper.NewFunc(func(in struct {
		argmapper.Struct
		A T4
	}) {
		got = in.A.K
	}))
	for i := 0; i < 200; i++ {
		convRan, got = 0, 0
		res, p := call(target,
			argmapper.Named("a", T4{K: 7}),             // exactly what the target asks for
			argmapper.NamedSubtype("a", T0{K: 1}, "t"), // a same-named value of another type
			argmapper.Converter(conv))
		if p != nil {
			t.Fatalf("panic: %v", p)
		}
		if res.Err() != nil {
			t.Fatalf("iteration %d: %v", i, res.Err())
		}
		if convRan != 0 || got != 7 {
			t.Fatalf("iteration %d: converter executed %d time(s), target received K=%d; want the supplied a=T4{7} without conversion", i, convRan, got)
		}
	}
}

// D15 (C01, C06): graph vertices were identified by the formatted string
// "name/type/subtype", so two different labels could be the same vertex: the
// parameter named "a/string" (subtype "y") received the value supplied under
// the name "a" (subtype "string/y"); with different types Call panicked in
// reflect.Set.
func TestD15_VertexIDCollision(t *testing.T) {
	var got string
	ran := false
	target := argmapper.MustFunc(argmapper.NewFunc(func(in struct {
		argmapper.Struct
		X string `argmapper:"a/string,subtype=y"`
	}) {
		ran = true
		got = in.X
	}))
	res, p := call(target, argmapper.NamedSubtype("a", "WRONG", "string/y"))
	if p != nil {
		t.Fatalf("panic: %v", p)
	}
	if ran {
		t.Fatalf("parameter named \"a/string\" (subtype y) received %q, which was supplied under the name \"a\" (subtype string/y)", got)
	}
	if res.Err() == nil {
		t.Fatalf("expected an unsatisfied-argument error")
	}
	// different types: used to panic "reflect.Set: value of type int is not assignable to type string"
	t2 := argmapper.MustFunc(argmapper.NewFunc(func(in struct {
		argmapper.Struct
		X string `argmapper:"a/int,subtype=y"`
	}) {
	}))
	res, p = call(t2, argmapper.NamedSubtype("a", 5, "string/y"))
	if p != nil {
		t.Fatalf("panic: %v", p)
	}
	if res.Err() == nil {
		t.Fatalf("expected an unsatisfied-argument error")
	}
}

// D16 (C06): Redefine panicked (reflect.StructOf: invalid name) when a named
// input it needs has a name that is not a Go identifier (declared via tag).
func TestD16_RedefineNonIdentifierName(t *testing.T) {
	target := argmapper.MustFunc(argmapper.NewFunc(func(in struct {
		argmapper.Struct
		X string `argmapper:"my-value"`
		Y int    `argmapper:"9lives"`
	}) string {
		return fmt.Sprint(in.X, in.Y)
	}))
	var rf *argmapper.Func
	var err error
	func() {
		defer func() {
			if p := recover(); p != nil {
				t.Fatalf("Redefine panicked: %v", p)
			}
		}()
		rf, err = target.Redefine(quiet())
	}()
	if err != nil {
		t.Fatalf("Redefine: %v", err)
	}
	res, p := call(rf, argmapper.Named("my-value", "v"), argmapper.Named("9lives", 9))
	if p != nil {
		t.Fatalf("panic: %v", p)
	}
	if res.Err() != nil {
		t.Fatalf("calling the redefined function: %v", res.Err())
	}
	if res.Out(0).(string) != "v 9" && res.Out(0).(string) != "v9" {
		t.Fatalf("got %q", res.Out(0))
	}
}

// D17 (C05): on a single-input converter set with a cycle through same-named
// values, a derivable call failed with an unsatisfied-argument error in a few
// percent of runs: the same-name discount makes cycles free, so a path through
// the very function being satisfied (or one waiting further up the stack) ties
// with the direct path and map order picks between them.
func TestD17_TieThroughFunctionInProgress(t *testing.T) {
	type sB1 struct {
		argmapper.Struct
		B T1
	}
	type sB2 struct {
		argmapper.Struct
		B T2
	}
	f1 := func(x T1) sB1 { return sB1{B: x} }                // T1 -> b:T1
	f2 := func(in *sB2) sB1 { return sB1{B: T1{K: in.B.K}} } // b:T2 -> b:T1
	f3 := func(in sB1) (T1, error) { return in.B, nil }      // b:T1 -> T1
	f4 := func(in sB1) sB2 { return sB2{B: T2{K: in.B.K}} }  // b:T1 -> b:T2
	target := argmapper.MustFunc(argmapper.NewFunc(func(in struct {
		argmapper.Struct
		X T2 `argmapper:",typeOnly"`
		B T1
		Y T1 `argmapper:",typeOnly"`
	}) int {
		return in.X.K + in.B.K + in.Y.K
	}))
	for i := 0; i < 3000; i++ {
		res, p := call(target,
			argmapper.Typed(T2{K: 1}),
			argmapper.NamedSubtype("b", T1{K: 2}, "t"),
			argmapper.NamedSubtype("b", T2{K: 3}, "s"),
			argmapper.Converter(f1, f2, f3, f4))
		if p != nil {
			t.Fatalf("iteration %d: panic: %v", i, p)
		}
		if res.Err() != nil {
			t.Fatalf("iteration %d: every parameter is derivable (b:T1 from b:T1/t, T1 through f3) but Call failed: %.300s", i, res.Err())
		}
	}
}

// D18 (C16): NewFuncList dropped its options: defaults given at construction
// never applied.
func TestD18_NewFuncListDefaults(t *testing.T) {
	fs, err := argmapper.NewFuncList([]interface{}{func(a T0) int { return a.K }}, argmapper.Typed(T0{K: 5}))
	if err != nil {
		t.Fatalf("NewFuncList: %v", err)
	}
	res, p := call(fs[0])
	if p != nil {
		t.Fatalf("panic: %v", p)
	}
	if res.Err() != nil {
		t.Fatalf("the default option given to NewFuncList did not apply: %.200s", res.Err())
	}
	if res.Out(0).(int) != 5 {
		t.Fatalf("got %v", res.Out(0))
	}
	// a call option still overrides the default
	res, _ = call(fs[0], argmapper.Typed(T0{K: 9}))
	if res.Err() != nil || res.Out(0).(int) != 9 {
		t.Fatalf("override: err=%v", res.Err())
	}
}

// D19 (C06, C15): BuildFunc documents a nil input/output set as "no values",
// but calling a function built with a nil input set panicked (index out of
// range in FromSignature).
func TestD19_BuildFuncNilInput(t *testing.T) {
	out, err := argmapper.NewValueSet([]argmapper.Value{{Name: "x", Type: reflect.TypeOf(0)}})
	if err != nil {
		t.Fatal(err)
	}
	called := 0
	bf, err := argmapper.BuildFunc(nil, out, func(in, o *argmapper.ValueSet) error {
		called++
		if in == nil {
			return fmt.Errorf("callback received a nil input set")
		}
		o.Named("x").Value = reflect.ValueOf(7)
		return nil
	})
	if err != nil {
		t.Fatalf("BuildFunc: %v", err)
	}
	res, p := call(bf)
	if p != nil {
		t.Fatalf("calling a function built with a nil input set panicked: %v", p)
	}
	if res.Err() != nil {
		t.Fatalf("err: %v", res.Err())
	}
	if called != 1 {
		t.Fatalf("callback ran %d times", called)
	}
	// and as a provider for another function
	target := argmapper.MustFunc(argmapper.NewFunc(func(in struct {
		argmapper.Struct
		X int
	}) int {
		return in.X
	}))
	res, p = call(target, argmapper.ConverterFunc(bf))
	if p != nil {
		t.Fatalf("panic: %v", p)
	}
	if res.Err() != nil || res.Out(0).(int) != 7 {
		t.Fatalf("as provider: err=%v", res.Err())
	}
}

// D20 (C18, C20): Dijkstra kept distances in an int32 although edge weights and
// the returned distances are int: a weight or path sum of 2^31 or more was
// truncated, so reachable vertices got a wrong (even negative) distance and a
// wrong predecessor, and the result disagreed with TopoShortestPath.
func TestD20_DijkstraDistancesBeyond32Bits(t *testing.T) {
	if int64(int(1)<<40) != int64(1)<<40 {
		t.Skip("int is 32 bits wide here")
	}
	var g graph.Graph
	for i := 0; i < 4; i++ {
		g.Add(i)
	}
	big := int(1) << 31
	// 0 -> 1 directly costs 2^31+10; via 2 it costs 2^31; via 3 it costs 2*(2^31)
	g.AddEdgeWeighted(0, 1, big+10)
	g.AddEdgeWeighted(0, 2, big-5)
	g.AddEdgeWeighted(2, 1, 5)
	g.AddEdgeWeighted(0, 3, big)
	g.AddEdgeWeighted(3, 1, big)
	distTo, edgeTo := g.Dijkstra(0)
	want := map[int]int{0: 0, 1: big, 2: big - 5, 3: big}
	for v, w := range want {
		if distTo[v] != w {
			t.Errorf("distance to %d is %d, want %d", v, distTo[v], w)
		}
	}
	path := g.EdgeToPath(1, edgeTo)
	if len(path) != 3 || path[0] != 0 || path[1] != 2 || path[2] != 1 {
		t.Errorf("path to 1 is %v, want [0 2 1]", path)
	}
	tdist, _ := g.TopoShortestPath(g.KahnSort())
	for v, w := range want {
		if v != 0 && tdist[v] != w {
			t.Errorf("TopoShortestPath distance to %d is %d, want %d", v, tdist[v], w)
		}
	}
}

// D21 (C15): NewValueSet used the upper-cased value name as the Go field name
// of the struct it assembles; a value name that is not a Go identifier (any
// name a struct tag or Named() can carry, e.g. "my-value") made
// reflect.StructOf panic instead of yielding the value set.
func TestD21_NewValueSetWithNonIdentifierNames(t *testing.T) {
	for _, name := range []string{"my-value", "9lives", "a/b", "two words", "x.y", `q"r`} {
		name := name
		t.Run(name, func(t *testing.T) {
			var vs *argmapper.ValueSet
			var err error
			func() {
				defer func() {
					if r := recover(); r != nil {
						t.Fatalf("NewValueSet panicked: %v", r)
					}
				}()
				vs, err = argmapper.NewValueSet([]argmapper.Value{
					{Name: name, Type: reflect.TypeOf(0), Subtype: "s"},
					{Name: "", Type: reflect.TypeOf("")},
				})
			}()
			if err != nil {
				t.Fatalf("NewValueSet: %v", err)
			}
			vals := vs.Values()
			if len(vals) != 2 || vals[0].Name != name || vals[0].Subtype != "s" || vals[0].Type != reflect.TypeOf(0) {
				t.Fatalf("values reported back: %+v", vals)
			}
			if vs.Named(name) == nil {
				t.Fatalf("Named(%q) finds nothing", name)
			}
			// and a function built over the set receives the value
			got := 0
			f, err := argmapper.BuildFunc(vs, nil, func(in, out *argmapper.ValueSet) error {
				got = int(in.Named(name).Value.Int())
				return nil
			})
			if err != nil {
				t.Fatalf("BuildFunc: %v", err)
			}
			res, p := call(f, argmapper.NamedSubtype(name, 42, "s"), argmapper.Typed("x"))
			if p != nil {
				t.Fatalf("panic: %v", p)
			}
			if res.Err() != nil || got != 42 {
				t.Fatalf("built function: err=%v got=%d", res.Err(), got)
			}
		})
	}
}

// D22 (C15, C14): a function whose result is a POINTER to a marker struct is
// documented as equivalent to the struct form, but Output().FromResult(result)
// handed the pointer to reflect's Field and panicked.
type d22Out struct {
	argmapper.Struct
	A int
	B string `argmapper:",typeOnly"`
}

func TestD22_FromResultOnPointerStructOutput(t *testing.T) {
	f := argmapper.MustFunc(argmapper.NewFunc(func(n int) *d22Out {
		if n < 0 {
			return nil
		}
		return &d22Out{A: n, B: "b"}
	}))
	for _, n := range []int{7, -1} {
		res, p := call(f, argmapper.Typed(n))
		if p != nil || res.Err() != nil {
			t.Fatalf("call: %v %v", p, res.Err())
		}
		var err error
		func() {
			defer func() {
				if r := recover(); r != nil {
					t.Fatalf("FromResult panicked: %v", r)
				}
			}()
			err = f.Output().FromResult(res)
		}()
		if err != nil {
			t.Fatalf("FromResult: %v", err)
		}
		want := n
		if n < 0 {
			want = 0 // a nil pointer result is equivalent to zero values
		}
		if got := f.Output().Named("a").Value.Int(); int(got) != want {
			t.Fatalf("a = %d, want %d", got, want)
		}
	}
}

// D23 (C06, C14): isStruct strips pointers with `for t.Kind() == Ptr { t =
// t.Elem() }`. For a self-referential pointer type (legal Go: `type P *P`,
// or `type A *B; type B *A`) Elem() never leaves the cycle, so NewFunc,
// NewValueSet, Call and Convert spun forever.
type d23P *d23P
type d23A *d23B
type d23B *d23A

func TestD23_SelfReferentialPointerTypeTerminates(t *testing.T) {
	returns := func(name string, fn func()) {
		t.Helper()
		done := make(chan struct{})
		go func() {
			defer close(done)
			defer func() { recover() }()
			fn()
		}()
		select {
		case <-done:
		case <-time.After(3 * time.Second):
			t.Errorf("%s did not return within 3s", name)
		}
	}
	var p d23P
	p = d23P(&p)
	returns("NewFunc(func(P) int) + Call", func() {
		f, err := argmapper.NewFunc(func(p d23P) int { return 1 })
		if err != nil {
			return
		}
		res := f.Call(argmapper.Typed(p))
		if res.Err() != nil || res.Out(0).(int) != 1 {
			t.Errorf("call over a recursive pointer type: %v", res.Err())
		}
	})
	returns("NewFunc(func() A)", func() { _, _ = argmapper.NewFunc(func() d23A { return nil }) })
	returns("NewValueSet", func() {
		_, _ = argmapper.NewValueSet([]argmapper.Value{{Name: "p", Type: reflect.TypeOf(p)}})
	})
	returns("Convert", func() {
		v, err := argmapper.Convert(reflect.TypeOf(p), argmapper.Typed(p))
		if err != nil || v == nil {
			t.Errorf("Convert(P, Typed(P)): %v", err)
		}
	})
}

// D24 (C06, C12): callGraph passed g.String() as an ARGUMENT of log.Trace, so
// the whole graph -- including fmt's "%v" of every type-only input value --
// was rendered on every Call, Convert and Redefine even with logging off.
// A value that contains itself made fmt recurse until the process died with a
// fatal stack overflow; a shared object that the called functions update under
// their own lock was read by the library without it (data race).
func TestD24_ValuesAreNotPrintedWhenNotTracing(t *testing.T) {
	// fmt's %v of this value panics: it must not be rendered at all.
	f := argmapper.MustFunc(argmapper.NewFunc(func(v *d24Unprintable) int { return v.n }))
	res, p := call(f, argmapper.Typed(&d24Unprintable{n: 7}))
	if p != nil {
		t.Fatalf("panic: %v", p)
	}
	if res.Err() != nil || res.Out(0).(int) != 7 {
		t.Fatalf("err=%v", res.Err())
	}
	if n := atomic.LoadInt64(&d24Printed); n != 0 {
		t.Fatalf("the supplied value was formatted %d time(s) although trace logging is off", n)
	}
	if _, err := argmapper.Convert(reflect.TypeOf(&d24Unprintable{}), argmapper.Typed(&d24Unprintable{}), argmapper.Logger(hclog.NewNullLogger())); err != nil {
		t.Fatalf("Convert: %v", err)
	}
	if _, err := f.Redefine(argmapper.Typed(&d24Unprintable{}), argmapper.Logger(hclog.NewNullLogger())); err != nil {
		t.Fatalf("Redefine: %v", err)
	}
	if n := atomic.LoadInt64(&d24Printed); n != 0 {
		t.Fatalf("the supplied value was formatted %d time(s) although trace logging is off", n)
	}
}

var d24Printed int64

type d24Unprintable struct{ n int }

func (v *d24Unprintable) String() string {
	atomic.AddInt64(&d24Printed, 1)
	return "d24"
}

// D25 (C19): AddEdge is documented as "Both v1 and v2 must already be in the
// Graph via Add or this will do nothing". With a missing tail it panicked
// (assignment to entry in nil map); with only the head missing it wrote the
// out-edge first and then panicked, leaving half an edge behind.
func TestD25_AddEdgeWithMissingEndpointDoesNothing(t *testing.T) {
	try := func(name string, prep func(g *graph.Graph), from, to int) {
		var g graph.Graph
		prep(&g)
		func() {
			defer func() {
				if r := recover(); r != nil {
					t.Errorf("%s: AddEdge panicked: %v", name, r)
				}
			}()
			g.AddEdge(from, to)
		}()
		g.Add(1)
		g.Add(2)
		if out := g.OutEdges(from); len(out) != 0 {
			t.Errorf("%s: OutEdges(%d) = %v, want none", name, from, out)
		}
		if in := g.InEdges(to); len(in) != 0 {
			t.Errorf("%s: InEdges(%d) = %v, want none", name, to, in)
		}
	}
	try("both missing", func(g *graph.Graph) {}, 1, 2)
	try("tail missing", func(g *graph.Graph) { g.Add(2) }, 1, 2)
	try("head missing", func(g *graph.Graph) { g.Add(1) }, 1, 2)
}

// D26 (C20): "Vertex can be anything", and a vertex implementing
// VertexHashable is identified by its hash code everywhere in the graph --
// except in StronglyConnected/Cycles, which keyed a map by the vertex VALUE and
// compared values with ==: a hash-coded vertex type that is not comparable
// (here: it holds a slice) panicked "hash of unhashable type".
type d26V struct {
	ID   int
	Tags []string
}

func (v d26V) Hashcode() interface{} { return v.ID }

func TestD26_StronglyConnectedWithNonComparableVertices(t *testing.T) {
	var g graph.Graph
	vs := make([]d26V, 5)
	for i := range vs {
		vs[i] = d26V{ID: i, Tags: []string{"x"}}
		g.Add(vs[i])
	}
	// 0 -> 1 -> 2 -> 0 is a cycle, 3 -> 4 is not
	g.AddEdge(vs[0], vs[1])
	g.AddEdge(vs[1], vs[2])
	g.AddEdge(vs[2], vs[0])
	g.AddEdge(vs[3], vs[4])
	var sccs [][]graph.Vertex
	func() {
		defer func() {
			if r := recover(); r != nil {
				t.Fatalf("StronglyConnected panicked: %v", r)
			}
		}()
		sccs = g.StronglyConnected()
	}()
	sizes := map[int]int{}
	for _, c := range sccs {
		sizes[len(c)]++
	}
	if len(sccs) != 3 || sizes[3] != 1 || sizes[1] != 2 {
		t.Fatalf("components: %v", sccs)
	}
	if c := g.Cycles(); len(c) != 1 || len(c[0]) != 3 {
		t.Fatalf("cycles: %v", c)
	}
}

// D27 (C18): the relaxation step added the edge weight to the distance without
// regard for overflow. With weights close to the largest int a detour whose sum
// wraps around came out negative and beat the true shortest path: a reachable
// vertex whose real distance is representable got a negative distance and a
// wrong predecessor. (The same wrap-around used to leave garbage distances on
// unreachable vertices.)
func TestD27_DijkstraPathSumOverflow(t *testing.T) {
	const maxInt = int(^uint(0) >> 1)
	var g graph.Graph
	for i := 0; i < 5; i++ {
		g.Add(i)
	}
	// 0 -> 1 -> 2 wraps around (maxInt-1 + 2); 0 -> 3 -> 2 is the real shortest path
	g.AddEdgeWeighted(0, 1, maxInt-1)
	g.AddEdgeWeighted(1, 2, 2)
	g.AddEdgeWeighted(0, 3, maxInt-1)
	g.AddEdgeWeighted(3, 2, 0)
	// vertex 4 is unreachable, 4 -> 2 must not matter
	g.AddEdgeWeighted(4, 2, 1)
	distTo, edgeTo := g.Dijkstra(0)
	if distTo[2] != maxInt-1 {
		t.Errorf("distance to 2 is %d, want %d", distTo[2], maxInt-1)
	}
	path := g.EdgeToPath(2, edgeTo)
	if len(path) != 3 || path[0] != 0 || path[1] != 3 || path[2] != 2 {
		t.Errorf("path to 2 is %v, want [0 3 2]", path)
	}
	if distTo[1] != maxInt-1 || distTo[3] != maxInt-1 {
		t.Errorf("distances to 1 and 3: %d %d", distTo[1], distTo[3])
	}
	if edgeTo[4] != nil {
		t.Errorf("unreachable vertex 4 has predecessor %v", edgeTo[4])
	}
}

// D28 (C08, C16): options given at construction apply to later operations
// unless overridden. Redefine honoured a default FilterInput but ignored a
// default FilterOutput: redefineOutputs built its options without the
// function's defaults.
func TestD28_RedefineHonoursDefaultFilterOutput(t *testing.T) {
	onlyStrings := argmapper.FilterType(reflect.TypeOf(""))
	fn := func(a int) int { return a }
	// given to Redefine directly: rejected
	f1 := argmapper.MustFunc(argmapper.NewFunc(fn))
	if _, err := f1.Redefine(argmapper.FilterOutput(onlyStrings)); err == nil {
		t.Fatalf("control: Redefine accepted an output the filter rejects")
	}
	// given as a default of the function: must be rejected as well
	f2 := argmapper.MustFunc(argmapper.NewFunc(fn, argmapper.FilterOutput(onlyStrings)))
	if _, err := f2.Redefine(); err == nil {
		t.Fatalf("Redefine ignored the function's default FilterOutput")
	}
	// a filter given to Redefine overrides the default
	if _, err := f2.Redefine(argmapper.FilterOutput(argmapper.FilterType(reflect.TypeOf(0)))); err != nil {
		t.Fatalf("a FilterOutput given to Redefine must override the default: %v", err)
	}
}

// D31 (C08): a redefined function yields the original function's own results.
// When the original returned values NEXT TO a non-nil error -- (n, io.EOF) is
// ordinary Go -- the wrapper mistook that for a failed call and returned zero
// values with the error.
func TestD31_RedefinedFunctionKeepsResultsNextToAnError(t *testing.T) {
	eof := errors.New("short read")
	orig := argmapper.MustFunc(argmapper.NewFunc(func(a int) (int, string, error) { return a * 2, "partial", eof }))
	direct := orig.Call(argmapper.Typed(21))
	if direct.Err() != eof || direct.Out(0).(int) != 42 || direct.Out(1).(string) != "partial" {
		t.Fatalf("control: direct call gives %v %v %v", direct.Out(0), direct.Out(1), direct.Err())
	}
	red, err := orig.Redefine()
	if err != nil {
		t.Fatal(err)
	}
	res, p := call(red, argmapper.Typed(21))
	if p != nil {
		t.Fatalf("panic: %v", p)
	}
	if res.Err() != eof {
		t.Fatalf("error: %v", res.Err())
	}
	if res.Len() != 2 || res.Out(0).(int) != 42 || res.Out(1).(string) != "partial" {
		t.Fatalf("redefined function returned (%v, %v) next to the error, the original returns (42, partial)", res.Out(0), res.Out(1))
	}
	// a call that fails to resolve still has no results, only the error
	res, _ = call(red)
	if res.Err() == nil || res.Len() != 0 {
		t.Fatalf("unresolved call: len=%d err=%v", res.Len(), res.Err())
	}
}

// D27b (C05, found by C09 and C05 right after D27's repair): the first version
// of the overflow guard computed maxInt-u.distance, which itself overflows when
// u's distance is negative -- and the library's own call graph uses the weight
// -1 as its same-name discount, so distances of -1 are normal there. Every
// edge leaving such a vertex was skipped and derivable arguments came out
// unsatisfied.
func TestD27b_OverflowGuardWithNegativeDistances(t *testing.T) {
	var g graph.Graph
	for i := 0; i < 3; i++ {
		g.Add(i)
	}
	g.AddEdgeWeighted(0, 1, -1)
	g.AddEdgeWeighted(1, 2, 1)
	distTo, edgeTo := g.Dijkstra(0)
	if distTo[1] != -1 || distTo[2] != 0 {
		t.Errorf("distances: %v", distTo)
	}
	if p := g.EdgeToPath(2, edgeTo); len(p) != 3 {
		t.Errorf("path to 2: %v", p)
	}
	// through the public API: a named parameter converted from a same-named
	// input (the discounted edge) next to a second parameter
	type in struct {
		argmapper.Struct
		B *int
		A string
	}
	target := argmapper.MustFunc(argmapper.NewFunc(func(i in) string { return fmt.Sprint(*i.B, i.A) }))
	conv := func(s struct {
		argmapper.Struct
		B int
	}) struct {
		argmapper.Struct
		B *int
	} {
		return struct {
			argmapper.Struct
			B *int
		}{B: &s.B}
	}
	for i := 0; i < 50; i++ {
		res, p := call(target, argmapper.NamedSubtype("b", 5, "s"), argmapper.Named("a", "x"), argmapper.Converter(conv))
		if p != nil || res.Err() != nil {
			t.Fatalf("iteration %d: %v %v", i, p, res.Err())
		}
	}
}

// D29 (C07): name affinity was lost when the same-named input carries a subtype
// and some (never executed) converter takes that name without subtype. The
// cheapest path then runs supplied a/s -> requirement a -> type-only input of
// the converter; the middle vertex has no value of its own and did not take
// over the one before it, so the converter was fed whatever its type-only
// input still held from another parameter's path (or nothing).
func TestD29_NameAffinityThroughSubtypedInput(t *testing.T) {
	target := argmapper.MustFunc(argmapper.NewFunc(func(in struct {
		argmapper.Struct
		A string
		B string
	}) string {
		return in.A + "," + in.B
	}))
	for i := 0; i < 300; i++ {
		res, p := call(target,
			argmapper.NamedSubtype("a", 1, "s"),
			argmapper.Named("b", 2),
			argmapper.Converter(func(i int) string { return fmt.Sprint(i) }),
			// never executed: it only makes the requirement "a int" exist
			argmapper.Converter(func(in struct {
				argmapper.Struct
				A int
			}) float64 {
				return float64(in.A)
			}),
		)
		if p != nil || res.Err() != nil {
			t.Fatalf("iteration %d: %v %v", i, p, res.Err())
		}
		if got := res.Out(0).(string); got != "1,2" {
			t.Fatalf("iteration %d: A,B = %q, want \"1,2\" (parameter a was converted from the value named b)", i, got)
		}
	}
}

// D30 (C08): a redefined function that declares a NAMED input of an interface
// type could never be satisfied: its wrapper passed the value on with
// Named(name, field.Interface()), i.e. under its dynamic type, and a named
// value only matches a named requirement of exactly its type.
type d30Reader interface{ Read() string }
type d30Buf struct{ s string }

func (b *d30Buf) Read() string { return b.s }

type d30In struct {
	argmapper.Struct
	R d30Reader
}
type d30Out struct {
	argmapper.Struct
	R d30Reader
}

func TestD30_RedefinedFunctionWithNamedInterfaceInput(t *testing.T) {
	orig := argmapper.MustFunc(argmapper.NewFunc(func(in d30In) string { return in.R.Read() }))
	provider := func() d30Out { return d30Out{R: &d30Buf{"x"}} }
	target := argmapper.MustFunc(argmapper.NewFunc(func(s string) string { return s + "!" }))
	// control: with the original function as converter
	res, p := call(target, argmapper.ConverterFunc(orig), argmapper.Converter(provider))
	if p != nil || res.Err() != nil || res.Out(0).(string) != "x!" {
		t.Fatalf("control: %v %v", p, res.Err())
	}
	red, err := orig.Redefine()
	if err != nil {
		t.Fatal(err)
	}
	vs := red.Input().Values()
	if len(vs) != 1 || vs[0].Name != "r" || vs[0].Type != reflect.TypeOf((*d30Reader)(nil)).Elem() {
		t.Fatalf("inputs of the redefined function: %v", vs)
	}
	res, p = call(target, argmapper.ConverterFunc(red), argmapper.Converter(provider))
	if p != nil {
		t.Fatalf("panic: %v", p)
	}
	if res.Err() != nil {
		t.Fatalf("the redefined function was given its only declared input (r, of exactly the declared type) and failed: %v", res.Err())
	}
	if res.Out(0).(string) != "x!" {
		t.Fatalf("got %v", res.Out(0))
	}
}

// D32 (C16): "Any conflicting arguments given on Call will override these
// args. This can be used to provide some initial values, converters, etc."
// The call graph holds one function per Go function type and kept the FIRST
// one it was given; defaults come first, so a converter given at Call could
// never take the place of a default converter with the same signature.
func TestD32_CallConverterOverridesDefaultConverter(t *testing.T) {
	prod := func(i int) string { return "prod" }
	test := func(i int) string { return "test" }
	f := argmapper.MustFunc(argmapper.NewFunc(func(s string) string { return s }, argmapper.Converter(prod)))
	res, p := call(f, argmapper.Typed(7))
	if p != nil || res.Err() != nil || res.Out(0).(string) != "prod" {
		t.Fatalf("default converter alone: %v %v", p, res.Err())
	}
	for i := 0; i < 50; i++ {
		res, p = call(f, argmapper.Typed(7), argmapper.Converter(test))
		if p != nil || res.Err() != nil {
			t.Fatalf("%v %v", p, res.Err())
		}
		if got := res.Out(0).(string); got != "test" {
			t.Fatalf("iteration %d: the converter given at Call was ignored in favour of the default one (got %q)", i, got)
		}
	}
	// the default still applies to the next call without an override
	res, _ = call(f, argmapper.Typed(7))
	if res.Out(0).(string) != "prod" {
		t.Fatalf("default converter afterwards: %v", res.Out(0))
	}
}

// D33 (C07): a value the caller supplied kept its edges to every converter
// that outputs a value with the same name and type. With the same-name
// discount the detour through such a converter is free, so in a good share of
// calls it was run although nobody needed it -- and its output replaced the
// supplied value, which was then not the one converted. The same happened
// when the converter was needed for ANOTHER of its results: outputValues wrote
// all its results into the graph, the supplied value's vertex included.
type d33X int
type d33Src int
type d33Dst string
type d33Seed int
type d33Other int

func TestD33_SuppliedValueIsNotReplacedByAConverterOutput(t *testing.T) {
	conv := func(v d33Src) d33Dst { return d33Dst(fmt.Sprint(int(v))) }
	// (1) a converter nobody needs: makes an "a d33Src" out of an "a d33X"
	t.Run("unneeded detour", func(t *testing.T) {
		target := argmapper.MustFunc(argmapper.NewFunc(func(in struct {
			argmapper.Struct
			A d33Dst
		}) string {
			return string(in.A)
		}))
		p := func(in struct {
			argmapper.Struct
			A d33X
		}) struct {
			argmapper.Struct
			A d33Src
		} {
			return struct {
				argmapper.Struct
				A d33Src
			}{A: 999}
		}
		for i := 0; i < 300; i++ {
			res, pn := call(target, argmapper.Named("a", d33Src(5)), argmapper.Named("b", d33Src(6)),
				argmapper.NamedSubtype("a", d33X(1), "s"), argmapper.Converter(conv, p))
			if pn != nil || res.Err() != nil {
				t.Fatalf("%v %v", pn, res.Err())
			}
			if got := res.Out(0).(string); got != "5" {
				t.Fatalf("iteration %d: parameter a was converted from %s, the supplied value named a is 5", i, got)
			}
		}
	})
	// (2) a converter that IS needed for its other result
	t.Run("by-product of a needed converter", func(t *testing.T) {
		target := argmapper.MustFunc(argmapper.NewFunc(func(in struct {
			argmapper.Struct
			A d33Dst
			C d33Other
		}) string {
			return string(in.A)
		}))
		p := func(s d33Seed) struct {
			argmapper.Struct
			A d33Src
			C d33Other
		} {
			return struct {
				argmapper.Struct
				A d33Src
				C d33Other
			}{A: 999, C: 5}
		}
		for i := 0; i < 300; i++ {
			res, pn := call(target, argmapper.Named("a", d33Src(1)), argmapper.Named("b", d33Src(2)),
				argmapper.Typed(d33Seed(7)), argmapper.Converter(conv, p))
			if pn != nil || res.Err() != nil {
				t.Fatalf("%v %v", pn, res.Err())
			}
			if got := res.Out(0).(string); got != "1" {
				t.Fatalf("iteration %d: parameter a was converted from %s, the supplied value named a is 1", i, got)
			}
		}
	})
}

// D34 (C14): the pointer depth of a marker struct was counted in a uint8 and
// compared with 1 only after the loop: behind 256 or 257 pointers the counter
// had wrapped to 0 or 1 and NewFunc accepted a signature it cannot honour
// (the call then panicked inside reflect).
func TestD34_DeeplyIndirectedMarkerStructIsRejected(t *testing.T) {
	st := reflect.TypeOf(struct {
		argmapper.Struct
		A int
	}{})
	for _, depth := range []int{2, 3, 255, 256, 257, 512, 513} {
		typ := st
		for i := 0; i < depth; i++ {
			typ = reflect.PtrTo(typ)
		}
		fn := reflect.MakeFunc(reflect.FuncOf([]reflect.Type{typ}, nil, false), func([]reflect.Value) []reflect.Value { return nil })
		if _, err := argmapper.NewFunc(fn.Interface()); err == nil {
			t.Errorf("NewFunc accepted a marker struct behind %d pointers", depth)
		}
	}
}

// D35 (C07): name affinity was lost when the only converter is entered through
// another of its inputs. The same-name discount was applied only while the
// target's own named parameter was searched for; the converter's type-only
// input was then resolved by a nested search without any preference, so the
// values named n and m tied and m was converted in ~40% of calls.
type d35Cfg int
type d35Src int
type d35Dst string

func TestD35_NameAffinityThroughMultiInputConverter(t *testing.T) {
	target := argmapper.MustFunc(argmapper.NewFunc(func(in struct {
		argmapper.Struct
		N d35Dst
	}) string {
		return string(in.N)
	}))
	conv := func(in struct {
		argmapper.Struct
		Q d35Cfg
		X d35Src `argmapper:",typeOnly"`
	}) d35Dst {
		return d35Dst(fmt.Sprint(int(in.X)))
	}
	for i := 0; i < 300; i++ {
		res, p := call(target, argmapper.Named("q", d35Cfg(0)), argmapper.Named("n", d35Src(1)), argmapper.Named("m", d35Src(2)), argmapper.Converter(conv))
		if p != nil || res.Err() != nil {
			t.Fatalf("%v %v", p, res.Err())
		}
		if got := res.Out(0).(string); got != "1" {
			t.Fatalf("iteration %d: parameter n was converted from %s, the supplied value named n is 1", i, got)
		}
	}
}

// D38 (C20): KahnSort removed the edges of its working copy with
// RemoveEdge(n, m), handing it hash codes; RemoveEdge hashes its arguments
// again. When a hash code is itself a VertexHashable with another code nothing
// was removed, and an acyclic graph ended in the "graph has cycles" panic.
type d38Key struct{ id int }

func (k d38Key) Hashcode() interface{} { return k.id + 1000 }

type d38V struct{ id int }

func (v *d38V) Hashcode() interface{} { return d38Key{v.id} }

func TestD38_KahnSortWithHashableHashCodes(t *testing.T) {
	var g graph.Graph
	a, b, c := &d38V{1}, &d38V{2}, &d38V{3}
	g.Add(a)
	g.Add(b)
	g.Add(c)
	g.AddEdge(a, b)
	g.AddEdge(b, c)
	var order graph.TopoOrder
	func() {
		defer func() {
			if r := recover(); r != nil {
				t.Fatalf("KahnSort panicked on an acyclic graph: %v", r)
			}
		}()
		order = g.KahnSort()
	}()
	if len(order) != 3 || order[0] != graph.Vertex(a) || order[1] != graph.Vertex(b) || order[2] != graph.Vertex(c) {
		t.Fatalf("order: %v", order)
	}
}

// D36 (C20): TopoShortestPath added weights without regard for overflow (the
// sibling of D27), and a vertex none of whose in-edges could be relaxed was
// treated as a second source at distance 0.
func TestD36_TopoShortestPathOverflow(t *testing.T) {
	const maxInt = int(^uint(0) >> 1)
	var g graph.Graph
	for i := 0; i < 3; i++ {
		g.Add(i)
	}
	// root 0; 0 -> 2 costs 5; the detour 0 -> 1 -> 2 costs maxInt + 1
	g.AddEdgeWeighted(0, 2, 5)
	g.AddEdgeWeighted(0, 1, maxInt)
	g.AddEdgeWeighted(1, 2, 1)
	dist, edgeTo := g.TopoShortestPath(g.KahnSort())
	if dist[2] != 5 {
		t.Errorf("distance to 2 is %d, want 5", dist[2])
	}
	if p := g.EdgeToPath(2, edgeTo); len(p) != 2 || p[0] != 0 {
		t.Errorf("path to 2: %v, want [0 2]", p)
	}
	dd, _ := g.Dijkstra(0)
	if dd[2] != dist[2] {
		t.Errorf("TopoShortestPath says %d, Dijkstra %d", dist[2], dd[2])
	}
}

// D37 (C18): the largest int doubled as "not reached yet" in Dijkstra, so a
// vertex whose true distance is exactly that value was never given a
// predecessor (the relaxation required a strictly smaller distance) and
// EdgeToPath made it look unreachable.
func TestD37_DijkstraDistanceExactlyMaxInt(t *testing.T) {
	const maxInt = int(^uint(0) >> 1)
	var g graph.Graph
	for i := 0; i < 5; i++ {
		g.Add(i)
	}
	g.AddEdgeWeighted(0, 1, maxInt)   // directly at the largest distance
	g.AddEdgeWeighted(0, 2, maxInt-5) // ... and through an intermediate vertex
	g.AddEdgeWeighted(2, 3, 5)
	g.AddEdgeWeighted(3, 4, 0) // and one step further at no cost
	distTo, edgeTo := g.Dijkstra(0)
	for v, want := range map[int][]int{1: {0, 1}, 3: {0, 2, 3}, 4: {0, 2, 3, 4}} {
		if distTo[v] != maxInt {
			t.Errorf("distance to %d is %d, want %d", v, distTo[v], maxInt)
		}
		p := g.EdgeToPath(v, edgeTo)
		if len(p) != len(want) {
			t.Errorf("path to %d is %v, want %v", v, p, want)
			continue
		}
		for i := range p {
			if p[i] != want[i] {
				t.Errorf("path to %d is %v, want %v", v, p, want)
			}
		}
	}
}

// D39 (C15): ValueSet.Args() / Value.Arg() rendered a value of an interface
// type with Named(name, v.Interface()), i.e. under its dynamic type. A named
// value only satisfies a named requirement of exactly its type, so the values
// loaded from one function's result could not be handed to a function that
// takes the very same named, interface-typed value.
type d39Out struct {
	argmapper.Struct
	R d30Reader
}

func TestD39_ArgsKeepInterfaceType(t *testing.T) {
	producer := argmapper.MustFunc(argmapper.NewFunc(func() d39Out { return d39Out{R: &d30Buf{"x"}} }))
	consumer := argmapper.MustFunc(argmapper.NewFunc(func(in d30In) string { return in.R.Read() }))
	out := producer.Output()
	if err := out.FromResult(producer.Call()); err != nil {
		t.Fatal(err)
	}
	res, p := call(consumer, out.Args()...)
	if p != nil {
		t.Fatalf("panic: %v", p)
	}
	if res.Err() != nil {
		t.Fatalf("a function taking the same named interface value, called with Args(): %v", res.Err())
	}
	if res.Out(0).(string) != "x" {
		t.Fatalf("got %v", res.Out(0))
	}
}

// D40 (C08): the wrapper of a redefined function passed its type-only inputs
// on with Typed(field.Interface()), i.e. under their dynamic type. An input
// declared with an interface type I and filled with a D (which implements I)
// became a second type-only D and replaced the D that had been given to
// Redefine.
type d40I interface{ Get() string }
type d40D struct{ S string }

func (d d40D) Get() string { return d.S }

func TestD40_RedefinedFunctionKeepsTheArgumentGivenToRedefine(t *testing.T) {
	f := argmapper.MustFunc(argmapper.NewFunc(func(i d40I, d d40D) string { return "i=" + i.Get() + " d=" + d.S }))
	rf, err := f.Redefine(argmapper.Typed(d40D{S: "given"}))
	if err != nil {
		t.Fatal(err)
	}
	conv := func() d40I { return d40D{S: "input"} }
	for n := 0; n < 30; n++ {
		res, p := call(rf, argmapper.Converter(conv))
		if p != nil || res.Err() != nil {
			t.Fatalf("%v %v", p, res.Err())
		}
		if got := res.Out(0).(string); got != "i=input d=given" && got != "i=given d=given" {
			t.Fatalf("got %q: the argument given to Redefine was replaced by the interface input", got)
		}
	}
}

// D43 (C02, C11): a run-once converter that has already run answered from its
// memo even when one of its arguments could not be derived in the current
// call (with NONE of them available the call was refused, so this was not
// "memoized whatever the arguments"): callDirect returned the cached result
// before its missing-argument guard.
type d43X int
type d43Y int
type d43Z int

func TestD43_MemoizedRunOnceConverterStillNeedsItsArguments(t *testing.T) {
	execs := 0
	conv := argmapper.MustFunc(argmapper.NewFunc(func(x d43X, y d43Y) d43Z { execs++; return d43Z(int(x)*10 + int(y)) }, argmapper.FuncOnce()))
	ran := 0
	target := argmapper.MustFunc(argmapper.NewFunc(func(z d43Z) int { ran++; return int(z) }))
	res, p := call(target, argmapper.Typed(d43X(1)), argmapper.Typed(d43Y(2)), argmapper.ConverterFunc(conv))
	if p != nil || res.Err() != nil || res.Out(0).(int) != 12 {
		t.Fatalf("first call: %v %v", p, res.Err())
	}
	// complete arguments again (other values): the memoized result is used
	res, p = call(target, argmapper.Typed(d43X(5)), argmapper.Typed(d43Y(6)), argmapper.ConverterFunc(conv))
	if p != nil || res.Err() != nil || res.Out(0).(int) != 12 || execs != 1 {
		t.Fatalf("second call: %v %v execs=%d", p, res.Err(), execs)
	}
	// Y is missing: the call must be refused, the target must not run
	before := ran
	res, p = call(target, argmapper.Typed(d43X(1)), argmapper.ConverterFunc(conv))
	if p != nil {
		t.Fatalf("panic: %v", p)
	}
	if res.Err() == nil {
		t.Fatalf("a call whose converter lacks an argument succeeded from the converter's memo (got %v)", res.Out(0))
	}
	if ran != before {
		t.Fatalf("the target was executed")
	}
}

// D41 (C15): a value DECLARED with an interface type but holding a bare
// concrete value (v.Value = reflect.ValueOf(impl), which SignatureValues
// accepts) was sent under its dynamic type by Arg()/Args(): a fully filled
// input set did not satisfy its own function.
func TestD41_ArgsHonourDeclaredInterfaceType(t *testing.T) {
	f := argmapper.MustFunc(argmapper.NewFunc(func(in d30In) string { return in.R.Read() }))
	set := f.Input()
	set.Named("r").Value = reflect.ValueOf(&d30Buf{"x"})
	res, p := call(f, set.Args()...)
	if p != nil {
		t.Fatalf("panic: %v", p)
	}
	if res.Err() != nil {
		t.Fatalf("the function called with its own, fully filled input set: %v", res.Err())
	}
	if res.Out(0).(string) != "x" {
		t.Fatalf("got %v", res.Out(0))
	}
}

// D42 (C01): Redefine dropped the subtype of the inputs it declares. The
// redefined function then accepted a value labelled with ANOTHER subtype and
// handed it to a parameter of the original function that demands its own.
type d42V struct{ N int }

func TestD42_RedefineKeepsSubtypes(t *testing.T) {
	ran := 0
	f := argmapper.MustFunc(argmapper.NewFunc(func(in struct {
		argmapper.Struct
		V d42V `argmapper:",typeOnly,subtype=s1"`
	}) int {
		ran++
		return in.V.N
	}))
	// control: the original function refuses a value under another subtype
	if res, _ := call(f, argmapper.TypedSubtype(d42V{7}, "s2")); res.Err() == nil {
		t.Fatalf("control: the original function accepted a value labelled s2 for a parameter labelled s1")
	}
	rf, err := f.Redefine()
	if err != nil {
		t.Fatal(err)
	}
	vals := rf.Input().Values()
	if len(vals) != 1 || vals[0].Subtype != "s1" {
		t.Fatalf("inputs of the redefined function: %v", vals)
	}
	before := ran
	res, p := call(rf, argmapper.TypedSubtype(d42V{7}, "s2"))
	if p != nil {
		t.Fatalf("panic: %v", p)
	}
	if res.Err() == nil || ran != before {
		t.Fatalf("the redefined function ran the original with a value labelled s2 in its s1 parameter")
	}
	res, p = call(rf, argmapper.TypedSubtype(d42V{7}, "s1"))
	if p != nil || res.Err() != nil || res.Out(0).(int) != 7 {
		t.Fatalf("with the right subtype: %v %v", p, res.Err())
	}
}

// D44 (C06): Redefine builds a function type with one parameter and, when the
// original has no final error, one result more than the original function.
// reflect.FuncOf panics beyond 128 parameters and results together, so
// Redefine panicked for a function with 127 or more results instead of
// returning an error.
func TestD44_RedefineWithVeryManyResults(t *testing.T) {
	for _, n := range []int{126, 127, 128} {
		var outs []reflect.Type
		for i := 1; i <= n; i++ {
			outs = append(outs, reflect.ArrayOf(i, reflect.TypeOf(0)))
		}
		fn := reflect.MakeFunc(reflect.FuncOf(nil, outs, false), func([]reflect.Value) []reflect.Value {
			r := make([]reflect.Value, len(outs))
			for i, t := range outs {
				r[i] = reflect.Zero(t)
			}
			return r
		})
		f, err := argmapper.NewFunc(fn.Interface())
		if err != nil {
			t.Fatalf("%d results: NewFunc: %v", n, err)
		}
		if res, p := call(f); p != nil || res.Err() != nil || res.Len() != n {
			t.Fatalf("%d results: call: %v %v", n, p, res.Err())
		}
		func() {
			defer func() {
				if r := recover(); r != nil {
					t.Errorf("%d results: Redefine panicked: %v", n, r)
				}
			}()
			rf, err := f.Redefine()
			if n <= 126 && (err != nil || rf == nil) {
				t.Errorf("%d results: Redefine: %v", n, err)
			}
			if n > 126 && err == nil {
				t.Errorf("%d results: Redefine returned neither a function that can exist nor an error", n)
			}
		}()
	}
}

// D45 (C07): the value resolved for a converter's (or the target's own)
// type-only argument stayed on the shared argument vertex and was taken, as
// "already there", by the next function that needed an argument of that type:
// several named parameters produced by ONE converter with a second input were
// all converted from the same supplied value, whatever their names.
type d45Src int
type d45Mid int
type d45Dst int
type d45Ctx int
type d45Flag bool

func TestD45_TypedArgumentIsResolvedPerFunctionExecution(t *testing.T) {
	conv := func(in struct {
		argmapper.Struct
		Flag d45Flag
		V    d45Src `argmapper:",typeOnly"`
	}) d45Dst {
		return d45Dst(in.V)
	}
	for i := 0; i < 200; i++ {
		// (a) two named parameters, one two-input converter
		target := argmapper.MustFunc(argmapper.NewFunc(func(in struct {
			argmapper.Struct
			M d45Dst
			N d45Dst
		}) string {
			return fmt.Sprintf("m=%d n=%d", in.M, in.N)
		}))
		res, p := call(target, argmapper.Named("n", d45Src(1)), argmapper.Named("m", d45Src(2)), argmapper.Named("flag", d45Flag(true)), argmapper.Converter(conv))
		if p != nil || res.Err() != nil {
			t.Fatalf("%v %v", p, res.Err())
		}
		if got := res.Out(0).(string); got != "m=2 n=1" {
			t.Fatalf("iteration %d (a): got %q, want m=2 n=1: each parameter is converted from the supplied value of its own name", i, got)
		}
		// (b) two hops, the second converter takes a type-only context value
		conv1 := func(v d45Src) d45Mid { return d45Mid(v) }
		conv2 := func(v d45Mid, _ d45Ctx) d45Dst { return d45Dst(v) }
		res, p = call(target, argmapper.Named("n", d45Src(1)), argmapper.Named("m", d45Src(2)), argmapper.Typed(d45Ctx(0)), argmapper.Converter(conv1, conv2))
		if p != nil || res.Err() != nil {
			t.Fatalf("%v %v", p, res.Err())
		}
		if got := res.Out(0).(string); got != "m=2 n=1" {
			t.Fatalf("iteration %d (b): got %q, want m=2 n=1", i, got)
		}
		// (c) the stale value comes from a type-only parameter of the target
		target2 := argmapper.MustFunc(argmapper.NewFunc(func(in struct {
			argmapper.Struct
			N d45Dst
			X d45Src `argmapper:",typeOnly"`
		}) d45Dst {
			return in.N
		}))
		res, p = call(target2, argmapper.Named("n", d45Src(1)), argmapper.Named("m", d45Src(2)), argmapper.Named("flag", d45Flag(true)), argmapper.Converter(conv))
		if p != nil || res.Err() != nil {
			t.Fatalf("%v %v", p, res.Err())
		}
		if got := res.Out(0).(d45Dst); got != 1 {
			t.Fatalf("iteration %d (c): parameter n was converted from the value %d (supplied as m), want the value named n", i, got)
		}
	}
}

// D46 (C07): when a converter on the way to a named parameter takes one of its
// inputs BY NAME, the search for that input replaced the inherited name
// preference by the input's own name: the type-only input of the converter
// before it was fed by any supplied value of the source type.
func TestD46_NestedNamedInputKeepsTheInheritedNamePreference(t *testing.T) {
	conv1 := func(v d45Src) d45Mid { return d45Mid(v) }
	conv2 := func(in struct {
		argmapper.Struct
		Flag bool
		X    d45Mid
	}) d45Dst {
		return d45Dst(in.X)
	}
	// one level more: conv2b's result is taken by name by conv3
	conv2b := func(in struct {
		argmapper.Struct
		Flag bool
		X    d45Mid
	}) d45Ctx {
		return d45Ctx(in.X)
	}
	conv3 := func(in struct {
		argmapper.Struct
		Flag2 int8
		Y     d45Ctx
	}) d45Dst {
		return d45Dst(in.Y)
	}
	for i := 0; i < 300; i++ {
		target := argmapper.MustFunc(argmapper.NewFunc(func(in struct {
			argmapper.Struct
			A d45Dst
		}) d45Dst {
			return in.A
		}))
		inputs := []argmapper.Arg{argmapper.Named("a", d45Src(1)), argmapper.Named("b", d45Src(2)), argmapper.Named("c", d45Src(3)), argmapper.Named("flag", true), argmapper.Named("flag2", int8(1))}
		res, p := call(target, append(inputs, argmapper.Converter(conv1, conv2))...)
		if p != nil || res.Err() != nil {
			t.Fatalf("%v %v", p, res.Err())
		}
		if got := res.Out(0).(d45Dst); got != 1 {
			t.Fatalf("iteration %d: parameter a was converted from the supplied value %d, want the value named a (1)", i, got)
		}
		res, p = call(target, append(inputs, argmapper.Converter(conv1, conv2b, conv3))...)
		if p != nil || res.Err() != nil {
			t.Fatalf("%v %v", p, res.Err())
		}
		if got := res.Out(0).(d45Dst); got != 1 {
			t.Fatalf("iteration %d (three levels): parameter a was converted from the supplied value %d, want the value named a (1)", i, got)
		}
	}
}

// D47 (C15): sibling of D41. A value DECLARED with an interface type that holds
// a reflect.Value of ANOTHER interface type assignable to it (the shape of a
// value copied over from the result set of another function, e.g. a
// ReadCloser into a Reader entry) was sent under that other type by
// Arg()/Args(): a fully filled input set did not satisfy its own function.
type d47ReadCloser interface {
	Read() string
	Close() error
}
type d47RC struct{ d30Buf }

func (*d47RC) Close() error { return nil }

func TestD47_ArgsHonourDeclaredInterfaceTypeForValuesOfAnotherInterfaceType(t *testing.T) {
	producer := argmapper.MustFunc(argmapper.NewFunc(func() struct {
		argmapper.Struct
		RC d47ReadCloser
	} {
		return struct {
			argmapper.Struct
			RC d47ReadCloser
		}{RC: &d47RC{d30Buf{"x"}}}
	}))
	consumer := argmapper.MustFunc(argmapper.NewFunc(func(in d30In) string { return in.R.Read() }))
	out := producer.Output()
	pres, p := call(producer)
	if p != nil || pres.Err() != nil {
		t.Fatalf("%v %v", p, pres.Err())
	}
	if err := out.FromResult(pres); err != nil {
		t.Fatal(err)
	}
	in := consumer.Input()
	in.Named("r").Value = out.Named("rc").Value // interface-kind value of type d47ReadCloser
	res, p := call(consumer, in.Args()...)
	if p != nil {
		t.Fatalf("panic: %v", p)
	}
	if res.Err() != nil {
		t.Fatalf("the function called with its own, fully filled input set: %v", res.Err())
	}
	if got := res.Out(0).(string); got != "x" {
		t.Fatalf("got %q", got)
	}
}

// D48 (C16): sibling of D32. A converter generator given to Call did not
// override a default generator of the Func that emits a converter of the same
// function type: generators ran first to last and the first converter of a
// type to enter the graph is the one that stays.
func TestD48_CallTimeGeneratorOverridesDefaultGenerator(t *testing.T) {
	gen := func(label string) argmapper.ConverterGenFunc {
		return func(v argmapper.Value) (*argmapper.Func, error) {
			if v.Type != reflect.TypeOf(0) {
				return nil, nil
			}
			return argmapper.NewFunc(func(int) string { return label })
		}
	}
	for i := 0; i < 50; i++ {
		target := argmapper.MustFunc(argmapper.NewFunc(func(s string) string { return s }, argmapper.ConverterGen(gen("default"))))
		res, p := call(target, argmapper.Typed(1), argmapper.ConverterGen(gen("call")))
		if p != nil || res.Err() != nil {
			t.Fatalf("%v %v", p, res.Err())
		}
		if got := res.Out(0).(string); got != "call" {
			t.Fatalf("iteration %d: the converter of the %s generator ran; options given at Call override defaults", i, got)
		}
		// the default applies when Call gives none
		res, p = call(target, argmapper.Typed(1))
		if p != nil || res.Err() != nil || res.Out(0).(string) != "default" {
			t.Fatalf("defaults only: %v %v", p, res.Err())
		}
		// among the generators of one option list the last one wins, as for values
		res, p = call(target, argmapper.Typed(1), argmapper.ConverterGen(gen("first"), gen("last")))
		if p != nil || res.Err() != nil {
			t.Fatalf("%v %v", p, res.Err())
		}
		if got := res.Out(0).(string); got != "last" {
			t.Fatalf("iteration %d: the converter of the %s generator ran, want the last one given", i, got)
		}
	}
}

// D49 (C16): D48 made generators run last to first, but INSIDE the loop over
// the values they are shown: when a default generator reacts to a value that
// the call-time generator ignores, and that value happens to be shown first
// (map order), the default generator's converter entered the graph first and
// stayed. About a quarter of identical calls ran the default.
func TestD49_GeneratorPrecedenceDoesNotDependOnTheOrderValuesAreShownIn(t *testing.T) {
	byType := func(label string) argmapper.ConverterGenFunc {
		return func(v argmapper.Value) (*argmapper.Func, error) {
			if v.Type != reflect.TypeOf(0) {
				return nil, nil
			}
			return argmapper.NewFunc(func(int) string { return label })
		}
	}
	byName := func(label string) argmapper.ConverterGenFunc {
		return func(v argmapper.Value) (*argmapper.Func, error) {
			if v.Type != reflect.TypeOf(0) || v.Name != "id" {
				return nil, nil
			}
			return argmapper.NewFunc(func(int) string { return label })
		}
	}
	for i := 0; i < 400; i++ {
		target := argmapper.MustFunc(argmapper.NewFunc(func(s string) string { return s }, argmapper.ConverterGen(byType("default"))))
		res, p := call(target, argmapper.Named("id", 1), argmapper.Named("other", 2), argmapper.ConverterGen(byName("call")))
		if p != nil || res.Err() != nil {
			t.Fatalf("%v %v", p, res.Err())
		}
		if got := res.Out(0).(string); got != "call" {
			t.Fatalf("iteration %d: the converter of the %s generator ran; the generator given to Call overrides the default one", i, got)
		}
	}
}

// D50 (C15): D41/D47 for types that are not interfaces. A value declared with
// a defined type that holds a reflect.Value of a DIFFERENT type assignable to
// it ([]int for `type IDs []int`, chan int for <-chan int; SignatureValues
// accepts both) was sent under the type it holds by Arg()/Args().
type d50IDs []int

func TestD50_ArgsHonourTheDeclaredTypeForAssignableValuesOfAnotherType(t *testing.T) {
	f := argmapper.MustFunc(argmapper.NewFunc(func(in struct {
		argmapper.Struct
		IDs d50IDs
		C   <-chan int `argmapper:",typeOnly"`
	}) int {
		return len(in.IDs)
	}))
	set := f.Input()
	set.Named("ids").Value = reflect.ValueOf([]int{1, 2, 3})
	set.Typed(reflect.TypeOf((<-chan int)(nil))).Value = reflect.ValueOf(make(chan int))
	res, p := call(f, set.Args()...)
	if p != nil {
		t.Fatalf("panic: %v", p)
	}
	if res.Err() != nil {
		t.Fatalf("the function called with its own, fully filled input set: %v", res.Err())
	}
	if got := res.Out(0).(int); got != 3 {
		t.Fatalf("got %d", got)
	}
}

// D51 (C06, C05): regression of D45. Clearing the value of a typed argument
// vertex whenever it was taken made every function reach its type-only
// arguments afresh: on a "diamond ladder" (C_i(A_{i-1},B_{i-1}) -> A_i,
// D_i(A_{i-1},B_{i-1}) -> B_i, target(A_n,B_n)) the number of converter
// executions went from n(n+3)/2 to 2^(n+1)-2 -- 14 levels took 8 s, 20 levels
// would take minutes. The value is kept again, together with the name
// preference it was chosen under, and reused under that preference only.
func TestD51_DeepDiamondLadderResolvesInPolynomiallyManySteps(t *testing.T) {
	const n = 18
	type val struct{ K int }
	valT := reflect.TypeOf(val{})
	side := func(names ...string) reflect.Type {
		fs := []reflect.StructField{{Name: "Struct", Type: reflect.TypeOf(argmapper.Struct{}), Anonymous: true}}
		for i, s := range names {
			fs = append(fs, reflect.StructField{Name: fmt.Sprintf("F%d", i), Type: valT, Tag: reflect.StructTag(fmt.Sprintf(`argmapper:",typeOnly,subtype=%s"`, s))})
		}
		return reflect.StructOf(fs)
	}
	var execs int64
	var opts []argmapper.Arg
	for i := 1; i <= n; i++ {
		for _, out := range []string{"a", "b"} {
			in, res := side(fmt.Sprintf("a%d", i-1), fmt.Sprintf("b%d", i-1)), side(fmt.Sprintf("%s%d", out, i))
			fn := reflect.MakeFunc(reflect.FuncOf([]reflect.Type{in}, []reflect.Type{res}, false), func(args []reflect.Value) []reflect.Value {
				atomic.AddInt64(&execs, 1)
				r := reflect.New(res).Elem()
				r.Field(1).Set(reflect.ValueOf(val{args[0].Field(1).Interface().(val).K + 1}))
				return []reflect.Value{r}
			})
			opts = append(opts, argmapper.Converter(fn.Interface()))
		}
	}
	tin := side(fmt.Sprintf("a%d", n), fmt.Sprintf("b%d", n))
	target := argmapper.MustFunc(argmapper.NewFunc(reflect.MakeFunc(reflect.FuncOf([]reflect.Type{tin}, []reflect.Type{reflect.TypeOf(0)}, false), func(args []reflect.Value) []reflect.Value {
		return []reflect.Value{reflect.ValueOf(args[0].Field(1).Interface().(val).K)}
	}).Interface()))
	opts = append(opts, argmapper.TypedSubtype(val{0}, "a0"), argmapper.TypedSubtype(val{0}, "b0"))
	done := make(chan argmapper.Result, 1)
	go func() {
		res, _ := call(target, opts...)
		done <- res
	}()
	for {
		select {
		case res := <-done:
			if res.Err() != nil {
				t.Fatalf("%v", res.Err())
			}
			if res.Out(0).(int) != n {
				t.Fatalf("got %v, want %d", res.Out(0), n)
			}
			if e := atomic.LoadInt64(&execs); e > int64(4*n*n) {
				t.Fatalf("%d converter executions for %d levels: exponential, not polynomial (n(n+3)/2 = %d)", e, n, n*(n+3)/2)
			}
			return
		case <-time.After(50 * time.Millisecond):
			// (the count decides, not the clock)
			if e := atomic.LoadInt64(&execs); e > int64(4*n*n) {
				t.Fatalf("%d converter executions and no result yet for %d levels: exponential, not polynomial (a resolver that reuses what it has reached needs n(n+3)/2 = %d)", e, n, n*(n+3)/2)
			}
		}
	}
}

// D52 (C07): regression of D46. With every name on the preference list
// discounted alike, the name of the parameter being produced right there tied
// with the names inherited from further out: a converter's NAMED parameter n,
// to be converted from an int, got the int named n in only ~40% of the calls
// when the target's parameter a had an int of its own name as well.
func TestD52_OwnNameOutranksInheritedNames(t *testing.T) {
	type out struct{ N string }
	k := func(in struct {
		argmapper.Struct
		N string
		M float64 `argmapper:",typeOnly"`
	}) out {
		return out{in.N}
	}
	c := func(i int) string { return fmt.Sprint(i) }
	for i := 0; i < 300; i++ {
		target := argmapper.MustFunc(argmapper.NewFunc(func(in struct {
			argmapper.Struct
			A out
		}) string {
			return in.A.N
		}))
		res, p := call(target, argmapper.Named("a", 1), argmapper.Named("n", 2), argmapper.Named("z", 3), argmapper.Typed(1.5), argmapper.Converter(k, c))
		if p != nil || res.Err() != nil {
			t.Fatalf("%v %v", p, res.Err())
		}
		if got := res.Out(0).(string); got != "2" {
			t.Fatalf("iteration %d: the converter's parameter n was converted from the int %s, want the int named n (2)", i, got)
		}
	}
}

// D53 (C07): second regression of D46, left by D52. The names inherited from
// further out all got the same discount, so for a type-only argument reached
// while TWO named values are being produced (the target's parameter a and a
// converter's parameter n) the values named a and n tied: the converter that
// makes n got the value named a in about 60% of the calls. The nearest name
// decides, as it did before the preference became a list.
type d53S struct{ From string }
type d53Y struct{ From string }
type d53M struct{ K int }
type d53T struct{ Y string }

func TestD53_TheNearestNameBeingProducedDecides(t *testing.T) {
	convT := func(in struct {
		argmapper.Struct
		A d53S
		N d53Y
	}) d53T {
		return d53T{Y: in.N.From}
	}
	convY := func(in struct {
		argmapper.Struct
		S d53S `argmapper:",typeOnly"`
		M d53M
	}) struct {
		argmapper.Struct
		N d53Y
	} {
		return struct {
			argmapper.Struct
			N d53Y
		}{N: d53Y{From: in.S.From}}
	}
	for i := 0; i < 300; i++ {
		target := argmapper.MustFunc(argmapper.NewFunc(func(in struct {
			argmapper.Struct
			A d53T
		}) string {
			return in.A.Y
		}))
		res, p := call(target, argmapper.Named("a", d53S{"a"}), argmapper.Named("n", d53S{"n"}), argmapper.Named("m", d53M{1}), argmapper.Converter(convT, convY))
		if p != nil || res.Err() != nil {
			t.Fatalf("%v %v", p, res.Err())
		}
		if got := res.Out(0).(string); got != "n" {
			t.Fatalf("iteration %d: the converter's parameter n was made from the value named %q, want the one named n", i, got)
		}
	}
}

// D54: regression of D53. The smaller discount for names from further out was
// put on the edges from typed arguments only, "all other edges to a value are
// not more expensive to begin with" -- but the edge from a named value without
// subtype to the same-named value WITH a subtype costs as much as one from a
// typed argument. One level below the parameter a, a converter taking a
// explicitly (the documented priority: "conversion will favor any converters
// that explicitly use the equivalent name") then lost against a type-only
// converter when the supplied value carried a subtype -- on every tree before
// D53 it had won in every call.
type d54S string
type d54T1 string
type d54T2 string

func TestD54_ExplicitNameConverterOneLevelDownWithSubtype(t *testing.T) {
	h := func(in struct {
		argmapper.Struct
		M d54T1
		X d54S `argmapper:",typeOnly"`
	}) d54T2 {
		return d54T2("h(" + string(in.M) + "," + string(in.X) + ")")
	}
	xA := func(in struct {
		argmapper.Struct
		A d54S
	}) d54T1 {
		return d54T1("xA(" + string(in.A) + ")")
	}
	y := func(s d54S) d54T1 { return d54T1("y(" + string(s) + ")") }
	target := argmapper.MustFunc(argmapper.NewFunc(func(in struct {
		argmapper.Struct
		A d54T2
	}) string {
		return string(in.A)
	}))
	for i := 0; i < 300; i++ {
		res, p := call(target, argmapper.NamedSubtype("a", d54S("a"), "s"), argmapper.Converter(h, xA, y))
		if p != nil || res.Err() != nil {
			t.Fatalf("%v %v", p, res.Err())
		}
		if got := res.Out(0).(string); got != "h(xA(a),a)" {
			t.Fatalf("iteration %d: got %s, want h(xA(a),a): the converter that takes the name explicitly", i, got)
		}
	}
}
