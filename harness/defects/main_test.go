package defects

import (
	"os"
	"runtime/debug"
	"testing"
)

func TestMain(m *testing.M) {
	// Make runaway recursion die quickly instead of eating 1 GiB.
	debug.SetMaxStack(64 << 20)
	os.Exit(m.Run())
}
