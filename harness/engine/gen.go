package engine

import (
	"fmt"
	"strings"

	"pgregory.net/rapid"
)

// G is a thin convenience wrapper around *rapid.T: every random choice of
// every generator goes through it, so shrinking and seeding are rapid's.
type G struct{ T *rapid.T }

// bits draws k unbiased bits (rapid.Bool is an unbiased single bit; rapid's
// integer generators are deliberately biased towards small values, which
// would distort probabilities and index choices). Shrinks towards 0.
func (g G) bits(k int) int {
	bs := rapid.SliceOfN(rapid.Bool(), k, k).Draw(g.T, "bits")
	u := 0
	for _, b := range bs {
		u <<= 1
		if b {
			u |= 1
		}
	}
	return u
}

// Int draws uniformly from [lo, hi] (modulo bias < 1/8 of one value's mass).
func (g G) Int(lo, hi int) int {
	n := hi - lo + 1
	if n <= 1 {
		return lo
	}
	k := 3
	for x := n - 1; x > 0; x >>= 1 {
		k++
	}
	return lo + g.bits(k)%n
}

// Small draws from [lo, hi] with rapid's bias towards small values.
func (g G) Small(lo, hi int) int { return rapid.IntRange(lo, hi).Draw(g.T, "i") }

func (g G) Bool() bool { return rapid.Bool().Draw(g.T, "b") }

// Pct is true with probability p/100 (shrinks towards false).
func (g G) Pct(p int) bool { return g.bits(10)%100 < p && p > 0 }

func Pick[E any](g G, xs []E) E { return xs[g.Int(0, len(xs)-1)] }

var (
	AllNames = []string{"a", "b", "cd", "ef"}
	AllSubs  = []string{"s", "t"}
)

// Palette restricts a scenario to a few types/names/subtypes so that labels
// collide often (the productive region for a label-structural library).
type Palette struct {
	Types []int
	Names []string
	Subs  []string // non-empty subtypes available
	SubP  int      // probability (percent) that a label carries a subtype
	NameP int      // probability that a struct-form label is named
	// NameType, when non-nil, fixes one type per name (C08's domain) and
	// NoSub forbids subtype labels altogether.
	NameType map[string]int
	NoSub    bool
	// LooseOutputs: output lists of struct forms may contain several
	// type-only values of one type that differ by subtype. The library keys
	// type-only outputs by type, so C06 counts this as ill-formed; C01 / C13
	// quantify over all converter sets and include it.
	LooseOutputs bool
	// Hostile: see GenPaletteHostile; named labels are always declared by tag
	// (functions assembled with BuildFunc carry them in their value lists).
	Hostile bool
}

// name draws a name usable for type t (any name unless NameType is set).
func (p Palette) nameFor(g G, t int) string {
	if p.NameType == nil {
		return Pick(g, p.Names)
	}
	var ok []string
	for _, n := range p.Names {
		if p.NameType[n] == t {
			ok = append(ok, n)
		}
	}
	if len(ok) == 0 {
		return ""
	}
	return Pick(g, ok)
}

func GenPalette(g G, allowIface bool, allowSub bool) Palette {
	var p Palette
	nt := g.Int(2, 4)
	perm := rapid.Permutation([]int{0, 1, 2, 3, 4, 5}).Draw(g.T, "types")
	p.Types = append(p.Types, perm[:nt]...)
	if allowIface && g.Pct(35) {
		p.Types = append(p.Types, TypeI0+g.Int(0, 1))
		if g.Pct(30) {
			// related interfaces: I2 is wider than I0
			p.Types[len(p.Types)-1] = TypeI0
			p.Types = append(p.Types, TypeI2)
		}
		// make sure at least one implementer is around
		impl := Implementers(p.Types[len(p.Types)-1])
		p.Types = append(p.Types, Pick(g, impl))
	}
	if g.Pct(12) {
		// the unnamed struct type next to a defined struct type with the same
		// underlying type: mutually assignable, not identical
		p.Types = append(p.Types, TypeU, Pick(g, []int{0, 1, 2, 4}))
	}
	if allowIface && g.Pct(12) {
		// the empty interface: every value implements it
		p.Types = append(p.Types, TypeAny)
	}
	if allowIface && g.Pct(12) {
		// two distinct interface types with one method set (they implement
		// each other), plus an implementer
		p.Types = append(p.Types, TypeI0, TypeI0b, Pick(g, Implementers(TypeI0)))
	}
	p.Types = dedupInts(p.Types)
	nn := g.Int(1, 3)
	p.Names = AllNames[:nn]
	if allowSub && g.Pct(60) {
		p.Subs = AllSubs[:g.Int(1, 2)]
		p.SubP = Pick(g, []int{15, 30, 50})
	}
	p.NameP = Pick(g, []int{30, 50, 70})
	return p
}

func dedupInts(xs []int) []int {
	seen := map[int]bool{}
	var r []int
	for _, x := range xs {
		if !seen[x] {
			seen[x] = true
			r = append(r, x)
		}
	}
	return r
}

// IfaceSources lists the interface types other than t that implement
// interface type t (a wider interface, a twin with the same method set, or --
// for the empty interface -- any interface).
func IfaceSources(t int) []int {
	var r []int
	for u := 0; u < NumTypes; u++ {
		if u != t && IsIface(u) && Implements(u, t) {
			r = append(r, u)
		}
	}
	return r
}

func (p Palette) concrete() []int {
	var r []int
	for _, t := range p.Types {
		if !IsIface(t) {
			r = append(r, t)
		}
	}
	if len(r) == 0 {
		r = []int{0}
	}
	return r
}

func (p Palette) sub(g G) string {
	if p.NoSub || len(p.Subs) == 0 || !g.Pct(p.SubP) {
		return ""
	}
	return Pick(g, p.Subs)
}

// Concretize turns l into a label a supplied value can carry (concrete type).
func Concretize(g G, l Label) Label {
	if IsIface(l.Type) {
		l.Type = Pick(g, Implementers(l.Type))
	}
	l.Dyn = l.Type
	return l
}

// withDyn fills Dyn for an output label.
func withDyn(g G, l Label) Label {
	if IsIface(l.Type) {
		l.Dyn = Pick(g, Implementers(l.Type))
	} else {
		l.Dyn = l.Type
	}
	return l
}

func GenForm(g G) string { return Pick(g, []string{FormPos, FormStruct, FormStruct, FormPtr}) }

// sideOK checks the well-formedness rule of C06 for adding l to labels.
func sideOK(labels []Label, l Label, form string, output bool, allowPosRepeat bool, loose ...bool) bool {
	if len(loose) > 0 && loose[0] {
		output = false // key type-only outputs by (type, subtype) like inputs
	}
	for _, o := range labels {
		if form == FormPos {
			if !allowPosRepeat && o.Type == l.Type {
				return false
			}
			continue
		}
		if l.Named() && o.Named() && o.Name == l.Name {
			return false
		}
		if !l.Named() && !o.Named() && o.Type == l.Type {
			if output || o.Sub == l.Sub {
				return false
			}
		}
	}
	return true
}

// GenSide draws n well-formed labels for one side of a function.
func GenSide(g G, pal Palette, n int, form string, output bool, allowPosRepeat bool) []Label {
	var labels []Label
	for len(labels) < n {
		var l Label
		ok := false
		for try := 0; try < 6 && !ok; try++ {
			l = Label{Type: Pick(g, pal.Types)}
			if form != FormPos {
				if g.Pct(pal.NameP) {
					l.Name = pal.nameFor(g, l.Type)
				}
				l.Sub = pal.sub(g)
				if l.Named() && (g.Pct(15) || pal.Hostile) {
					l.Tag = true
				}
			}
			ok = sideOK(labels, l, form, output, allowPosRepeat, pal.LooseOutputs)
		}
		if !ok {
			break
		}
		if output {
			l = withDyn(g, l)
		} else {
			l.Dyn = l.Type
		}
		labels = append(labels, l)
	}
	return labels
}

// GenFuncOpts are the knobs for GenFunc.
type GenFuncOpts struct {
	MaxIn, MaxOut  int
	MinOut         int
	AllowPosRepeat bool
	AllowBuilt     bool
	AllowOnce      bool
	FailP          int // probability that a function with an error result fails
	ErrP           int // probability of having an error result
}

func GenFunc(g G, pal Palette, id int, o GenFuncOpts) FuncSpec {
	fs := FuncSpec{ID: id}
	if o.AllowBuilt && g.Pct(12) {
		fs.Built = true
		fs.InForm, fs.OutForm = FormStruct, FormStruct
		fs.HasErr = true
	} else {
		fs.InForm, fs.OutForm = GenForm(g), GenForm(g)
		fs.HasErr = g.Pct(o.ErrP)
	}
	nin := g.Int(0, o.MaxIn)
	nout := g.Int(o.MinOut, o.MaxOut)
	fs.In = GenSide(g, pal, nin, fs.InForm, false, o.AllowPosRepeat)
	fs.Out = GenSide(g, pal, nout, fs.OutForm, true, o.AllowPosRepeat)
	if fs.Built {
		// built value sets: type-only values are looked up by (type, subtype)
		// in the callback, keep them unique by type on both sides.
		fs.In = uniqTyped(fs.In)
		fs.Out = uniqTyped(fs.Out)
		for i := range fs.In {
			fs.In[i].Tag = false
		}
		for i := range fs.Out {
			fs.Out[i].Tag = false
		}
	}
	if len(fs.In) == 0 && fs.InForm != FormPos {
		fs.InForm = FormPos
	}
	if len(fs.Out) == 0 && fs.OutForm != FormPos {
		fs.OutForm = FormPos
	}
	if fs.HasErr && g.Pct(o.FailP) {
		fs.Fail = true
	}
	if o.AllowOnce && g.Pct(10) {
		fs.Once = true
	}
	return fs
}

func uniqTyped(ls []Label) []Label {
	seen := map[int]bool{}
	var out []Label
	for _, l := range ls {
		if !l.Named() {
			if seen[l.Type] {
				continue
			}
			seen[l.Type] = true
		}
		out = append(out, l)
	}
	return out
}

// GenInput draws a supplied value from the palette.
func GenInput(g G, pal Palette, tok int) Input {
	l := Label{Type: Pick(g, pal.concrete())}
	if g.Pct(pal.NameP) {
		l.Name = pal.nameFor(g, l.Type)
	}
	l.Sub = pal.sub(g)
	l.Dyn = l.Type
	return Input{L: l, Tok: tok}
}

// CompatSource draws a source label L with RMinus(p, L): a label under which
// a value may be supplied or produced so that the library undertakes to match
// it to parameter p.
func CompatSource(g G, pal Palette, p Label) Label {
	l := Label{Type: p.Type, Dyn: p.Type}
	otherSub := func() string {
		if len(pal.Subs) > 0 {
			return Pick(g, pal.Subs)
		}
		return Pick(g, AllSubs)
	}
	if pal.NoSub {
		// exact, or (for a named parameter) typed; (for a typed one) named
		switch {
		case p.Named() && g.Pct(60):
			l.Name = p.Name
		case !p.Named() && g.Pct(40):
			l.Name = pal.nameFor(g, p.Type)
		}
		return l
	}
	if p.Named() {
		switch k := g.Int(0, 3); {
		case k <= 1: // exact
			l.Name, l.Sub = p.Name, p.Sub
		case k == 2 && p.Sub == "": // same name, some subtype
			l.Name, l.Sub = p.Name, otherSub()
		default: // typed, no subtype
			l.Name, l.Sub = "", ""
		}
	} else {
		switch k := g.Int(0, 4); {
		case k <= 1: // exact typed
			l.Sub = p.Sub
		case k == 2: // typed without subtype
			l.Sub = ""
		case k == 3: // named, same subtype
			l.Name, l.Sub = pal.nameFor(g, p.Type), p.Sub
		default:
			if p.Sub == "" {
				l.Sub = otherSub()
				if g.Bool() {
					l.Name = pal.nameFor(g, p.Type)
				}
			} else {
				l.Sub = p.Sub
			}
		}
	}
	if IsIface(p.Type) && g.Pct(70) {
		// an implementer, type-only (any subtype)
		l = Label{Type: Pick(g, Implementers(p.Type))}
		if g.Pct(30) {
			l.Sub = otherSub()
		}
		l.Dyn = l.Type
		if !pal.NoSub && g.Pct(35) {
			// an interface-kind source: the same interface under another
			// subtype, or (for I0) the wider interface I2 -- reachable only
			// through an interface-to-interface link; such a label can only
			// be a converter output (Produce turns it into an implementer
			// when it supplies it directly)
			l = Label{Type: p.Type, Sub: otherSub()}
			if srcs := IfaceSources(p.Type); len(srcs) > 0 && g.Bool() {
				l = Label{Type: Pick(g, srcs)}
				if g.Bool() {
					l.Sub = otherSub()
				}
			}
			l.Dyn = l.Type
		}
	}
	return l
}

// Builder grows scenarios.
type Builder struct {
	G        G
	Pal      Palette
	Sc       *Scenario
	nextTok  int
	nextID   int
	Opts     GenFuncOpts
	maxConvs int // 0 = default (6 in Produce, 8 overall)
}

func NewBuilder(g G, pal Palette, o GenFuncOpts) *Builder {
	return &Builder{G: g, Pal: pal, Sc: &Scenario{}, nextTok: 0, nextID: 0, Opts: o}
}

func (b *Builder) AddInput(l Label) Input {
	b.nextTok++
	l = Concretize(b.G, l)
	in := Input{L: l, Tok: b.nextTok}
	b.Sc.Inputs = append(b.Sc.Inputs, in)
	return in
}

func (b *Builder) NewID() int { b.nextID++; return b.nextID }

func (b *Builder) AddConv(fs FuncSpec) *FuncSpec {
	b.Sc.Convs = append(b.Sc.Convs, fs)
	return &b.Sc.Convs[len(b.Sc.Convs)-1]
}

// labelForSide makes l expressible in the given form.
func labelForSide(l Label, form string) Label {
	if form == FormPos {
		l.Name, l.Sub, l.Tag = "", "", false
	}
	return l
}

// Produce arranges for parameter p to be derivable: by a supplied value or by
// a new converter whose own inputs are produced recursively.
func (b *Builder) Produce(p Label, depth int, maxConvIn int) {
	g := b.G
	limit := 6
	if b.maxConvs > 0 {
		limit = b.maxConvs
	}
	if depth <= 0 || g.Pct(30) || len(b.Sc.Convs) >= limit {
		src := CompatSource(g, b.Pal, p)
		if IsIface(src.Type) {
			// inputs are concrete: a typed implementer
			src = Label{Type: Pick(g, Implementers(src.Type))}
		}
		b.AddInput(src)
		return
	}
	src := CompatSource(g, b.Pal, p)
	if IsIface(src.Type) && g.Pct(50) {
		// keep the interface-kind output as the only producer (no extras below)
		src.Name = ""
	}
	fs := FuncSpec{ID: b.NewID()}
	if b.Opts.AllowBuilt && g.Pct(12) {
		fs.Built, fs.InForm, fs.OutForm, fs.HasErr = true, FormStruct, FormStruct, true
	} else {
		fs.InForm, fs.OutForm = GenForm(g), GenForm(g)
		fs.HasErr = g.Pct(b.Opts.ErrP)
	}
	if (src.Named() || src.Sub != "") && fs.OutForm == FormPos {
		fs.OutForm = FormStruct
	}
	src = withDyn(g, src)
	fs.Out = []Label{src}
	// optional extra output
	if g.Pct(25) {
		extra := GenSide(g, b.Pal, 1, fs.OutForm, true, false)
		if len(extra) == 1 && sideOK(fs.Out, extra[0], fs.OutForm, true, false, b.Pal.LooseOutputs && !fs.Built) {
			fs.Out = append(fs.Out, extra[0])
		}
		if b.Pal.LooseOutputs && !fs.Built && fs.OutForm != FormPos && !src.Named() && g.Pct(50) {
			// a sibling type-only output of the same type under another subtype,
			// declared before or after the one that is needed
			sib := src
			sib.Sub = Pick(g, []string{"", "s", "t"})
			if sib.Sub != src.Sub && sideOK(fs.Out, sib, fs.OutForm, true, false, true) {
				if g.Bool() {
					fs.Out = append(fs.Out, sib)
				} else {
					fs.Out = append([]Label{sib}, fs.Out...)
				}
			}
		}
	}
	nin := g.Int(0, maxConvIn)
	if nin > 0 && g.Pct(60) {
		nin = 1
	}
	fs.In = GenSide(g, b.Pal, nin, fs.InForm, false, false)
	if fs.Built {
		fs.In = uniqTyped(fs.In)
		for i := range fs.In {
			fs.In[i].Tag = false
		}
		for i := range fs.Out {
			fs.Out[i].Tag = false
		}
	}
	if len(fs.In) == 0 {
		fs.InForm = FormPos
	}
	if fs.HasErr && g.Pct(b.Opts.FailP) {
		fs.Fail = true
	}
	if b.Opts.AllowOnce && g.Pct(10) {
		fs.Once = true
	}
	ins := append([]Label(nil), fs.In...)
	b.AddConv(fs)
	if len(ins) >= 2 && depth > 1 && !b.Pal.Hostile && g.Pct(35) && b.ProduceJoint(ins[0], ins[1], depth-1, maxConvIn) {
		// a diamond: the first two inputs come from ONE converter with two
		// outputs (both used)
		ins = ins[2:]
	}
	for _, q := range ins {
		b.Produce(q, depth-1, maxConvIn)
	}
}

// ProduceJoint makes parameters p and q derivable through a single new
// converter that outputs a compatible source for each of them. It reports
// false (and adds nothing) when the two sources cannot share a result list.
func (b *Builder) ProduceJoint(p, q Label, depth, maxConvIn int) bool {
	g := b.G
	if len(b.Sc.Convs) >= 7 {
		return false
	}
	sp, sq := withDyn(g, CompatSource(g, b.Pal, p)), withDyn(g, CompatSource(g, b.Pal, q))
	fs := FuncSpec{ID: b.NewID(), InForm: GenForm(g), OutForm: FormStruct, HasErr: g.Pct(b.Opts.ErrP)}
	if !sp.Named() && sp.Sub == "" && !sq.Named() && sq.Sub == "" && sp.Type != sq.Type && g.Bool() {
		fs.OutForm = FormPos
	}
	if !sideOK([]Label{sp}, sq, fs.OutForm, true, false) {
		return false
	}
	fs.Out = []Label{sp, sq}
	fs.In = GenSide(g, b.Pal, g.Int(1, maxConvIn), fs.InForm, false, false)
	if len(fs.In) == 0 {
		fs.InForm = FormPos
	}
	ins := append([]Label(nil), fs.In...)
	b.AddConv(fs)
	for _, r := range ins {
		b.Produce(r, depth-1, maxConvIn)
	}
	return true
}

// Distract adds random inputs and converters from the palette.
func (b *Builder) Distract(maxInputs, maxConvs int) {
	g := b.G
	for i, n := 0, g.Int(0, maxInputs); i < n; i++ {
		b.nextTok++
		b.Sc.Inputs = append(b.Sc.Inputs, GenInput(g, b.Pal, b.nextTok))
	}
	cap8 := 8
	if b.maxConvs > cap8 {
		cap8 = b.maxConvs
	}
	for i, n := 0, g.Int(0, maxConvs); i < n && len(b.Sc.Convs) < cap8; i++ {
		o := b.Opts
		if g.Pct(12) {
			// a converter without outputs (a validator returning only an
			// error, or nothing): never useful, but a supplied converter
			o.MinOut, o.MaxOut = 0, 0
		}
		b.AddConv(GenFunc(g, b.Pal, b.NewID(), o))
	}
}

// GenTarget draws a target function.
func GenTarget(g G, pal Palette, maxIn int, o GenFuncOpts) FuncSpec {
	o.MaxIn = maxIn
	fs := GenFunc(g, pal, TargetID, o)
	fs.Once = false
	if len(fs.In) == 0 {
		// a target without parameters says nothing about resolution
		fs.InForm = GenForm(g)
		fs.In = GenSide(g, pal, 1, fs.InForm, false, false)
		if fs.Built {
			fs.In = uniqTyped(fs.In)
		}
		if len(fs.In) == 0 {
			fs.InForm = FormPos
		}
	}
	return fs
}

// ShuffleInputs draws a permutation of the supplied inputs (option order).
func (b *Builder) ShuffleInputs() {
	if len(b.Sc.Inputs) > 1 && b.G.Pct(50) {
		b.Sc.Inputs = rapid.Permutation(b.Sc.Inputs).Draw(b.G.T, "perm")
	}
}

// DefaultFuncOpts are the usual knobs.
func DefaultFuncOpts() GenFuncOpts {
	return GenFuncOpts{MaxIn: 3, MaxOut: 2, MinOut: 1, ErrP: 30, FailP: 0, AllowBuilt: true}
}

// GenUniform: target, inputs and converters drawn independently from a palette.
func GenUniform(g G, o GenFuncOpts, allowIface, allowSub bool) *Scenario {
	pal := GenPalette(g, allowIface, allowSub)
	b := NewBuilder(g, pal, o)
	b.Sc.Target = GenTarget(g, pal, 3, o)
	b.Distract(4, 5)
	return b.Sc
}

// GenDerivable: grow a derivation backwards from the target, then distract.
func GenDerivable(g G, o GenFuncOpts, allowIface, allowSub bool, maxConvIn, maxDepth int) *Scenario {
	pal := GenPalette(g, allowIface, allowSub)
	b := NewBuilder(g, pal, o)
	b.Sc.Target = GenTarget(g, pal, 3, o)
	for _, p := range b.Sc.Target.In {
		b.Produce(p, g.Int(0, maxDepth), maxConvIn)
	}
	if g.Pct(60) {
		b.Distract(2, 3)
	}
	b.ShuffleInputs()
	return b.Sc
}

// LowerAll canonicalizes names (used after spelling decoration).
func LowerAll(ls []Label) {
	for i := range ls {
		ls[i].Name = strings.ToLower(ls[i].Name)
	}
}

// AddReverse adds, for some existing converters, a converter going the other
// way (outputs become inputs), which creates dependency cycles.
func (b *Builder) AddReverse(p int) {
	g := b.G
	n := len(b.Sc.Convs)
	for i := 0; i < n && len(b.Sc.Convs) < 8; i++ {
		c := b.Sc.Convs[i]
		if len(c.In) == 0 || len(c.Out) == 0 || !g.Pct(p) {
			continue
		}
		r := FuncSpec{ID: b.NewID(), InForm: FormStruct, OutForm: FormStruct, HasErr: g.Pct(b.Opts.ErrP)}
		for _, l := range c.Out {
			l.Dyn = l.Type
			if sideOK(r.In, l, r.InForm, false, false) {
				r.In = append(r.In, l)
			}
		}
		for _, l := range c.In {
			l = withDyn(g, l)
			if sideOK(r.Out, l, r.OutForm, true, false) {
				r.Out = append(r.Out, l)
			}
		}
		if len(r.Out) == 0 {
			continue
		}
		if g.Pct(50) && len(r.In) > 1 {
			r.In = r.In[:1]
		}
		b.AddConv(r)
	}
}

// GenGens draws 0-2 converter generators over the palette.
func GenGens(g G, pal Palette, allowErr bool) []GenSpec {
	var gs []GenSpec
	for i, n := 0, g.Int(0, 2); i < n; i++ {
		modes := []string{"conv", "conv", "conv", "nil"}
		if allowErr {
			modes = append(modes, "err")
		}
		c := pal.concrete()
		gs = append(gs, GenSpec{ID: i + 1, From: Pick(g, c), To: Pick(g, c), Mode: Pick(g, modes)})
	}
	return gs
}

// CaseTwinSubtype rewrites the subtype label of ONE randomly chosen label
// occurrence of sc (a supplied value, a parameter or a result) into its
// upper-case twin ("s" -> "S"). Subtype labels are compared exactly: a twin
// is a different label. It reports whether something was rewritten.
func CaseTwinSubtype(g G, sc *Scenario) bool {
	var spots []*Label
	for i := range sc.Inputs {
		spots = append(spots, &sc.Inputs[i].L)
	}
	fs := []*FuncSpec{&sc.Target}
	for i := range sc.Convs {
		fs = append(fs, &sc.Convs[i])
	}
	for _, f := range fs {
		for i := range f.In {
			spots = append(spots, &f.In[i])
		}
		for i := range f.Out {
			spots = append(spots, &f.Out[i])
		}
	}
	var cands []*Label
	for _, l := range spots {
		if l.Sub != "" && strings.ToUpper(l.Sub) != l.Sub {
			cands = append(cands, l)
		}
	}
	if len(cands) == 0 {
		return false
	}
	l := Pick(g, cands)
	l.Sub = strings.ToUpper(l.Sub)
	return true
}

// GeneratorizeMid replaces one mid-chain converter of sc -- a single type-only
// input and a single type-only output, no subtypes, whose input type occurs
// neither among the supplied values nor among the target's parameters, i.e.
// only as the result of another converter -- by a converter generator that
// emits an equivalent converter when it is shown a value of that type. The
// generator gets to see that type only if the library shows it the values the
// SUPPLIED converters declare. It reports whether a converter was replaced.
func GeneratorizeMid(g G, sc *Scenario) bool {
	outer := map[int]bool{}
	for _, in := range sc.Inputs {
		outer[in.L.Type] = true
	}
	for _, p := range sc.Target.In {
		outer[p.Type] = true
	}
	var cands []int
	for i := range sc.Convs {
		c := &sc.Convs[i]
		if len(c.In) != 1 || len(c.Out) != 1 || c.Identity || c.ConcreteErr {
			continue
		}
		in, out := c.In[0], c.Out[0]
		if in.Named() || out.Named() || in.Sub != "" || out.Sub != "" || IsIface(in.Type) || IsIface(out.Type) || in.Type == out.Type || out.Dyn != out.Type || outer[in.Type] {
			continue
		}
		produced := false
		for j := range sc.Convs {
			if j == i {
				continue
			}
			for _, o := range sc.Convs[j].Out {
				if o.Type == in.Type || o.Dyn == in.Type {
					produced = true
				}
			}
		}
		if produced {
			cands = append(cands, i)
		}
	}
	if len(cands) == 0 {
		return false
	}
	i := Pick(g, cands)
	c := sc.Convs[i]
	id := 1
	for _, gs := range sc.Gens {
		if gs.ID >= id {
			id = gs.ID + 1
		}
	}
	sc.Gens = append(sc.Gens, GenSpec{ID: id, From: c.In[0].Type, To: c.Out[0].Type, Mode: "conv"})
	sc.Convs = append(sc.Convs[:i:i], sc.Convs[i+1:]...)
	return true
}

var malformedKinds = []string{"nilarg", "nilnamed", "niltyped", "nilnamedsub", "niltypedsub", "nilconv", "intconv", "strconv", "nilconvfunc", "nilfuncptrconv", "structconv", "ptrconv"}

// GenNasty draws scenarios from the classes other profiles avoid (C06).
func GenNasty(g G) *Scenario {
	pal := GenPalette(g, true, true)
	o := DefaultFuncOpts()
	o.AllowPosRepeat = true
	o.AllowOnce = true
	o.FailP = 15
	b := NewBuilder(g, pal, o)
	class := g.Int(0, 5)
	switch class {
	case 0: // uniform with repeated positional types
		b.Sc.Target = GenTarget(g, pal, 4, o)
		b.Distract(4, 6)
	case 1: // derivable multi-input, plus reverse converters (cycles)
		b.Sc.Target = GenTarget(g, pal, 3, o)
		for _, p := range b.Sc.Target.In {
			b.Produce(p, g.Int(1, 3), 3)
		}
		b.AddReverse(60)
		b.Distract(2, 2)
	case 2: // mutually recursive multi-input converters
		c := pal.concrete()
		x, y, z := Pick(g, c), Pick(g, c), Pick(g, c)
		lab := func(t int) Label {
			l := Label{Type: t, Dyn: t}
			if g.Pct(40) {
				l.Name = Pick(g, pal.Names)
			}
			l.Sub = pal.sub(g)
			return l
		}
		lx, ly, lz := lab(x), lab(y), lab(z)
		mk := func(in []Label, out Label) FuncSpec {
			fs := FuncSpec{ID: b.NewID(), InForm: FormStruct, OutForm: FormStruct, HasErr: g.Bool()}
			for _, l := range in {
				if sideOK(fs.In, l, fs.InForm, false, false) {
					fs.In = append(fs.In, l)
				}
			}
			fs.Out = []Label{out}
			return fs
		}
		b.AddConv(mk([]Label{lx, ly}, lz))
		b.AddConv(mk([]Label{lx, lz}, ly))
		if g.Pct(50) {
			b.AddConv(mk([]Label{ly, lz}, lx))
		}
		if g.Pct(60) {
			b.AddInput(lx)
		}
		b.Sc.Target = FuncSpec{ID: TargetID, InForm: FormStruct, OutForm: FormPos, In: []Label{Pick(g, []Label{ly, lz})}}
		if g.Pct(40) {
			b.Distract(2, 2)
		}
	case 3: // converter with the same signature as the target
		b.Sc.Target = GenTarget(g, pal, 2, o)
		same := b.Sc.Target
		same.ID = b.NewID()
		same.Built = false
		if same.InForm == "" {
			same.InForm = FormPos
		}
		for i := range same.Out {
			same.Out[i] = withDyn(g, same.Out[i])
		}
		b.AddConv(same)
		b.Distract(3, 3)
	case 4: // typed-with-subtype next to a named parameter of the same type
		t := Pick(g, pal.concrete())
		sub := Pick(g, AllSubs)
		b.Sc.Target = FuncSpec{ID: TargetID, InForm: FormStruct, OutForm: FormPos,
			In: []Label{{Name: Pick(g, pal.Names), Type: t, Dyn: t, Sub: Pick(g, []string{"", sub})}, {Type: t, Dyn: t, Sub: sub}}}
		if g.Pct(50) {
			b.Sc.Target.In = append(b.Sc.Target.In, Label{Type: t, Dyn: t})
		}
		for _, p := range b.Sc.Target.In {
			if g.Pct(70) {
				b.Produce(p, g.Int(0, 2), 2)
			}
		}
		b.Distract(3, 3)
	default: // everything derivable, deep
		b.Sc.Target = GenTarget(g, pal, 3, o)
		for _, p := range b.Sc.Target.In {
			b.Produce(p, g.Int(2, 4), 2)
		}
		b.AddReverse(30)
	}
	if g.Pct(45) {
		b.Sc.Gens = GenGens(g, pal, true)
	}
	if g.Pct(35) {
		for i, n := 0, g.Int(1, 2); i < n; i++ {
			b.Sc.Malformed = append(b.Sc.Malformed, Malformed{Kind: Pick(g, malformedKinds), Pos: g.Int(0, 6)})
		}
	}
	b.ShuffleInputs()
	return b.Sc
}

// GenUnderivable: a derivable skeleton with one link cut or one label
// perturbed (the analysis decides afterwards whether it really is underivable).
func GenUnderivable(g G, o GenFuncOpts) *Scenario {
	sc := GenDerivable(g, o, true, true, 3, 3)
	if g.Pct(35) {
		// the complete inputs are given to an earlier call of the same Func
		// (created with a default option); the call under test gets the cut set
		sc.PriorInputs = append([]Input(nil), sc.Inputs...)
		sc.TargetDefault = g.Pct(70)
		for i := range sc.Convs {
			sc.Convs[i].Once = false // memoized results legitimately outlive a call
		}
	}
	pal := Palette{Names: AllNames[:2], Subs: AllSubs, SubP: 50, NameP: 50}
	cuts := g.Int(1, 2)
	for k := 0; k < cuts; k++ {
		switch g.Int(0, 5) {
		case 0, 1: // drop an input
			if n := len(sc.Inputs); n > 0 {
				i := g.Int(0, n-1)
				sc.Inputs = append(sc.Inputs[:i:i], sc.Inputs[i+1:]...)
			}
		case 2: // drop a converter
			if n := len(sc.Convs); n > 0 {
				i := g.Int(0, n-1)
				sc.Convs = append(sc.Convs[:i:i], sc.Convs[i+1:]...)
			}
		case 3: // perturb the subtype of an input
			if n := len(sc.Inputs); n > 0 {
				i := g.Int(0, n-1)
				sc.Inputs[i].L.Sub = Pick(g, []string{"s", "t", "u"})
			}
		case 4: // rename an input
			if n := len(sc.Inputs); n > 0 {
				i := g.Int(0, n-1)
				if sc.Inputs[i].L.Named() {
					sc.Inputs[i].L.Name = Pick(g, AllNames)
				}
			}
		default: // give a target parameter a subtype nobody produces
			if n := len(sc.Target.In); n > 0 && sc.Target.InForm != FormPos && !sc.Target.Built {
				i := g.Int(0, n-1)
				sc.Target.In[i].Sub = "u"
			}
		}
	}
	_ = pal
	return sc
}

// GenPaletteC08 draws a palette inside C08's domain: concrete types only, no
// subtypes, each name denoting a single type.
func GenPaletteC08(g G) Palette {
	p := GenPalette(g, false, false)
	p.NoSub = true
	p.Subs, p.SubP = nil, 0
	p.Names = AllNames[:g.Int(2, 4)]
	p.NameType = map[string]int{}
	for _, n := range p.Names {
		p.NameType[n] = Pick(g, p.Types)
	}
	return p
}

// GenRedefineFocus draws a scenario plus an input filter aimed at the region
// of Redefine's planning space that ordinary profiles rarely reach: the
// target's own parameter types are (mostly) NOT permitted, so planning must go
// through converters, whose inputs -- interface-typed ones included -- become
// the fresh inputs of the redefined function; some leaves are pre-supplied.
func GenRedefineFocus(g G) (*Scenario, []int) {
	o := DefaultFuncOpts()
	o.AllowOnce = true
	pal := GenPalette(g, true, true)
	// make interface-typed converter inputs likely
	if g.Pct(70) {
		it := TypeI0 + g.Int(0, 1)
		pal.Types = append(pal.Types, it, it)
	}
	b := NewBuilder(g, pal, o)
	b.Sc.Target = GenTarget(g, pal, 2, o)
	for _, p := range b.Sc.Target.In {
		b.Produce(p, g.Int(1, 3), 2)
	}
	if g.Pct(30) {
		b.AddReverse(40)
	}
	var filter []int
	// everything a converter takes as input is something the caller can give
	for i := range b.Sc.Convs {
		for _, l := range b.Sc.Convs[i].In {
			if g.Pct(85) {
				filter = append(filter, l.Type)
			}
		}
	}
	var kept []Input
	for _, in := range b.Sc.Inputs {
		if g.Pct(40) {
			kept = append(kept, in) // pre-supplied
		} else {
			filter = append(filter, in.L.Type)
		}
	}
	b.Sc.Inputs = kept
	if g.Pct(30) {
		for _, p := range b.Sc.Target.In {
			filter = append(filter, p.Type)
		}
	}
	seen := map[int]bool{}
	var uf []int
	for t := 0; t < NumTypes; t++ {
		for _, f := range filter {
			if f == t && !seen[t] {
				seen[t] = true
				uf = append(uf, t)
			}
		}
	}
	return b.Sc, uf
}

// GenPaletteHostile draws a palette whose names and subtypes contain the
// characters and fragments that label-keyed data structures are sensitive to:
// "/" together with the (lower-case) String() of the types in play, and names
// that are not Go identifiers ("my-value", "9x"). Such names can only be
// declared through struct tags, so every named label uses a tag.
func GenPaletteHostile(g G) Palette {
	p := Palette{Types: []int{4, 5}, NameP: 70, SubP: 60}
	if g.Pct(30) {
		p.Types = append(p.Types, g.Int(0, 3))
	}
	names := []string{"a", "a/engine.t4", "a/engine.t5", "my-value", "9x", "engine.t4"}
	k := g.Int(2, 4)
	perm := rapid.Permutation(names).Draw(g.T, "names")
	p.Names = perm[:k]
	if g.Pct(70) {
		p.Names[0] = "a"
	}
	p.Subs = []string{"y", "engine.t4/y", "engine.t5/y"}
	p.Hostile = true
	return p
}

// GenHostile: a backward-grown scenario over the hostile label palette.
func GenHostile(g G, o GenFuncOpts) *Scenario {
	pal := GenPaletteHostile(g)
	b := NewBuilder(g, pal, o)
	b.Sc.Target = GenTarget(g, pal, 3, o)
	for _, p := range b.Sc.Target.In {
		b.Produce(p, g.Int(0, 2), 2)
	}
	b.Distract(3, 2)
	b.ShuffleInputs()
	return b.Sc
}

// Wide pools: longer and non-ASCII identifiers, more subtypes.
var (
	WideNames = []string{"a", "b", "cd", "ef", "a_very_long_parameter_name_that_goes_on_and_on", "x1", "x2", "ünï", "naïve", "q", "zz9", "ab"}
	WideSubs  = []string{"s", "t", "u", "v1", "a.b", "sub type", "ÿ", "0", "long-subtype-label-xxxxxxxxxxxxxxxxxxxxxxxx"}
)

// GenWide: the same backward-grown scenarios at larger sizes than the other
// profiles use: up to 6 parameters per function, up to 12 converters, chains
// up to depth 8, names and subtypes from the wide pools.
func GenWide(g G, o GenFuncOpts) *Scenario {
	pal := GenPalette(g, true, true)
	pal.Names = append([]string(nil), WideNames[:g.Int(3, len(WideNames))]...)
	pal.Subs, pal.SubP = WideSubs[:g.Int(2, len(WideSubs))], 40
	o.MaxIn, o.MaxOut = 6, 4
	b := NewBuilder(g, pal, o)
	b.Sc.Target = GenTarget(g, pal, 6, o)
	b.maxConvs = 12
	for _, p := range b.Sc.Target.In {
		b.Produce(p, g.Int(0, 8), 3)
	}
	b.Distract(4, 4)
	b.ShuffleInputs()
	return b.Sc
}

// GenMany: a call graph several times larger than the other profiles build
// (size-dependent behaviour: pre-sized buffers, recursion depth, search cost):
// 40-160 single-input converters over generated value names n0, n1, ..., each
// turning an earlier value into the next one (a chain, a tree, or a mix); the
// target asks for up to three late values, only n0 is supplied. Every
// converter has one input and everything is derivable, so the call must
// succeed (C05 premise (a)).
func GenMany(g G) *Scenario {
	n := Pick(g, []int{40, 60, 70, 100, 130, 160})
	chainP := Pick(g, []int{30, 80, 100})
	mk := func(i int) Label {
		t := g.Int(0, 5)
		return Label{Name: fmt.Sprintf("n%d", i), Type: t, Dyn: t}
	}
	labels := []Label{mk(0)}
	sc := &Scenario{Inputs: []Input{{L: labels[0], Tok: 1}}}
	for i := 1; i <= n; i++ {
		from := labels[i-1]
		if !g.Pct(chainP) {
			from = labels[g.Int(0, i-1)]
		}
		to := mk(i)
		id := i
		if id >= TargetID {
			id += 100 // keep clear of the target's id
		}
		fs := FuncSpec{ID: id, InForm: Pick(g, []string{FormStruct, FormPtr}), OutForm: Pick(g, []string{FormStruct, FormPtr}),
			In: []Label{from}, Out: []Label{to}, HasErr: g.Pct(20)}
		sc.Convs = append(sc.Convs, fs)
		labels = append(labels, to)
	}
	// registration order is not creation order
	perm := rapid.Permutation(sc.Convs).Draw(g.T, "order")
	sc.Convs = perm
	tgt := FuncSpec{ID: TargetID, InForm: FormStruct, OutForm: FormPos}
	seen := map[string]bool{}
	for i, k := 0, g.Int(1, 3); i < k; i++ {
		l := labels[n-g.Int(0, n/3)]
		if !seen[l.Name] {
			seen[l.Name] = true
			tgt.In = append(tgt.In, l)
		}
	}
	tgt.Out = []Label{{Type: 0, Dyn: 0}}
	sc.Target = tgt
	return sc
}

// GenLadder: a deep "diamond ladder" of two-input converters over type-only
// labels: level i has two values A_i and B_i (type-only, told apart by their
// subtype labels), made by C_i(A_{i-1}, B_{i-1}) -> A_i and D_i(A_{i-1},
// B_{i-1}) -> B_i; A_0 and B_0 are supplied, the target takes A_n and B_n.
// Acyclic, every converter satisfiable (premise (b) of C05), 18-26 levels. A
// resolver that reaches every argument of every converter afresh needs 2^n
// executions; with any per-call reuse of reached values the cost is
// polynomial.
func GenLadder(g G) *Scenario {
	n := g.Int(18, 26)
	ta, tb := g.Int(0, 5), g.Int(0, 5)
	a := func(i int) Label { return Label{Type: ta, Dyn: ta, Sub: fmt.Sprintf("a%d", i)} }
	b := func(i int) Label { return Label{Type: tb, Dyn: tb, Sub: fmt.Sprintf("b%d", i)} }
	sf := func() string { return Pick(g, []string{FormStruct, FormPtr}) }
	sc := &Scenario{Inputs: []Input{{L: a(0), Tok: 1}, {L: b(0), Tok: 2}}}
	for i := 1; i <= n; i++ {
		in := []Label{a(i - 1), b(i - 1)}
		sc.Convs = append(sc.Convs,
			FuncSpec{ID: 2*i - 1, In: in, InForm: sf(), Out: []Label{a(i)}, OutForm: sf()},
			FuncSpec{ID: 2 * i, In: []Label{in[1], in[0]}, InForm: sf(), Out: []Label{b(i)}, OutForm: sf()})
	}
	sc.Convs = rapid.Permutation(sc.Convs).Draw(g.T, "order")
	sc.Target = FuncSpec{ID: TargetID, InForm: sf(), In: []Label{a(n), b(n)}, OutForm: FormPos, Out: []Label{{Type: 0, Dyn: 0}}}
	return sc
}

// GenLayered: multi-input converter sets that are acyclic BY CONSTRUCTION:
// the six concrete types are ranked and every converter's inputs have strictly
// lower rank than its outputs (no interfaces, so type compatibility is type
// identity). Targets take the highest ranks. Diamonds (one converter feeding
// two inputs of another) are frequent. This is premise (b) of C05.
func GenLayered(g G, o GenFuncOpts) *Scenario {
	order := rapid.Permutation([]int{0, 1, 2, 3, 4, 5}).Draw(g.T, "rank") // order[r] = type of rank r
	rank := map[int]int{}
	for r, t := range order {
		rank[t] = r
	}
	pal := Palette{Types: order, Names: AllNames[:g.Int(1, 3)], NameP: Pick(g, []int{20, 40, 60})}
	if g.Pct(40) {
		pal.Subs, pal.SubP = AllSubs, 25
	}
	b := NewBuilder(g, pal, o)
	lab := func(t int, form string) Label {
		l := Label{Type: t, Dyn: t}
		if form != FormPos {
			if g.Pct(pal.NameP) {
				l.Name = Pick(g, pal.Names)
			}
			l.Sub = pal.sub(g)
		}
		return l
	}
	// target over the top ranks
	tf := GenForm(g)
	tgt := FuncSpec{ID: TargetID, InForm: tf, OutForm: FormPos}
	for i, n := 0, g.Int(1, 3); i < n; i++ {
		l := lab(order[5-g.Int(0, 2)], tf)
		if sideOK(tgt.In, l, tf, false, false) {
			tgt.In = append(tgt.In, l)
		}
	}
	if len(tgt.In) == 0 {
		tgt.In = []Label{{Type: order[5], Dyn: order[5]}}
		tgt.InForm = FormPos
	}
	b.Sc.Target = tgt
	var produce func(p Label, depth int)
	produce = func(p Label, depth int) {
		r := rank[p.Type]
		if r == 0 || depth <= 0 || g.Pct(25) || len(b.Sc.Convs) >= 7 {
			b.AddInput(CompatSource(g, pal, p))
			return
		}
		src := CompatSource(g, pal, p)
		fs := FuncSpec{ID: b.NewID(), InForm: GenForm(g), OutForm: GenForm(g), HasErr: g.Pct(o.ErrP)}
		if (src.Named() || src.Sub != "") && fs.OutForm == FormPos {
			fs.OutForm = FormStruct
		}
		fs.Out = []Label{src}
		for i, n := 0, g.Int(1, 3); i < n; i++ {
			l := lab(order[g.Int(0, r-1)], fs.InForm)
			if sideOK(fs.In, l, fs.InForm, false, false) {
				fs.In = append(fs.In, l)
			}
		}
		ins := append([]Label(nil), fs.In...)
		b.AddConv(fs)
		if len(ins) >= 2 && g.Pct(40) {
			// diamond: one converter produces the first two inputs; its own
			// inputs rank below both
			lo := rank[ins[0].Type]
			if rank[ins[1].Type] < lo {
				lo = rank[ins[1].Type]
			}
			s0, s1 := CompatSource(g, pal, ins[0]), CompatSource(g, pal, ins[1])
			k := FuncSpec{ID: b.NewID(), InForm: GenForm(g), OutForm: FormStruct, HasErr: g.Pct(o.ErrP)}
			if lo > 0 && sideOK([]Label{s0}, s1, FormStruct, true, false) {
				k.Out = []Label{s0, s1}
				for i, n := 0, g.Int(1, 2); i < n; i++ {
					l := lab(order[g.Int(0, lo-1)], k.InForm)
					if sideOK(k.In, l, k.InForm, false, false) {
						k.In = append(k.In, l)
					}
				}
				kin := append([]Label(nil), k.In...)
				b.AddConv(k)
				for _, q := range kin {
					produce(q, depth-1)
				}
				ins = ins[2:]
			}
		}
		for _, q := range ins {
			produce(q, depth-1)
		}
	}
	for _, p := range b.Sc.Target.In {
		produce(p, g.Int(1, 4))
	}
	b.ShuffleInputs()
	return b.Sc
}
