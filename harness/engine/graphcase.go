package engine

import (
	"encoding/json"
	"fmt"

	"github.com/hashicorp/go-argmapper/internal/graph"
	"pgregory.net/rapid"
)

// SetX stores a property-specific payload in the case.
func (c *Case) SetX(v interface{}) { c.X = json.RawMessage(CanonJSON(v)) }

// GetX decodes the payload.
func (c *Case) GetX(v interface{}) error {
	if len(c.X) == 0 {
		return fmt.Errorf("case has no payload")
	}
	return json.Unmarshal(c.X, v)
}

// HV is a vertex with an explicit hash code: two HVs with the same ID are the
// same vertex for the graph even though they are different Go objects.
type HV struct {
	ID     int
	Serial int
}

func (v *HV) Hashcode() interface{} { return v.ID }
func (v *HV) String() string        { return fmt.Sprintf("v%d#%d", v.ID, v.Serial) }

// HVU is a hash-coded vertex whose Go value is NOT comparable (it holds a
// slice): "Vertex can be anything", and the hash code is its identity.
type HVU struct {
	ID   int
	Tags []string
}

func (v HVU) Hashcode() interface{} { return v.ID }

// HK is a hash code that itself implements VertexHashable (with a different
// code): identity is hashcode(v), never hashcode(hashcode(v)).
type HK struct{ ID int }

func (k HK) Hashcode() interface{} { return k.ID + 100000 }

// HVK is a vertex whose hash code is an HK.
type HVK struct{ ID int }

func (v *HVK) Hashcode() interface{} { return HK{v.ID} }

// GraphCase is a static digraph plus query parameters (C18, C20).
type GraphCase struct {
	N       int      `json:"n"`
	Hash    bool     `json:"hash"`              // vertices are *HV (hash-coded) instead of plain ints
	Uncmp   bool     `json:"uncmp,omitempty"`   // with Hash: vertices are HVU values (hash-coded, not comparable)
	HashKey bool     `json:"hashKey,omitempty"` // with Hash: vertices are *HVK (their hash code implements VertexHashable itself)
	Edges   [][3]int `json:"edges"`             // u, v, weight; later entries overwrite earlier ones
	Src     int      `json:"src"`
	Decline []int    `json:"decline,omitempty"` // DFS: vertices whose callback does not descend
	Kind    string   `json:"kind,omitempty"`    // generator class
	// CopyAt (k+1, 0 = never): after the first k edges the graph is replaced
	// by its Copy() and the remaining edges are added to the copy -- the way
	// the library itself works on call graphs.
	CopyAt int `json:"copyAt,omitempty"`
}

// Inf is "unreachable" in reference distance matrices.
const Inf = int(1) << 60

// Build constructs the library graph and returns the vertex objects by id.
func (gc *GraphCase) Build() (*graph.Graph, []graph.Vertex) {
	var g graph.Graph
	vs := make([]graph.Vertex, gc.N)
	for i := 0; i < gc.N; i++ {
		if gc.Hash && gc.HashKey {
			vs[i] = &HVK{ID: i}
		} else if gc.Hash && gc.Uncmp {
			vs[i] = HVU{ID: i, Tags: []string{"t"}}
		} else if gc.Hash {
			vs[i] = &HV{ID: i}
		} else {
			vs[i] = i
		}
		g.Add(vs[i])
	}
	gp := &g
	for i, e := range gc.Edges {
		if gc.CopyAt == i+1 {
			gp = gp.Copy()
		}
		gp.AddEdgeWeighted(vs[e[0]], vs[e[1]], e[2])
	}
	if gc.CopyAt == len(gc.Edges)+1 {
		gp = gp.Copy()
	}
	return gp, vs
}

// Weights is the reference edge map (last weight wins).
func (gc *GraphCase) Weights() map[[2]int]int {
	m := map[[2]int]int{}
	for _, e := range gc.Edges {
		m[[2]int{e[0], e[1]}] = e[2]
	}
	return m
}

// FloydWarshall computes all-pairs distances over weights (Inf = unreachable;
// d[i][i] = 0).
func FloydWarshall(n int, w map[[2]int]int) [][]int {
	d := make([][]int, n)
	for i := range d {
		d[i] = make([]int, n)
		for j := range d[i] {
			d[i][j] = Inf
		}
		d[i][i] = 0
	}
	for e, wt := range w {
		if wt < d[e[0]][e[1]] {
			d[e[0]][e[1]] = wt
		}
	}
	for k := 0; k < n; k++ {
		for i := 0; i < n; i++ {
			if d[i][k] == Inf {
				continue
			}
			for j := 0; j < n; j++ {
				if d[k][j] != Inf && d[i][k]+d[k][j] < d[i][j] {
					d[i][j] = d[i][k] + d[k][j]
				}
			}
		}
	}
	return d
}

// Reach computes the strict transitive closure: r[i][j] iff there is a path of
// >= 1 edge from i to j (one breadth-first search per vertex over adjacency
// lists, so that graphs of a thousand vertices stay cheap).
func Reach(n int, w map[[2]int]int) [][]bool {
	adj := make([][]int, n)
	for e := range w {
		adj[e[0]] = append(adj[e[0]], e[1])
	}
	r := make([][]bool, n)
	for i := range r {
		r[i] = make([]bool, n)
		queue := append([]int(nil), adj[i]...)
		for _, t := range queue {
			r[i][t] = true
		}
		for len(queue) > 0 {
			u := queue[0]
			queue = queue[1:]
			for _, t := range adj[u] {
				if !r[i][t] {
					r[i][t] = true
					queue = append(queue, t)
				}
			}
		}
	}
	return r
}

// Unreachable marks an unreachable vertex in a SingleSource row.
const Unreachable = -1

// SingleSource is the reference distance row from src (Bellman-Ford over the
// edge list, d[src] = 0, Unreachable for vertices src cannot reach). Weights
// are non-negative ints of any size: sums are computed in saturating unsigned
// arithmetic, and representable is false when the true minimum distance of
// some reachable vertex does not fit an int (such a graph is
// outside what an int-valued distance map can answer).
func SingleSource(n int, w map[[2]int]int, src int) (row []int, representable bool) {
	const inf = ^uint64(0)
	const maxInt = uint64(^uint(0) >> 1)
	d := make([]uint64, n)
	for i := range d {
		d[i] = inf
	}
	d[src] = 0
	type edge struct {
		u, v int
		w    uint64
	}
	es := make([]edge, 0, len(w))
	for e, wt := range w {
		es = append(es, edge{e[0], e[1], uint64(wt)})
	}
	for pass := 0; pass < n; pass++ {
		changed := false
		for _, e := range es {
			if d[e.u] == inf {
				continue
			}
			sum := d[e.u] + e.w
			if sum < d[e.u] || sum >= inf {
				sum = inf - 1 // saturate: reachable, but absurdly far
			}
			if sum < d[e.v] {
				d[e.v] = sum
				changed = true
			}
		}
		if !changed {
			break
		}
	}
	row = make([]int, n)
	representable = true
	for i, x := range d {
		switch {
		case x == inf:
			row[i] = Unreachable
		case x > maxInt:
			representable = false
			row[i] = int(maxInt)
		default:
			row[i] = int(x)
		}
	}
	return row, representable
}

// VID maps a vertex object back to its id.
func VID(v graph.Vertex) int {
	switch x := v.(type) {
	case int:
		return x
	case *HV:
		return x.ID
	case HVU:
		return x.ID
	case *HVK:
		return x.ID
	}
	return -1
}

// GenGraphCase draws a digraph. kind: "any" (cyclic allowed), "dag", "rooted"
// (single-rooted DAG).
func GenGraphCase(g G, kind string, maxN, maxW int) *GraphCase {
	gc := &GraphCase{Kind: kind}
	switch k := g.Int(0, 9); {
	case k < 2:
		gc.N = g.Int(1, 4)
	case k < 7:
		gc.N = g.Int(5, (maxN+1)/2)
	default:
		gc.N = g.Int((maxN+1)/2, maxN)
	}
	big := g.Pct(3)
	if big {
		// now and then a much larger graph: sizes around the powers of two at
		// which pre-sized buffers, slabs and explicit stacks run over
		gc.N = Pick(g, []int{maxN + 1, 2 * maxN, 33, 63, 64, 65, 66, 100, 127, 128, 129, 130, 140, 200, 255, 256, 257, 300, 511, 512, 513, 600})
		if g.Pct(6) {
			gc.N = Pick(g, []int{1023, 1024, 1025, 1100})
		}
	}
	gc.Hash = g.Bool()
	gc.Uncmp = gc.Hash && g.Pct(30)
	gc.HashKey = gc.Hash && !gc.Uncmp && g.Pct(15)
	// weight palette: small palettes force ties
	var wp []int
	switch g.Int(0, 4) {
	case 4:
		// huge weights: beyond 32 bits, path sums still far below Inf
		wp = []int{0, 1, 5, 1<<31 - 1, 1 << 31, 3000000000, 1 << 32, 1<<33 + 7, 1 << 40}
	case 0:
		wp = []int{1}
	case 1:
		wp = []int{0, 1, 2}
	case 2:
		wp = []int{1, 5, 20}
	default:
		wp = nil
	}
	weight := func() int {
		if wp != nil {
			return Pick(g, wp)
		}
		return g.Int(0, maxW)
	}
	n := gc.N
	maxE := n * 3
	if maxE > 80 && !big {
		maxE = 80
	}
	ne := g.Int(0, maxE)
	if g.Pct(75) && ne < n {
		// mostly connected-ish graphs: at least n edges
		ne = n + n/2 + g.Int(0, maxE-n-n/2)
	}
	var perm []int
	if kind != "any" {
		ids := make([]int, n)
		for i := range ids {
			ids[i] = i
		}
		perm = rapid.Permutation(ids).Draw(g.T, "order")
	}
	for i := 0; i < ne; i++ {
		u, v := g.Int(0, n-1), g.Int(0, n-1)
		if kind != "any" {
			if u == v {
				continue
			}
			if u > v {
				u, v = v, u
			}
			u, v = perm[u], perm[v]
		}
		gc.Edges = append(gc.Edges, [3]int{u, v, weight()})
	}
	if big {
		// a backbone so that (nearly) every vertex is discovered from the
		// first one and depth-first searches get deep: each vertex hangs off
		// its predecessor in a random order (chain) or off a random earlier one
		order := perm
		if order == nil {
			ids := make([]int, n)
			for i := range ids {
				ids[i] = i
			}
			order = rapid.Permutation(ids).Draw(g.T, "backbone")
		}
		chainP := Pick(g, []int{0, 50, 90, 100})
		for k := 1; k < n; k++ {
			from := order[k-1]
			if !g.Pct(chainP) {
				from = order[g.Int(0, k-1)]
			}
			gc.Edges = append(gc.Edges, [3]int{from, order[k], weight()})
		}
		if kind == "any" && g.Pct(40) {
			gc.Edges = append(gc.Edges, [3]int{order[n-1], order[0], weight()}) // close the ring
		}
		if kind != "rooted" && g.Pct(80) {
			defer func() { gc.Src = order[0] }()
		}
	}
	if kind == "rooted" {
		// every vertex except perm[0] gets at least one in-edge from an earlier one
		indeg := make([]int, n)
		for _, e := range gc.Edges {
			indeg[e[1]]++
		}
		for k := 1; k < n; k++ {
			if indeg[perm[k]] == 0 {
				gc.Edges = append(gc.Edges, [3]int{perm[g.Int(0, k-1)], perm[k], weight()})
				indeg[perm[k]]++
			}
		}
		gc.Src = perm[0]
	} else {
		gc.Src = g.Int(0, n-1)
		if len(gc.Edges) > 0 && g.Pct(70) {
			gc.Src = Pick(g, gc.Edges)[0]
		}
	}
	if g.Pct(15) {
		gc.CopyAt = g.Int(1, len(gc.Edges)+1)
	}
	return gc
}
