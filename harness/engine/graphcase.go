package engine

import (
	"encoding/json"
	"fmt"

	"github.com/hashicorp/go-argmapper/internal/graph"
	"pgregory.net/rapid"
)

// SetX stores a property-specific payload in the case.
func (c *Case) SetX(v interface{}) { c.X = json.RawMessage(CanonJSON(v)) }

// GetX decodes the payload.
func (c *Case) GetX(v interface{}) error {
	if len(c.X) == 0 {
		return fmt.Errorf("case has no payload")
	}
	return json.Unmarshal(c.X, v)
}

// HV is a vertex with an explicit hash code: two HVs with the same ID are the
// same vertex for the graph even though they are different Go objects.
type HV struct {
	ID     int
	Serial int
}

func (v *HV) Hashcode() interface{} { return v.ID }
func (v *HV) String() string        { return fmt.Sprintf("v%d#%d", v.ID, v.Serial) }

// GraphCase is a static digraph plus query parameters (C18, C20).
type GraphCase struct {
	N       int      `json:"n"`
	Hash    bool     `json:"hash"`  // vertices are *HV (hash-coded) instead of plain ints
	Edges   [][3]int `json:"edges"` // u, v, weight; later entries overwrite earlier ones
	Src     int      `json:"src"`
	Decline []int    `json:"decline,omitempty"` // DFS: vertices whose callback does not descend
	Kind    string   `json:"kind,omitempty"`    // generator class
}

// Inf is "unreachable" in reference distance matrices.
const Inf = int(1) << 60

// Build constructs the library graph and returns the vertex objects by id.
func (gc *GraphCase) Build() (*graph.Graph, []graph.Vertex) {
	var g graph.Graph
	vs := make([]graph.Vertex, gc.N)
	for i := 0; i < gc.N; i++ {
		if gc.Hash {
			vs[i] = &HV{ID: i}
		} else {
			vs[i] = i
		}
		g.Add(vs[i])
	}
	for _, e := range gc.Edges {
		g.AddEdgeWeighted(vs[e[0]], vs[e[1]], e[2])
	}
	return &g, vs
}

// Weights is the reference edge map (last weight wins).
func (gc *GraphCase) Weights() map[[2]int]int {
	m := map[[2]int]int{}
	for _, e := range gc.Edges {
		m[[2]int{e[0], e[1]}] = e[2]
	}
	return m
}

// FloydWarshall computes all-pairs distances over weights (Inf = unreachable;
// d[i][i] = 0).
func FloydWarshall(n int, w map[[2]int]int) [][]int {
	d := make([][]int, n)
	for i := range d {
		d[i] = make([]int, n)
		for j := range d[i] {
			d[i][j] = Inf
		}
		d[i][i] = 0
	}
	for e, wt := range w {
		if wt < d[e[0]][e[1]] {
			d[e[0]][e[1]] = wt
		}
	}
	for k := 0; k < n; k++ {
		for i := 0; i < n; i++ {
			if d[i][k] == Inf {
				continue
			}
			for j := 0; j < n; j++ {
				if d[k][j] != Inf && d[i][k]+d[k][j] < d[i][j] {
					d[i][j] = d[i][k] + d[k][j]
				}
			}
		}
	}
	return d
}

// Reach computes the strict transitive closure: r[i][j] iff there is a path of
// >= 1 edge from i to j.
func Reach(n int, w map[[2]int]int) [][]bool {
	r := make([][]bool, n)
	for i := range r {
		r[i] = make([]bool, n)
	}
	for e := range w {
		r[e[0]][e[1]] = true
	}
	for k := 0; k < n; k++ {
		for i := 0; i < n; i++ {
			if !r[i][k] {
				continue
			}
			for j := 0; j < n; j++ {
				if r[k][j] {
					r[i][j] = true
				}
			}
		}
	}
	return r
}

// VID maps a vertex object back to its id.
func VID(v graph.Vertex) int {
	switch x := v.(type) {
	case int:
		return x
	case *HV:
		return x.ID
	}
	return -1
}

// GenGraphCase draws a digraph. kind: "any" (cyclic allowed), "dag", "rooted"
// (single-rooted DAG).
func GenGraphCase(g G, kind string, maxN, maxW int) *GraphCase {
	gc := &GraphCase{Kind: kind}
	switch k := g.Int(0, 9); {
	case k < 2:
		gc.N = g.Int(1, 4)
	case k < 7:
		gc.N = g.Int(5, (maxN+1)/2)
	default:
		gc.N = g.Int((maxN+1)/2, maxN)
	}
	big := g.Pct(3)
	if big {
		// now and then a graph several times larger than the usual bound
		gc.N = g.Int(maxN+1, 5*maxN)
	}
	gc.Hash = g.Bool()
	// weight palette: small palettes force ties
	var wp []int
	switch g.Int(0, 4) {
	case 4:
		// huge weights: beyond 32 bits, path sums still far below Inf
		wp = []int{0, 1, 5, 1<<31 - 1, 1 << 31, 3000000000, 1 << 32, 1<<33 + 7, 1 << 40}
	case 0:
		wp = []int{1}
	case 1:
		wp = []int{0, 1, 2}
	case 2:
		wp = []int{1, 5, 20}
	default:
		wp = nil
	}
	weight := func() int {
		if wp != nil {
			return Pick(g, wp)
		}
		return g.Int(0, maxW)
	}
	n := gc.N
	maxE := n * 3
	if maxE > 80 && !big {
		maxE = 80
	}
	ne := g.Int(0, maxE)
	if g.Pct(75) && ne < n {
		// mostly connected-ish graphs: at least n edges
		ne = n + n/2 + g.Int(0, maxE-n-n/2)
	}
	var perm []int
	if kind != "any" {
		ids := make([]int, n)
		for i := range ids {
			ids[i] = i
		}
		perm = rapid.Permutation(ids).Draw(g.T, "order")
	}
	for i := 0; i < ne; i++ {
		u, v := g.Int(0, n-1), g.Int(0, n-1)
		if kind != "any" {
			if u == v {
				continue
			}
			if u > v {
				u, v = v, u
			}
			u, v = perm[u], perm[v]
		}
		gc.Edges = append(gc.Edges, [3]int{u, v, weight()})
	}
	if kind == "rooted" {
		// every vertex except perm[0] gets at least one in-edge from an earlier one
		indeg := make([]int, n)
		for _, e := range gc.Edges {
			indeg[e[1]]++
		}
		for k := 1; k < n; k++ {
			if indeg[perm[k]] == 0 {
				gc.Edges = append(gc.Edges, [3]int{perm[g.Int(0, k-1)], perm[k], weight()})
				indeg[perm[k]]++
			}
		}
		gc.Src = perm[0]
	} else {
		gc.Src = g.Int(0, n-1)
		if len(gc.Edges) > 0 && g.Pct(70) {
			gc.Src = Pick(g, gc.Edges)[0]
		}
	}
	return gc
}
