package engine

import (
	"encoding/binary"
	"encoding/json"
	"fmt"
	"os"
	"path/filepath"
	"runtime"
	"sort"
	"strconv"
	"sync"
	"sync/atomic"
	"time"
)

// Case is the union of everything a property check can be asked to evaluate.
// It is plain data with a canonical JSON form: the journal entry, the replay
// file, the corpus file, the evidence sample and the hash key.
type Case struct {
	Prop  string `json:"prop"`
	Reps  int    `json:"reps,omitempty"`
	Entry string `json:"entry,omitempty"` // "call" (default) | "convert" | "redefine"
	// Filter (entry "redefine"): when HasFilter, Redefine gets an input
	// filter accepting exactly these universe types.
	Filter    []int           `json:"filter,omitempty"`
	HasFilter bool            `json:"hasFilter,omitempty"`
	Sc        *Scenario       `json:"sc,omitempty"`
	X         json.RawMessage `json:"x,omitempty"` // property-specific payload
	Note      string          `json:"note,omitempty"`
}

// Verdict is what an oracle says about one case.
type Verdict struct {
	Fail       string   // non-empty: the property is violated (message)
	NonTrivial bool     // by the property's stated rule
	Classes    []string // classification labels for the evidence histogram
	Known      string   // non-empty: the failure matches this known finding (not a violation)
	Excluded   string   // non-empty: case excluded by construction (known finding class), not evaluated
}

func (v *Verdict) Class(c string) { v.Classes = append(v.Classes, c) }
func (v *Verdict) Failf(format string, a ...interface{}) {
	if v.Fail == "" {
		v.Fail = fmt.Sprintf(format, a...)
	}
}

// Stats is the per-process statistics of one property run.
type Stats struct {
	Prop        string         `json:"prop"`
	Evaluations int            `json:"evaluations"`
	NonTrivial  int            `json:"nontrivial"`
	Failures    int            `json:"failures"`
	Known       map[string]int `json:"known,omitempty"`
	Excluded    map[string]int `json:"excluded,omitempty"`
	Classes     map[string]int `json:"classes"`
	Samples     []sample       `json:"samples"`
	hashes      map[uint64]struct{}
}

type sample struct {
	H    uint64          `json:"h"`
	Case json.RawMessage `json:"case"`
}

// Runner wraps oracle evaluation with the journal, statistics, replay-file
// and watchdog plumbing shared by all properties.
type Runner struct {
	Prop      string
	mu        sync.Mutex
	st        Stats
	journal   *os.File
	bestFail  int
	caseStart int64 // unix nanos of the running case, 0 if idle
	maxSample int
}

var (
	envStatsDir  = os.Getenv("VERIF_STATS_DIR")  // where stats/journal/replay candidates go
	envShard     = os.Getenv("VERIF_SHARD")      // shard tag
	envWatchdogS = os.Getenv("VERIF_WATCHDOG_S") // per-case wall-clock guard, seconds
)

func shardTag() string {
	if envShard == "" {
		return "0"
	}
	return envShard
}

// NewRunner creates the runner for a property. If VERIF_STATS_DIR is unset,
// statistics are kept in memory only.
func NewRunner(prop string) *Runner {
	r := &Runner{Prop: prop, maxSample: 8, bestFail: 1 << 30}
	r.st = Stats{Prop: prop, Classes: map[string]int{}, Known: map[string]int{}, Excluded: map[string]int{}, hashes: map[uint64]struct{}{}}
	if envStatsDir != "" {
		os.MkdirAll(envStatsDir, 0o755)
		f, err := os.OpenFile(filepath.Join(envStatsDir, fmt.Sprintf("journal-%s-%s.json", prop, shardTag())), os.O_CREATE|os.O_RDWR|os.O_TRUNC, 0o644)
		if err == nil {
			r.journal = f
		}
		wd := 20
		if envWatchdogS != "" {
			if n, err := strconv.Atoi(envWatchdogS); err == nil {
				wd = n
			}
		}
		if wd > 0 {
			go r.watchdog(time.Duration(wd) * time.Second)
		}
	}
	return r
}

// memLimit: a case that makes the process grow beyond this heap size is
// treated like a hang (a non-terminating walk that appends forever eats
// hundreds of MB per second; the sandbox has no memory limit of its own).
const memLimit = 3 << 30

func (r *Runner) watchdog(limit time.Duration) {
	var ms runtime.MemStats
	for {
		time.Sleep(250 * time.Millisecond)
		s := atomic.LoadInt64(&r.caseStart)
		if s != 0 && time.Since(time.Unix(0, s)) > 2*time.Second {
			runtime.ReadMemStats(&ms)
			if ms.HeapAlloc > memLimit {
				os.WriteFile(filepath.Join(envStatsDir, fmt.Sprintf("hang-%s-%s.marker", r.Prop, shardTag())), []byte("memory guard: heap beyond limit while one case was running\n"), 0o644)
				os.Exit(3)
			}
		}
		if s != 0 && time.Since(time.Unix(0, s)) > limit {
			// The journal holds the case in flight. Leave a marker and die;
			// the driver re-runs that one case alone with a larger budget.
			os.WriteFile(filepath.Join(envStatsDir, fmt.Sprintf("hang-%s-%s.marker", r.Prop, shardTag())), []byte("watchdog expired\n"), 0o644)
			os.Exit(3)
		}
	}
}

// Journal records the case in flight (so that a fatal crash can be attributed).
func (r *Runner) Journal(cj []byte) {
	if r.journal == nil {
		return
	}
	var hdr [8]byte
	binary.LittleEndian.PutUint64(hdr[:], uint64(len(cj)))
	buf := make([]byte, 0, len(cj)+8)
	buf = append(buf, hdr[:]...)
	buf = append(buf, cj...)
	r.journal.WriteAt(buf, 0)
}

// ReadJournal decodes a journal file written by Journal.
func ReadJournal(path string) ([]byte, error) {
	b, err := os.ReadFile(path)
	if err != nil {
		return nil, err
	}
	if len(b) < 8 {
		return nil, fmt.Errorf("journal too short")
	}
	n := binary.LittleEndian.Uint64(b[:8])
	if uint64(len(b)-8) < n {
		return nil, fmt.Errorf("journal truncated")
	}
	return b[8 : 8+n], nil
}

// Eval journals the case, evaluates it, updates statistics and, on failure,
// stores the (smallest so far) failing case as a replay candidate. It returns
// the verdict; the caller turns a failure into t.Fatalf with a *stable*
// message so that rapid's shrinker sees "the same error".
func (r *Runner) Eval(c *Case, eval func(*Case) Verdict) Verdict {
	cj := CanonJSON(c)
	r.Journal(cj)
	atomic.StoreInt64(&r.caseStart, time.Now().UnixNano())
	v := eval(c)
	atomic.StoreInt64(&r.caseStart, 0)

	r.mu.Lock()
	defer r.mu.Unlock()
	if v.Excluded != "" {
		r.st.Excluded[v.Excluded]++
		return v
	}
	r.st.Evaluations++
	for _, cl := range v.Classes {
		r.st.Classes[cl]++
	}
	if v.NonTrivial {
		r.st.NonTrivial++
		h := Hash64(cj)
		if _, seen := r.st.hashes[h]; !seen {
			r.st.hashes[h] = struct{}{}
			r.addSample(h, cj)
		}
	}
	if v.Fail != "" && v.Known != "" {
		r.st.Known[v.Known]++
		v.Fail = ""
		return v
	}
	if v.Fail != "" {
		r.st.Failures++
		if envStatsDir != "" && len(cj) < r.bestFail {
			r.bestFail = len(cj)
			WriteReplay(filepath.Join(envStatsDir, fmt.Sprintf("fail-%s-%s.json", r.Prop, shardTag())), c, v.Fail)
		}
	}
	return v
}

// addSample keeps the maxSample distinct non-trivial cases with the smallest
// hashes: deterministic for a given run and effectively a uniform sample.
func (r *Runner) addSample(h uint64, cj []byte) {
	s := r.st.Samples
	if len(s) < r.maxSample {
		r.st.Samples = append(s, sample{h, append([]byte(nil), cj...)})
		return
	}
	maxI := 0
	for i := range s {
		if s[i].H > s[maxI].H {
			maxI = i
		}
	}
	if h < s[maxI].H {
		s[maxI] = sample{h, append([]byte(nil), cj...)}
	}
}

// ReplayFile is the on-disk form of a failing (or corpus) case.
type ReplayFile struct {
	Prop    string `json:"property"`
	Message string `json:"message,omitempty"`
	Case    *Case  `json:"case"`
}

func WriteReplay(path string, c *Case, msg string) error {
	b, err := json.MarshalIndent(ReplayFile{Prop: c.Prop, Message: msg, Case: c}, "", " ")
	if err != nil {
		return err
	}
	os.MkdirAll(filepath.Dir(path), 0o755)
	return os.WriteFile(path, b, 0o644)
}

func ReadReplay(path string) (*ReplayFile, error) {
	b, err := os.ReadFile(path)
	if err != nil {
		return nil, err
	}
	var rf ReplayFile
	if err := json.Unmarshal(b, &rf); err != nil {
		return nil, err
	}
	if rf.Case == nil {
		return nil, fmt.Errorf("%s: no case", path)
	}
	if rf.Case.Prop == "" {
		rf.Case.Prop = rf.Prop
	}
	return &rf, nil
}

// Flush writes the statistics (and the distinct-hash set) for the driver.
func (r *Runner) Flush() {
	if envStatsDir == "" {
		return
	}
	r.mu.Lock()
	defer r.mu.Unlock()
	sort.Slice(r.st.Samples, func(i, j int) bool { return r.st.Samples[i].H < r.st.Samples[j].H })
	b, _ := json.Marshal(&r.st)
	os.WriteFile(filepath.Join(envStatsDir, fmt.Sprintf("stats-%s-%s.json", r.Prop, shardTag())), b, 0o644)
	hb := make([]byte, 0, 8*len(r.st.hashes))
	for h := range r.st.hashes {
		var x [8]byte
		binary.LittleEndian.PutUint64(x[:], h)
		hb = append(hb, x[:]...)
	}
	os.WriteFile(filepath.Join(envStatsDir, fmt.Sprintf("hashes-%s-%s.bin", r.Prop, shardTag())), hb, 0o644)
}

// Snapshot returns a copy of the counters (tests of the harness itself).
func (r *Runner) Snapshot() Stats {
	r.mu.Lock()
	defer r.mu.Unlock()
	return r.st
}

// GuardSingleCase protects replay/corpus evaluation (which runs without a
// Runner): if the case does not finish within limit, or the heap grows beyond
// memLimit, onTrip is called with the reason (it should report and exit).
// The returned function stops the guard.
func GuardSingleCase(limit time.Duration, onTrip func(reason string)) (stop func()) {
	done := make(chan struct{})
	go func() {
		start := time.Now()
		var ms runtime.MemStats
		for {
			select {
			case <-done:
				return
			case <-time.After(250 * time.Millisecond):
			}
			runtime.ReadMemStats(&ms)
			if ms.HeapAlloc > memLimit {
				onTrip("runaway memory growth: the operation does not terminate")
				return
			}
			if time.Since(start) > limit {
				onTrip(fmt.Sprintf("the operation did not return within %v", limit))
				return
			}
		}
	}()
	return func() { close(done) }
}
