package engine

// The two matching tables (DESIGN.md §4) and the derivability fixpoint.
// Both tables are declarative relations over labels, not a re-implementation
// of the library's call graph.

// RPlus is what property C01 permits: may a parameter labelled p be bound to a
// value that was supplied / produced under label src (whose dynamic type is
// src.Dyn)?
func RPlus(p, src Label) bool {
	// names: equal when both sides are named
	if p.Name != "" && src.Name != "" && p.Name != src.Name {
		return false
	}
	// types
	if src.Type == p.Type {
		if !IsIface(p.Type) {
			// identical concrete types: subtype equal or absent on one side
			return p.Sub == src.Sub || p.Sub == "" || src.Sub == ""
		}
		// identical interface types: the value is an implementation of the
		// parameter's interface type; judged leniently (DESIGN §4.1/§8.2).
		return true
	}
	if IsIface(p.Type) && (Implements(src.Type, p.Type) || (src.Dyn >= 0 && Implements(src.Dyn, p.Type))) {
		return true
	}
	return false
}

// RMinus is what the library undertakes to match (one row per edge rule of
// the call graph). It is a sub-relation of RPlus.
func RMinus(p, src Label) bool {
	pn, sn := p.Name != "", src.Name != ""
	switch {
	case pn && sn:
		return p.Name == src.Name && p.Type == src.Type && (p.Sub == src.Sub || (p.Sub == "" && src.Sub != ""))
	case pn && !sn:
		if p.Type == src.Type && src.Sub == "" {
			return true
		}
		// an interface-typed value vertex depends on the plain typed output of
		// its type, which is linked to EVERY other typed output whose type
		// implements the interface -- an implementer, a wider interface, or the
		// same interface under another subtype (call.go, interface loop)
		return IsIface(p.Type) && Implements(src.Type, p.Type)
	case !pn && sn:
		return p.Type == src.Type && (p.Sub == "" || p.Sub == src.Sub)
	default:
		if p.Type == src.Type && (p.Sub == src.Sub || p.Sub == "" || src.Sub == "") {
			return true
		}
		return IsIface(p.Type) && Implements(src.Type, p.Type)
	}
}

// Rel is a matching relation.
type Rel func(p, src Label) bool

// Analysis is the result of the derivability fixpoint for one scenario under
// one relation.
type Analysis struct {
	Sources   []Label      // all labels in the fixpoint (supplied + outputs of fired converters)
	Fired     map[int]bool // converters (by index in sc.Convs) all of whose inputs are matched
	ParamOK   []bool       // per target parameter
	Derivable bool         // every target parameter matched
}

// Analyze computes the least fixpoint: D0 = effective supplied labels; a
// converter fires when every one of its parameters is matched by a label in D
// (AND over inputs), contributing all its output labels.
func Analyze(sc *Scenario, rel Rel) Analysis {
	var a Analysis
	for _, in := range EffectiveInputs(sc.Inputs) {
		l := in.L
		l.Dyn = l.Type
		a.Sources = append(a.Sources, l)
	}
	convs := sc.Convs
	a.Fired = map[int]bool{}
	match := func(p Label) bool {
		for _, s := range a.Sources {
			if rel(p, s) {
				return true
			}
		}
		return false
	}
	// Generators run ONCE, over the value and typed-output vertices present
	// when the graph is built (supplied values, converter outputs, and the
	// named requirements of the target and of the converters); a converter
	// they emit takes the (type, subtype) of that vertex and is an ordinary
	// converter afterwards. Converters emitted by generators do not trigger
	// further generation.
	convs = append(append([]FuncSpec(nil), convs...), GeneratedConvs(sc)...)
	for changed := true; changed; {
		changed = false
		for i := range convs {
			if a.Fired[i] {
				continue
			}
			ok := true
			for _, p := range convs[i].In {
				if !match(p) {
					ok = false
					break
				}
			}
			if ok {
				a.Fired[i] = true
				a.Sources = append(a.Sources, convs[i].Out...)
				changed = true
			}
		}
	}
	a.Derivable = true
	for _, p := range sc.Target.In {
		ok := match(p)
		a.ParamOK = append(a.ParamOK, ok)
		if !ok {
			a.Derivable = false
		}
	}
	return a
}

// AllConvsSatisfiable: every supplied converter could itself be satisfied
// (under rel).
func AllConvsSatisfiable(sc *Scenario, rel Rel) bool {
	a := Analyze(sc, rel)
	for i := range sc.Convs {
		if !a.Fired[i] {
			return false
		}
	}
	return true
}

// SingleInput: every converter takes at most one input value.
func SingleInput(sc *Scenario) bool {
	for i := range sc.Convs {
		if len(sc.Convs[i].In) > 1 {
			return false
		}
	}
	return true
}

// DepCyclic reports whether the converter set has a cyclic dependency under
// rel: an edge c1 -> c2 exists if any output of c1 is rel-compatible with any
// input of c2 (self loops count).
func DepCyclic(sc *Scenario, rel Rel) bool {
	n := len(sc.Convs)
	adj := make([][]int, n)
	for i := 0; i < n; i++ {
		for j := 0; j < n; j++ {
			dep := false
			for _, o := range sc.Convs[i].Out {
				for _, p := range sc.Convs[j].In {
					if rel(p, o) {
						dep = true
					}
				}
			}
			if dep {
				adj[i] = append(adj[i], j)
			}
		}
	}
	color := make([]int, n)
	var visit func(int) bool
	visit = func(u int) bool {
		color[u] = 1
		for _, v := range adj[u] {
			if color[v] == 1 {
				return true
			}
			if color[v] == 0 && visit(v) {
				return true
			}
		}
		color[u] = 2
		return false
	}
	for i := 0; i < n; i++ {
		if color[i] == 0 && visit(i) {
			return true
		}
	}
	return false
}

// Candidates counts the supplied/produced labels that are rel-compatible
// with p among sources.
func Candidates(p Label, sources []Label, rel Rel) int {
	n := 0
	for _, s := range sources {
		if rel(p, s) {
			n++
		}
	}
	return n
}

// AllSourceLabels is every label a value could travel under in sc: effective
// inputs plus every output label of every converter (fired or not).
func AllSourceLabels(sc *Scenario) []Label {
	var out []Label
	for _, in := range EffectiveInputs(sc.Inputs) {
		l := in.L
		l.Dyn = l.Type
		out = append(out, l)
	}
	for i := range sc.Convs {
		out = append(out, sc.Convs[i].Out...)
	}
	for _, g := range sc.Gens {
		if g.Mode == "conv" {
			out = append(out, Label{Type: g.To, Dyn: g.To})
		}
	}
	return out
}

// ProducerLabels is AllSourceLabels with one label per PRODUCER: a generator
// counts once for every converter it emits (one per subtype among the values
// it is shown), since two converters emitted by one generator are two
// candidate routes. Premises of the kind "every parameter has a single
// candidate" are judged on this list.
func ProducerLabels(sc *Scenario) []Label {
	var out []Label
	for _, in := range EffectiveInputs(sc.Inputs) {
		l := in.L
		l.Dyn = l.Type
		out = append(out, l)
	}
	for i := range sc.Convs {
		out = append(out, sc.Convs[i].Out...)
	}
	for _, gc := range GeneratedConvs(sc) {
		out = append(out, gc.Out...)
	}
	return out
}

// GeneratedConvs lists the converters the scenario's "conv"-mode generators
// emit: one per generator and per (type, subtype) among the vertices a
// generator is shown.
func GeneratedConvs(sc *Scenario) []FuncSpec {
	var shown []Label
	for _, in := range EffectiveInputs(sc.Inputs) {
		shown = append(shown, in.L)
	}
	fs := append([]FuncSpec{sc.Target}, sc.Convs...)
	for i := range fs {
		for _, l := range fs[i].In {
			if l.Named() { // named requirements are value vertices
				shown = append(shown, l)
			}
		}
		if i > 0 {
			shown = append(shown, fs[i].Out...)
		}
	}
	var out []FuncSpec
	seen := map[string]bool{}
	for gi, g := range sc.Gens {
		if g.Mode == "odd" {
			// only supplied values carry a value when the generators run
			for _, in := range EffectiveInputs(sc.Inputs) {
				if in.L.Type == g.From && in.Tok%2 == 1 {
					out = append(out, FuncSpec{ID: 1000000 * g.ID, In: []Label{{Type: g.From, Dyn: g.From, Sub: in.L.Sub}}, InForm: FormStruct,
						Out: []Label{{Type: g.To, Dyn: g.To}}, OutForm: FormStruct, HasErr: true, Built: true})
				}
			}
			continue
		}
		if g.Mode != "conv" {
			continue
		}
		for _, l := range shown {
			if l.Type != g.From {
				continue
			}
			k := string(rune('0'+gi)) + "/" + l.Sub
			if seen[k] {
				continue
			}
			seen[k] = true
			out = append(out, FuncSpec{ID: 1000000 * g.ID, In: []Label{{Type: g.From, Dyn: g.From, Sub: l.Sub}}, InForm: FormStruct,
				Out: []Label{{Type: g.To, Dyn: g.To}}, OutForm: FormStruct, HasErr: true, Built: true})
		}
	}
	return out
}
