package engine

import (
	"errors"
	"fmt"

	"github.com/hashicorp/go-argmapper"
)

// CheckBinding is the C01 oracle for one received parameter: the value is
// present, its token is in the ledger (supplied by the caller or returned by a
// supplied converter), its dynamic type fits the parameter, and the label it
// travelled under is R+ compatible with the parameter's label.
func CheckBinding(w *World, fn int, a ArgObs) string {
	if !a.Valid || a.Tok == 0 {
		return fmt.Sprintf("f%d parameter %s received a missing/zero value", fn, a.L)
	}
	o, ok := w.Origin(a.Tok)
	if !ok {
		return fmt.Sprintf("f%d parameter %s received invented token #%d", fn, a.L, a.Tok)
	}
	if a.Dyn != o.Dyn {
		return fmt.Sprintf("f%d parameter %s: token #%d has dynamic type %s but was created as %s", fn, a.L, a.Tok, TypeName(a.Dyn), TypeName(o.Dyn))
	}
	if a.Dyn != a.L.Type && !Implements(a.Dyn, a.L.Type) {
		return fmt.Sprintf("f%d parameter %s received a value of type %s", fn, a.L, TypeName(a.Dyn))
	}
	src := o.L
	src.Dyn = o.Dyn
	ok = RPlus(a.L, src)
	for _, alt := range o.Alt {
		ok = ok || RPlus(a.L, alt)
	}
	if !ok {
		from := "input"
		if !o.Input {
			from = fmt.Sprintf("output of f%d", o.Func)
		}
		return fmt.Sprintf("f%d parameter %s was bound to #%d which travelled under %s (%s): labels incompatible", fn, a.L, a.Tok, o.L, from)
	}
	return ""
}

// CheckBindings applies CheckBinding to every parameter of every event.
func CheckBindings(w *World, evs []Event) string {
	for _, ev := range evs {
		for _, a := range ev.Args {
			if msg := CheckBinding(w, ev.Func, a); msg != "" {
				return msg
			}
		}
	}
	return ""
}

// IsUnsatisfied reports whether err is (wraps) the dedicated error type.
func IsUnsatisfied(err error) (*argmapper.ErrArgumentUnsatisfied, bool) {
	var ua *argmapper.ErrArgumentUnsatisfied
	if errors.As(err, &ua) {
		return ua, true
	}
	return nil, false
}

// TargetRan reports whether the target body appears in the events.
func TargetRan(evs []Event) bool {
	for _, e := range evs {
		if e.Func == TargetID {
			return true
		}
	}
	return false
}

// ConvExecs counts converter (non-target) executions.
func ConvExecs(evs []Event) int {
	n := 0
	for _, e := range evs {
		if e.Func != TargetID {
			n++
		}
	}
	return n
}

// ScenarioClasses adds the shared structural classes of a scenario.
func ScenarioClasses(v *Verdict, sc *Scenario) {
	if len(sc.Gens) > 0 {
		v.Class("has-generator")
	}
	if len(sc.Convs) >= 40 {
		v.Class("converters>=40")
	}
	if len(sc.Convs) >= 36 && len(sc.Inputs) == 2 && len(sc.Target.In) == 2 && len(sc.Convs[0].In) == 2 {
		v.Class("deep-diamond-ladder")
	}
	for _, l := range append(AllSourceLabels(sc), sc.Target.In...) {
		switch l.Type {
		case TypeU:
			v.Class("unnamed-struct-type")
		case TypeAny:
			v.Class("empty-interface")
		case TypeI0b:
			v.Class("twin-interface")
		}
	}
	built, once, ptr, pos, iface, sub, multi := false, false, false, false, false, false, false
	fs := append([]FuncSpec{sc.Target}, sc.Convs...)
	for i := range fs {
		f := &fs[i]
		built = built || f.Built
		once = once || f.Once
		ptr = ptr || f.InForm == FormPtr || f.OutForm == FormPtr
		pos = pos || f.InForm == FormPos || f.OutForm == FormPos
		multi = multi || (i > 0 && len(f.In) > 1)
		for _, l := range append(append([]Label(nil), f.In...), f.Out...) {
			iface = iface || IsIface(l.Type)
			sub = sub || l.Sub != ""
		}
	}
	for _, in := range sc.Inputs {
		sub = sub || in.L.Sub != ""
	}
	if built {
		v.Class("form-built")
	}
	if once {
		v.Class("has-once")
	}
	if ptr {
		v.Class("form-ptr")
	}
	if pos {
		v.Class("form-pos")
	}
	if iface {
		v.Class("uses-interface")
	}
	if sub {
		v.Class("uses-subtype")
	}
	if multi {
		v.Class("multi-input-conv")
	}
	hostile := false
	for i := range fs {
		for _, l := range append(append([]Label(nil), fs[i].In...), fs[i].Out...) {
			for _, ch := range l.Name + l.Sub {
				if ch == '/' || ch == '-' {
					hostile = true
				}
			}
		}
	}
	if hostile {
		v.Class("hostile-labels")
	}
	for i := range sc.Convs {
		if len(sc.Convs[i].In) < 2 {
			continue
		}
		for j := range sc.Convs {
			used := 0
			for _, o := range sc.Convs[j].Out {
				for _, p := range sc.Convs[i].In {
					if i != j && RMinus(p, o) {
						used++
						break
					}
				}
			}
			if used >= 2 {
				v.Class("diamond")
			}
		}
	}
	if len(sc.Convs) > 8 || len(sc.Target.In) > 4 {
		v.Class("wide-scenario")
	}
	if sc.Target.ConcreteErr {
		v.Class("target-final-concrete-error-type")
	}
	v.Class(fmt.Sprintf("convs=%d", len(sc.Convs)))
}

// ConsumedFromFailedExec reports a parameter that received a value minted by
// a function execution that returned an error: whatever a failing body
// returns alongside its error must never be used.
func ConsumedFromFailedExec(w *World, all []Event) string {
	failed := map[[2]int]bool{}
	for _, ev := range all {
		if ev.Err != nil {
			failed[[2]int{ev.Func, ev.Exec}] = true
		}
	}
	if len(failed) == 0 {
		return ""
	}
	for _, ev := range all {
		for _, a := range ev.Args {
			if org, ok := w.Origin(a.Tok); ok && !org.Input && failed[[2]int{org.Func, org.Exec}] {
				return fmt.Sprintf("f%d parameter %s received #%d, an output of execution #%d of f%d, which returned an error", ev.Func, a.L, a.Tok, org.Exec, org.Func)
			}
		}
	}
	return ""
}
