package engine

import (
	"encoding/json"
	"fmt"
	"hash/fnv"
	"strings"
)

// Label is (name, type, subtype): the identity under which a value is
// required, supplied or produced. Name is canonical lower case; "" means
// type-only. Dyn is the concrete type of the values that travel under the
// label (for outputs declared with an interface type; otherwise == Type).
type Label struct {
	Name  string `json:"n,omitempty"`
	Type  int    `json:"t"`
	Sub   string `json:"s,omitempty"`
	Dyn   int    `json:"d"`
	Spell string `json:"sp,omitempty"`  // spelling used in the Go declaration / option (case variant of Name)
	Tag   bool   `json:"tag,omitempty"` // struct forms: name given by tag instead of field name
}

func (l Label) Named() bool { return l.Name != "" }

func (l Label) String() string {
	n := l.Name
	if n == "" {
		n = "_"
	}
	s := fmt.Sprintf("%s:%s", n, TypeName(l.Type))
	if l.Sub != "" {
		s += "/" + l.Sub
	}
	if l.Dyn != l.Type {
		s += fmt.Sprintf("(dyn %s)", TypeName(l.Dyn))
	}
	return s
}

func TypeName(t int) string {
	switch {
	case t < 0:
		return "?"
	case t < NumConcrete:
		return fmt.Sprintf("T%d", t)
	case t == TypeU:
		return "U"
	case t == TypeAny:
		return "Any"
	case t == TypeI0b:
		return "I0b"
	default:
		return fmt.Sprintf("I%d", t-NumConcrete)
	}
}

// Key is the label's identity (name, type, subtype) without decoration.
type Key struct {
	Name string
	Type int
	Sub  string
}

func (l Label) Key() Key { return Key{l.Name, l.Type, l.Sub} }

const (
	FormPos    = "pos"    // positional parameters / results (type-only, no subtype)
	FormStruct = "struct" // a struct embedding argmapper.Struct
	FormPtr    = "ptr"    // pointer to such a struct
)

// FuncSpec describes one function (target or converter).
type FuncSpec struct {
	ID      int     `json:"id"`
	In      []Label `json:"in"`
	InForm  string  `json:"inForm"`
	Out     []Label `json:"out"`
	OutForm string  `json:"outForm"`
	HasErr  bool    `json:"hasErr,omitempty"`
	Fail    bool    `json:"fail,omitempty"` // the body returns a non-nil final error (needs HasErr)
	Once    bool    `json:"once,omitempty"`
	Built   bool    `json:"built,omitempty"` // assembled with NewValueSet + BuildFunc (always has an error result)
	// Identity: the body returns its arguments unchanged (same tokens) instead
	// of minting fresh outputs; In and Out must have the same types/forms.
	Identity bool `json:"identity,omitempty"`
	// ConcreteErr: the Go function has one more, final result of the concrete
	// type *CErr (which implements error). By C17 that is an ordinary
	// type-only output, not "the" error; the body returns a nil *CErr.
	// Mutually exclusive with HasErr and Built.
	ConcreteErr bool `json:"concreteErr,omitempty"`
	// FailFirst: the body fails (non-nil final error) on its FIRST execution
	// only -- a transient failure. Needs HasErr.
	FailFirst bool `json:"failFirst,omitempty"`
}

func (f *FuncSpec) String() string {
	var in, out []string
	for _, l := range f.In {
		in = append(in, l.String())
	}
	for _, l := range f.Out {
		out = append(out, l.String())
	}
	fl := ""
	if f.Built {
		fl += " built"
	}
	if f.Once {
		fl += " once"
	}
	if f.Fail {
		fl += " FAIL"
	} else if f.HasErr {
		fl += " err"
	}
	return fmt.Sprintf("f%d[%s](%s) -> [%s](%s)%s", f.ID, f.InForm, strings.Join(in, ", "), f.OutForm, strings.Join(out, ", "), fl)
}

// Input is one supplied value: a label (concrete type) and the token it carries.
type Input struct {
	L   Label `json:"l"`
	Tok int   `json:"tok"`
}

// GenSpec is a converter generator: for every value of type From seen in the
// graph it emits (Mode "conv") a built converter From -> To, or returns nil
// (Mode "nil"), or reports an error (Mode "err").
type GenSpec struct {
	ID   int    `json:"id"`
	From int    `json:"from"`
	To   int    `json:"to"`
	Mode string `json:"mode"`
	// Emit (Mode "emit"): for a value of type From the generator returns this
	// very converter (any shape: several inputs / outputs, names), under a
	// generated id. Not covered by the derivability model (GeneratedConvs);
	// only checks that do not use the model generate it.
	Emit *FuncSpec `json:"emit,omitempty"`
}

// Malformed is a malformed option injected at a position of the option list
// (C06): "nilarg", "nilnamed", "niltyped", "nilconv", "intconv", "strconv",
// "nilconvfunc".
type Malformed struct {
	Kind string `json:"kind"`
	Pos  int    `json:"pos"`
}

// Scenario is one resolution problem.
type Scenario struct {
	Inputs    []Input     `json:"inputs"`
	Convs     []FuncSpec  `json:"convs"`
	Gens      []GenSpec   `json:"gens,omitempty"`
	Target    FuncSpec    `json:"target"`
	Malformed []Malformed `json:"malformed,omitempty"`
	// JoinTyped: all supplied type-only, subtype-less values are passed in ONE
	// multi-value option Typed(nil, v1, v2, ...) (a nil value must be ignored)
	// instead of one option each.
	JoinTyped bool `json:"joinTyped,omitempty"`
	// PriorInputs (optional): before the call under test, the same target
	// Func is called once with THESE inputs (and the same converters). What an
	// earlier call was given must have no influence on a later one.
	PriorInputs []Input `json:"priorInputs,omitempty"`
	// TargetDefault: the target is created with a default option (FuncName).
	TargetDefault bool `json:"targetDefault,omitempty"`
	// RawConverters: the converters are handed over as plain Go functions in
	// ONE Converter(f1, f2, ...) option (the library wraps them itself each
	// time the option is applied) instead of one ConverterFunc(*Func) each.
	// Built and run-once converters still go through ConverterFunc.
	RawConverters bool `json:"rawConverters,omitempty"`
}

func (s *Scenario) String() string {
	var b strings.Builder
	b.WriteString("inputs:")
	for _, in := range s.Inputs {
		fmt.Fprintf(&b, " %s=#%d", in.L.String(), in.Tok)
	}
	b.WriteString("\n")
	for i := range s.Convs {
		fmt.Fprintf(&b, "conv %s\n", s.Convs[i].String())
	}
	for _, g := range s.Gens {
		fmt.Fprintf(&b, "gen g%d %s->%s %s\n", g.ID, TypeName(g.From), TypeName(g.To), g.Mode)
	}
	fmt.Fprintf(&b, "target %s\n", s.Target.String())
	for _, m := range s.Malformed {
		fmt.Fprintf(&b, "malformed %s@%d\n", m.Kind, m.Pos)
	}
	return b.String()
}

// TargetID is the spec ID of a scenario's target function.
const TargetID = 100

// CanonJSON is the canonical JSON of any case value.
func CanonJSON(v interface{}) []byte {
	b, err := json.Marshal(v)
	if err != nil {
		panic(err)
	}
	return b
}

// Hash64 is the 64-bit FNV-1a hash of b.
func Hash64(b []byte) uint64 {
	h := fnv.New64a()
	h.Write(b)
	return h.Sum64()
}

// EffectiveInputs applies the library's documented "last wins" semantics to
// the supplied inputs: a later input under the same key replaces an earlier
// one. Named keys: (name, subtype) — the type is not part of the key (a later
// Named of another type replaces the value). Typed keys: (type, subtype).
func EffectiveInputs(ins []Input) []Input {
	type k struct {
		named bool
		name  string
		typ   int
		sub   string
	}
	idx := map[k]int{}
	var out []Input
	for _, in := range ins {
		kk := k{named: in.L.Named(), name: in.L.Name, sub: in.L.Sub}
		if !in.L.Named() {
			kk.typ = in.L.Type
		}
		if i, ok := idx[kk]; ok {
			out[i] = in
			continue
		}
		idx[kk] = len(out)
		out = append(out, in)
	}
	return out
}
