// Package engine is the shared machinery behind the property checks: the type
// and label universe, function/scenario specs with a canonical JSON form, the
// instrumented world that realizes specs as real Go functions (via reflect),
// the matching tables R+ / R- and the derivability fixpoint, rapid generators,
// and the statistics/journal/replay plumbing.
package engine

import (
	"reflect"
)

// Concrete token-carrying types. Every value handed to the library carries a
// token in K; token 0 never denotes a real value (it is what a fabricated zero
// value would carry).
type T0 struct{ K int }
type T1 struct{ K int }
type T2 struct{ K int }

// T3 is only ever used through *T3. Aux is scratch space that function bodies
// update (under the program's own lock) in the object they were handed: a
// shared mutable value, as real programs pass registries and loggers around.
type T3 struct {
	K   int
	Aux int
}

// t4 and t5 have lower-case type names on purpose: their reflect String()
// ("engine.t4") can then occur inside (lower-cased) value names, which is what
// label-collision scenarios need.
type t4 struct{ K int }

// t5 is a defined INT type (with methods): not every value in the universe is
// a struct or a pointer. Its token is the integer itself. It implements I1.
type t5 int

func (v T0) Token() int { return v.K }
func (v T1) Token() int { return v.K }
func (v T2) Token() int { return v.K }
func (v T3) Token() int { return v.K }
func (v t4) Token() int { return v.K }
func (v t5) Token() int { return int(v) }

// I0 is implemented by T0 and T1; I1 by T1, T2 and the int-kinded t5 (so T1
// implements both).
type I0 interface {
	Token() int
	inI0()
}
type I1 interface {
	Token() int
	inI1()
}

// I2 is a wider interface than I0 (its method set is a superset), implemented
// by T0 only: I2 implements I0, so a value produced under an I2 label can
// feed an I0 parameter through an interface-to-interface link.
type I2 interface {
	Token() int
	inI0()
	inI2()
}

// I0b has exactly I0's method set under another type name: I0 and I0b
// implement each other, yet they are distinct types.
type I0b interface {
	Token() int
	inI0()
}

func (T0) inI0() {}
func (T1) inI0() {}
func (T1) inI1() {}
func (T2) inI1() {}
func (T0) inI2() {}
func (t5) inI1() {}

const (
	NumConcrete = 6 // the defined concrete types 0..5 (kept for the stable numbering of old cases)
	TypeI0      = 6
	TypeI1      = 7
	TypeI2      = 8
	// TypeU is the UNNAMED struct type struct{ K int }: not identical to T0, T1,
	// T2 or t4, but mutually assignable with each of them (same underlying
	// type). It has no methods.
	TypeU = 9
	// TypeAny is interface{}: implemented by every type, interfaces included.
	TypeAny = 10
	// TypeI0b is I0's twin (same method set, different type).
	TypeI0b  = 11
	NumTypes = 12
)

// Types is the universe, indexed by type number.
var Types = []reflect.Type{
	reflect.TypeOf(T0{}), reflect.TypeOf(T1{}), reflect.TypeOf(T2{}),
	reflect.TypeOf(&T3{}), // a pointer type: values of universe type 3 are *T3
	reflect.TypeOf(t4{}), reflect.TypeOf(t5(0)),
	reflect.TypeOf((*I0)(nil)).Elem(), reflect.TypeOf((*I1)(nil)).Elem(),
	reflect.TypeOf((*I2)(nil)).Elem(),
	reflect.TypeOf(struct{ K int }{}),
	reflect.TypeOf((*interface{})(nil)).Elem(),
	reflect.TypeOf((*I0b)(nil)).Elem(),
}

var typeIndex = func() map[reflect.Type]int {
	m := map[reflect.Type]int{}
	for i, t := range Types {
		m[t] = i
	}
	return m
}()

// TypeIdx returns the universe index of t, or -1.
func TypeIdx(t reflect.Type) int {
	if i, ok := typeIndex[t]; ok {
		return i
	}
	return -1
}

func IsIface(t int) bool { return t >= 0 && t < len(Types) && Types[t].Kind() == reflect.Interface }

// Implements reports whether concrete-or-interface type a can be used where
// interface type iface is required (Go's Implements).
func Implements(a, iface int) bool {
	if !IsIface(iface) {
		return false
	}
	return Types[a].Implements(Types[iface])
}

// Implementers lists the concrete types implementing interface type iface.
func Implementers(iface int) []int {
	var r []int
	for i := 0; i < NumTypes; i++ {
		if !IsIface(i) && Implements(i, iface) {
			r = append(r, i)
		}
	}
	return r
}

// MakeValue builds a value of concrete type typ carrying tok.
func MakeValue(typ, tok int) reflect.Value {
	if Types[typ].Kind() == reflect.Int {
		v := reflect.New(Types[typ]).Elem()
		v.SetInt(int64(tok))
		return v
	}
	if Types[typ].Kind() == reflect.Ptr {
		p := reflect.New(Types[typ].Elem())
		p.Elem().Field(0).SetInt(int64(tok))
		return p
	}
	v := reflect.New(Types[typ]).Elem()
	v.Field(0).SetInt(int64(tok))
	return v
}

// Obs is what a function body (or the caller) observed for one value.
type Obs struct {
	Tok   int  `json:"tok"`
	Dyn   int  `json:"dyn"` // dynamic (concrete) type index, -1 if none
	Valid bool `json:"valid"`
}

// Observe decodes a reflect.Value handed out by the library.
func Observe(v reflect.Value) Obs {
	if !v.IsValid() {
		return Obs{Dyn: -1}
	}
	if v.Kind() == reflect.Interface {
		if v.IsNil() {
			return Obs{Dyn: -1}
		}
		v = v.Elem()
	}
	if v.Kind() == reflect.Ptr {
		if v.IsNil() {
			return Obs{Dyn: -1}
		}
		v = v.Elem()
	}
	if v.Kind() == reflect.Int {
		if i := TypeIdx(v.Type()); i >= 0 && !IsIface(i) {
			return Obs{Tok: int(v.Int()), Dyn: i, Valid: true}
		}
		return Obs{Dyn: -1}
	}
	i := TypeIdx(v.Type())
	if i < 0 {
		// a pointer-typed universe member was dereferenced above
		i = TypeIdx(reflect.PtrTo(v.Type()))
	}
	if i < 0 || IsIface(i) {
		return Obs{Dyn: -1}
	}
	return Obs{Tok: int(v.Field(0).Int()), Dyn: i, Valid: true}
}

// ObserveIface decodes an interface{} value (e.g. Result.Out(i)).
func ObserveIface(x interface{}) Obs {
	if x == nil {
		return Obs{Dyn: -1}
	}
	return Observe(reflect.ValueOf(x))
}
