package engine

import (
	"fmt"
	"reflect"
	"runtime/debug"
	"strings"
	"sync"

	"github.com/hashicorp/go-argmapper"
	"github.com/hashicorp/go-hclog"
)

var (
	errType    = reflect.TypeOf((*error)(nil)).Elem()
	markerType = reflect.TypeOf(argmapper.Struct{})
	nullLogger = hclog.NewNullLogger()
)

// Quiet is the logger option used for every library call.
func Quiet() argmapper.Arg { return argmapper.Logger(nullLogger) }

// FailErr is the error value a failing body returns. Each failing execution
// returns a distinct object, so identity comparison is meaningful.
type FailErr struct {
	Func int
	Exec int
}

func (e *FailErr) Error() string { return fmt.Sprintf("body f%d exec %d failed", e.Func, e.Exec) }

// CErr is a concrete error type used as a final, non-error-interface result.
type CErr struct{ N int }

func (e *CErr) Error() string { return fmt.Sprintf("cerr %d", e.N) }

var cerrType = reflect.TypeOf((*CErr)(nil))

// GenErr is the error a Mode "err" generator reports.
type GenErr struct{ Gen int }

func (e *GenErr) Error() string { return fmt.Sprintf("generator g%d failed", e.Gen) }

// Origin says where a token came from.
type Origin struct {
	Input bool  `json:"input,omitempty"` // supplied by the caller
	Func  int   `json:"func"`            // producing function (when !Input)
	Exec  int   `json:"exec"`            // execution number of that function (1-based)
	L     Label `json:"l"`               // label it was supplied / produced under
	Dyn   int   `json:"dyn"`             // dynamic type
	// Alt: further labels the value may legitimately travel under. Used for
	// the redefine entry: the redefined function receives the caller's values
	// through one resolution (any of its R+-compatible inputs may be bound to
	// the value) and re-supplies them to the inner call under that input's
	// label.
	Alt []Label `json:"alt,omitempty"`
}

// ArgObs is one parameter as seen by a body.
type ArgObs struct {
	L Label `json:"l"` // declared parameter label
	Obs
}

// Event is one body execution.
type Event struct {
	Seq   int      `json:"seq"`
	Func  int      `json:"func"`
	Exec  int      `json:"exec"`
	Args  []ArgObs `json:"args"`
	Outs  []int    `json:"outs"` // tokens minted for the outputs, in declaration order
	Err   error    `json:"-"`
	ErrS  string   `json:"err,omitempty"`
	GID   int      `json:"gid,omitempty"` // goroutine tag (concurrent checks)
	OpTag int      `json:"op,omitempty"`  // operation tag set by the harness
}

// World realizes a scenario's specs as real functions whose bodies log what
// they receive. A World is never reused between repetitions of a case.
type World struct {
	mu       sync.Mutex
	nextTok  int
	seq      int
	Ledger   map[int]Origin
	Events   []Event
	Execs    map[int]int // executions per function id
	Funcs    map[int]*argmapper.Func
	Specs    map[int]*FuncSpec
	GenCalls int
	MaxExecs int // runaway guard
	// retained: for functions taking a pointer to their parameter struct, the
	// pointer each execution received, with what was observed through it at
	// that time. A callee may keep such a pointer (a constructor storing its
	// *Config); what it points to must not change after the call returned.
	retained []retainedArg
	// DeficientFirst: RedefineCall first calls the redefined function with
	// one input withheld (outcome in DeficientOutcome), then with all inputs.
	DeficientFirst   bool
	DeficientOutcome *Outcome
	// RepeatOnFailure: when the complete call of the redefined function ends
	// with a body error, RedefineCall calls it once more (first outcome in
	// FirstComplete).
	RepeatOnFailure bool
	FirstComplete   *Outcome
	// AliasProbe: RedefineCall hands Redefine a PREFIX of a longer option
	// list. Before the redefined function is invoked, the rest of that list is
	// filled with a second value (token +200) for every input the redefined
	// function declares; Later is the whole list, meant for a direct call of
	// the ORIGINAL function afterwards. Whatever the redefined function does
	// when it is invoked, that list still holds what the caller put there.
	AliasProbe bool
	Later      []argmapper.Arg
	// FreshSubtypes: RedefineCall labels every other fresh value with the
	// subtype "t" when the declared input has none.
	FreshSubtypes bool
	// ProvideIfaceInputs: RedefineCall supplies NAMED interface-typed inputs of
	// the redefined function through zero-input provider functions (ids 901..)
	// that return a value of exactly that interface type; Providers counts them.
	ProvideIfaceInputs bool
	Providers          int
	genArgs            map[int]argmapper.Arg // ConverterGen options by generator id, created once per world
	// TargetDefaults: further default options given to NewFunc when Setup
	// creates the target (e.g. Redefine filters supplied as defaults).
	TargetDefaults []argmapper.Arg
	BodyHook       func(fs *FuncSpec) // optional: called at the start of every body (outside the lock)
	// LastOpts is the option slice (with its spare capacity) the latest
	// Realize / RealizeViaList handed to NewFunc: the caller's own slice, whose
	// spare capacity the caller may go on using.
	LastOpts []argmapper.Arg
	// FailWith (optional) makes the error value a failing body returns, in
	// place of a *FailErr.
	FailWith func(fs *FuncSpec, exec int) error
	OpTagOf  func() (gid, op int) // optional: goroutine/op attribution
}

type retainedArg struct {
	fn, exec int
	ptr      reflect.Value
	labels   []Label
	seen     []Obs
}

// RetainedMismatch re-reads every retained parameter struct and reports the
// first one whose contents differ from what its execution observed.
func (w *World) RetainedMismatch() string {
	w.mu.Lock()
	defer w.mu.Unlock()
	for _, r := range w.retained {
		if r.ptr.IsNil() {
			continue
		}
		sv := r.ptr.Elem()
		for i := range r.labels {
			now := Observe(sv.Field(i + 1))
			if now != r.seen[i] {
				return fmt.Sprintf("the parameter struct execution #%d of f%d received by pointer was modified after that call returned: parameter %s held #%d, now holds #%d", r.exec, r.fn, r.labels[i], r.seen[i].Tok, now.Tok)
			}
		}
	}
	return ""
}

// RunawayPanic is the panic value raised when a case executes more bodies than
// any terminating resolution could.
type RunawayPanic struct{ N int }

func NewWorld() *World {
	return &World{
		nextTok:  1000,
		Ledger:   map[int]Origin{},
		Execs:    map[int]int{},
		Funcs:    map[int]*argmapper.Func{},
		Specs:    map[int]*FuncSpec{},
		MaxExecs: 10000,
	}
}

func spell(l Label) string {
	if l.Spell != "" {
		return l.Spell
	}
	return l.Name
}

// isIdent reports whether s can be (after upper-casing its first letter) a Go
// field name.
func isIdent(s string) bool {
	for i, r := range s {
		letter := (r >= 'a' && r <= 'z') || (r >= 'A' && r <= 'Z') || r == '_'
		if !letter && (i == 0 || r < '0' || r > '9') {
			return false
		}
	}
	return s != ""
}

// byTag: the label's name is declared through the struct tag (requested, or
// forced because the name is not an identifier).
func byTag(l Label) bool { return l.Named() && (l.Tag || !isIdent(spell(l))) }

// fieldName is the exported Go field name used for label i.
func fieldName(l Label, i int) string {
	if !l.Named() || byTag(l) {
		return fmt.Sprintf("F%d", i)
	}
	s := spell(l)
	return strings.ToUpper(s[:1]) + s[1:]
}

func fieldTag(l Label) reflect.StructTag {
	name := ""
	if byTag(l) {
		name = spell(l)
	}
	var opts []string
	if !l.Named() {
		opts = append(opts, "typeOnly")
	}
	if l.Sub != "" {
		opts = append(opts, "subtype="+l.Sub)
	}
	if name == "" && len(opts) == 0 {
		return ""
	}
	return reflect.StructTag(fmt.Sprintf(`argmapper:"%s"`, strings.Join(append([]string{name}, opts...), ",")))
}

// StructTypeFor builds the marker-embedding struct type for labels.
func StructTypeFor(labels []Label) reflect.Type {
	sf := []reflect.StructField{{Name: "Struct", Type: markerType, Anonymous: true}}
	for i, l := range labels {
		sf = append(sf, reflect.StructField{Name: fieldName(l, i), Type: Types[l.Type], Tag: fieldTag(l)})
	}
	return reflect.StructOf(sf)
}

func sideTypes(labels []Label, form string) []reflect.Type {
	switch form {
	case FormPos:
		ts := make([]reflect.Type, len(labels))
		for i, l := range labels {
			ts[i] = Types[l.Type]
		}
		return ts
	case FormStruct:
		return []reflect.Type{StructTypeFor(labels)}
	case FormPtr:
		return []reflect.Type{reflect.PtrTo(StructTypeFor(labels))}
	}
	panic("bad form " + form)
}

// decodeSide extracts the per-label values from what a body received.
func decodeSide(labels []Label, form string, args []reflect.Value) []reflect.Value {
	out := make([]reflect.Value, len(labels))
	switch form {
	case FormPos:
		copy(out, args)
	case FormStruct, FormPtr:
		sv := args[0]
		if form == FormPtr {
			if sv.IsNil() {
				return out
			}
			sv = sv.Elem()
		}
		for i := range labels {
			out[i] = sv.Field(i + 1)
		}
	}
	return out
}

// encodeSide packs per-label values into the Go result list.
func encodeSide(labels []Label, form string, vals []reflect.Value) []reflect.Value {
	switch form {
	case FormPos:
		return vals
	case FormStruct, FormPtr:
		pv := reflect.New(StructTypeFor(labels))
		for i := range labels {
			pv.Elem().Field(i + 1).Set(vals[i])
		}
		if form == FormPtr {
			return []reflect.Value{pv}
		}
		return []reflect.Value{pv.Elem()}
	}
	panic("bad form " + form)
}

// enter logs the body execution and mints output tokens.
func (w *World) enter(fs *FuncSpec, got []reflect.Value) (outs []reflect.Value, err error) {
	if w.BodyHook != nil {
		w.BodyHook(fs)
	}
	gid, op := 0, 0
	if w.OpTagOf != nil {
		gid, op = w.OpTagOf()
	}
	w.mu.Lock()
	defer w.mu.Unlock()
	w.Execs[fs.ID]++
	exec := w.Execs[fs.ID]
	total := 0
	for _, n := range w.Execs {
		total += n
	}
	if total > w.MaxExecs {
		panic(RunawayPanic{total})
	}
	w.seq++
	ev := Event{Seq: w.seq, Func: fs.ID, Exec: exec, GID: gid, OpTag: op}
	for i, l := range fs.In {
		ev.Args = append(ev.Args, ArgObs{L: l, Obs: Observe(got[i])})
		// a body updates the shared object it was handed, under the
		// program's lock (w.mu): nobody else has any business reading it
		if gv := got[i]; gv.IsValid() {
			if gv.Kind() == reflect.Interface && !gv.IsNil() {
				gv = gv.Elem()
			}
			if p, ok := gv.Interface().(*T3); ok && p != nil {
				p.Aux++
			}
		}
	}
	outs = make([]reflect.Value, len(fs.Out))
	for i, l := range fs.Out {
		if fs.Identity {
			outs[i] = got[i]
			if got[i].Kind() == reflect.Interface && !got[i].IsNil() {
				outs[i] = got[i].Elem()
			}
			ev.Outs = append(ev.Outs, Observe(got[i]).Tok)
			continue
		}
		w.nextTok++
		tok := w.nextTok
		w.Ledger[tok] = Origin{Func: fs.ID, Exec: exec, L: l, Dyn: l.Dyn}
		ev.Outs = append(ev.Outs, tok)
		outs[i] = MakeValue(l.Dyn, tok)
	}
	if fs.Fail || (fs.FailFirst && exec == 1) {
		err = &FailErr{Func: fs.ID, Exec: exec}
		if w.FailWith != nil {
			err = w.FailWith(fs, exec)
		}
		ev.Err = err
		ev.ErrS = err.Error()
	}
	w.Events = append(w.Events, ev)
	return outs, err
}

// Realize builds (and remembers) the argmapper.Func for a spec.
func (w *World) Realize(fs *FuncSpec, defaults ...argmapper.Arg) (*argmapper.Func, error) {
	// spare capacity on purpose: a library that appended call options to the
	// stored default slice would write into this shared backing array
	opts := make([]argmapper.Arg, 0, len(defaults)+8)
	if fs.Once {
		opts = append(opts, argmapper.FuncOnce())
	}
	opts = append(opts, defaults...)
	var f *argmapper.Func
	var err error
	if fs.Built {
		f, err = w.realizeBuilt(fs, opts)
	} else {
		f, err = argmapper.NewFunc(w.MakeGoFunc(fs), opts...)
	}
	if err != nil {
		return nil, err
	}
	w.mu.Lock()
	w.LastOpts = opts
	w.Funcs[fs.ID] = f
	w.Specs[fs.ID] = fs
	w.mu.Unlock()
	return f, nil
}

// MakeGoFunc returns the plain Go function value (interface{}) for a spec.
func (w *World) MakeGoFunc(fs *FuncSpec) interface{} {
	in := sideTypes(fs.In, fs.InForm)
	if len(fs.In) == 0 && fs.InForm == FormPos {
		in = nil
	}
	out := sideTypes(fs.Out, fs.OutForm)
	if len(fs.Out) == 0 && fs.OutForm == FormPos {
		out = nil
	}
	if fs.HasErr {
		out = append(out, errType)
	} else if fs.ConcreteErr {
		out = append(out, cerrType)
	}
	ft := reflect.FuncOf(in, out, false)
	fn := reflect.MakeFunc(ft, func(args []reflect.Value) []reflect.Value {
		got := decodeSide(fs.In, fs.InForm, args)
		vals, err := w.enter(fs, got)
		if fs.InForm == FormPtr && len(args) == 1 && !args[0].IsNil() {
			r := retainedArg{fn: fs.ID, ptr: args[0], labels: fs.In}
			for i := range fs.In {
				r.seen = append(r.seen, Observe(got[i]))
			}
			w.mu.Lock()
			r.exec = w.Execs[fs.ID]
			if len(w.retained) < 256 {
				w.retained = append(w.retained, r)
			}
			w.mu.Unlock()
		}
		// interface-typed slots: Set/assign handles concrete -> interface.
		var res []reflect.Value
		if len(fs.Out) > 0 || fs.OutForm != FormPos {
			if fs.OutForm == FormPos {
				res = make([]reflect.Value, len(vals))
				for i, v := range vals {
					slot := reflect.New(Types[fs.Out[i].Type]).Elem()
					slot.Set(v)
					res[i] = slot
				}
			} else {
				res = encodeSide(fs.Out, fs.OutForm, vals)
			}
		}
		if fs.HasErr {
			if err != nil {
				ev := reflect.New(errType).Elem()
				ev.Set(reflect.ValueOf(err))
				res = append(res, ev)
			} else {
				res = append(res, reflect.Zero(errType))
			}
		} else if fs.ConcreteErr {
			res = append(res, reflect.Zero(cerrType))
		}
		return res
	})
	return fn.Interface()
}

// ValuesFor converts labels to argmapper.Value descriptions.
func ValuesFor(labels []Label) []argmapper.Value {
	vs := make([]argmapper.Value, len(labels))
	for i, l := range labels {
		vs[i] = argmapper.Value{Name: spell(l), Type: Types[l.Type], Subtype: l.Sub}
	}
	return vs
}

func (w *World) realizeBuilt(fs *FuncSpec, opts []argmapper.Arg) (*argmapper.Func, error) {
	// BuildFunc documents nil as "no values": use it for empty sides of
	// functions with an even id, an explicit empty set otherwise
	var inSet, outSet *argmapper.ValueSet
	var err error
	if len(fs.In) > 0 || fs.ID%2 == 1 {
		if inSet, err = argmapper.NewValueSet(ValuesFor(fs.In)); err != nil {
			return nil, err
		}
	}
	if len(fs.Out) > 0 || fs.ID%2 == 1 {
		if outSet, err = argmapper.NewValueSet(ValuesFor(fs.Out)); err != nil {
			return nil, err
		}
	}
	return argmapper.BuildFunc(inSet, outSet, func(in, out *argmapper.ValueSet) error {
		got := make([]reflect.Value, len(fs.In))
		for i, l := range fs.In {
			var v *argmapper.Value
			if l.Named() {
				v = in.Named(l.Name)
			} else {
				v = in.Typed(Types[l.Type]) // type-only values of built functions are unique by type
			}
			if v != nil {
				got[i] = v.Value
			}
		}
		vals, err := w.enter(fs, got)
		for i, l := range fs.Out {
			var v *argmapper.Value
			if l.Named() {
				v = out.Named(l.Name)
			} else {
				v = out.Typed(Types[l.Type])
			}
			if v == nil {
				panic(fmt.Sprintf("harness: built output %s not found in set", l))
			}
			if IsIface(l.Type) && (l.Dyn+fs.ID)%2 == 0 {
				// a concrete value stored for an interface-typed output (what
				// `v.Value = reflect.ValueOf(impl)` does in user code)
				v.Value = vals[i]
				continue
			}
			slot := reflect.New(Types[l.Type]).Elem()
			slot.Set(vals[i])
			v.Value = slot
		}
		return err
	}, opts...)
}

// InputArg converts a supplied input into the library option.
func InputArg(in Input) argmapper.Arg {
	v := MakeValue(in.L.Type, in.Tok).Interface()
	return argmapper.NamedSubtype(spell(in.L), v, in.L.Sub)
}

// Setup realizes every converter and the target of sc and returns the option
// list (inputs, converters, generators, logger) for a call. Supplied tokens
// are entered into the ledger.
func (w *World) Setup(sc *Scenario) (target *argmapper.Func, args []argmapper.Arg, err error) {
	var defaults []argmapper.Arg
	if sc.TargetDefault {
		defaults = append(defaults, argmapper.FuncName("target"))
	}
	defaults = append(defaults, w.TargetDefaults...)
	target, err = w.Realize(&sc.Target, defaults...)
	if err != nil {
		return nil, nil, fmt.Errorf("target: %w", err)
	}
	if len(sc.PriorInputs) > 0 {
		// an earlier call of the same Func with other inputs; its outcome
		// and events are not part of the case under test
		prior := *sc
		prior.Inputs, prior.PriorInputs, prior.Malformed = sc.PriorInputs, nil, nil
		pargs, perr := w.Args(&prior)
		if perr != nil {
			return nil, nil, perr
		}
		var o Outcome
		Protect(&o, func() { target.Call(pargs...) })
		w.mu.Lock()
		w.Events = nil
		for k := range w.Execs {
			delete(w.Execs, k)
		}
		w.mu.Unlock()
	}
	args, err = w.Args(sc)
	return target, args, err
}

// Args builds the option list for sc (realizing converters on first use).
func (w *World) Args(sc *Scenario) ([]argmapper.Arg, error) {
	var args []argmapper.Arg
	var joined []interface{}
	joinAt := -1
	for _, in := range sc.Inputs {
		w.mu.Lock()
		w.Ledger[in.Tok] = Origin{Input: true, L: in.L, Dyn: in.L.Type}
		w.mu.Unlock()
		if sc.JoinTyped && !in.L.Named() && in.L.Sub == "" {
			if joinAt < 0 {
				joinAt = len(args)
				args = append(args, nil) // placeholder
				joined = append(joined, nil)
			}
			joined = append(joined, MakeValue(in.L.Type, in.Tok).Interface())
			if len(joined)%3 == 0 {
				joined = append(joined, nil)
			}
			continue
		}
		args = append(args, InputArg(in))
	}
	if joinAt >= 0 {
		args[joinAt] = argmapper.Typed(joined...)
	}
	var raw []interface{}
	for i := range sc.Convs {
		fs := &sc.Convs[i]
		if sc.RawConverters && !fs.Built && !fs.Once {
			w.mu.Lock()
			w.Specs[fs.ID] = fs
			w.mu.Unlock()
			raw = append(raw, w.MakeGoFunc(fs))
			continue
		}
		w.mu.Lock()
		f := w.Funcs[fs.ID]
		w.mu.Unlock()
		if f == nil {
			var err error
			f, err = w.Realize(fs)
			if err != nil {
				return nil, fmt.Errorf("conv f%d: %w", fs.ID, err)
			}
		}
		args = append(args, argmapper.ConverterFunc(f))
	}
	if len(raw) > 0 {
		args = append(args, argmapper.Converter(raw...))
	}
	for i := range sc.Gens {
		// the SAME option object is handed to every call of this world (a
		// program keeps its option list around)
		w.mu.Lock()
		ga, ok := w.genArgs[sc.Gens[i].ID]
		if !ok {
			if w.genArgs == nil {
				w.genArgs = map[int]argmapper.Arg{}
			}
			ga = argmapper.ConverterGen(w.MakeGen(&sc.Gens[i]))
			w.genArgs[sc.Gens[i].ID] = ga
		}
		w.mu.Unlock()
		args = append(args, ga)
	}
	args = append(args, Quiet())
	// malformed options are inserted at their positions (clamped)
	for _, m := range sc.Malformed {
		pos := m.Pos
		if pos > len(args) {
			pos = len(args)
		}
		if pos < 0 {
			pos = 0
		}
		var a argmapper.Arg
		switch m.Kind {
		case "nilarg":
			a = nil
		case "nilnamed":
			a = argmapper.Named("a", nil)
		case "niltyped":
			a = argmapper.Typed(nil)
		case "nilnamedsub":
			a = argmapper.NamedSubtype("a", nil, "s")
		case "niltypedsub":
			a = argmapper.TypedSubtype(nil, "s")
		case "nilconv":
			a = argmapper.Converter(nil)
		case "intconv":
			a = argmapper.Converter(42)
		case "strconv":
			a = argmapper.Converter("x")
		case "nilconvfunc":
			a = argmapper.ConverterFunc(nil)
		case "nilfuncptrconv":
			// a non-function converter that happens to be a typed nil *Func
			// (an optional converter variable that was never set)
			a = argmapper.Converter((*argmapper.Func)(nil))
		case "structconv":
			a = argmapper.Converter(struct{ A int }{1})
		case "ptrconv":
			x := 5
			a = argmapper.Converter(&x)
		default:
			panic("bad malformed kind " + m.Kind)
		}
		args = append(args[:pos], append([]argmapper.Arg{a}, args[pos:]...)...)
	}
	return args, nil
}

// GenFuncID is the spec id given to the converter emitted by generator g for
// the n-th time.
func GenFuncID(gen, n int) int { return 1000000*gen + 1000 + n }

// MakeGen realizes a generator spec.
func (w *World) MakeGen(gs *GenSpec) argmapper.ConverterGenFunc {
	return func(v argmapper.Value) (*argmapper.Func, error) {
		w.mu.Lock()
		w.GenCalls++
		n := w.GenCalls
		w.mu.Unlock()
		if v.Type != Types[gs.From] {
			return nil, nil
		}
		switch gs.Mode {
		case "nil":
			return nil, nil
		case "err":
			return nil, &GenErr{Gen: gs.ID}
		case "odd":
			// value-dependent: a converter only for values that are there and
			// carry an odd token
			if ob := Observe(v.Value); !ob.Valid || ob.Tok%2 == 0 {
				return nil, nil
			}
		case "emit":
			fs := *gs.Emit
			fs.ID = GenFuncID(gs.ID, n)
			return w.Realize(&fs)
		}
		fs := &FuncSpec{
			ID:      GenFuncID(gs.ID, n),
			In:      []Label{{Type: gs.From, Dyn: gs.From, Sub: v.Subtype}},
			InForm:  FormStruct,
			Out:     []Label{{Type: gs.To, Dyn: gs.To}},
			OutForm: FormStruct,
			HasErr:  true,
			Built:   true,
		}
		return w.Realize(fs)
	}
}

// Outcome is the observable result of one library operation.
type Outcome struct {
	Err     error         `json:"-"`
	ErrS    string        `json:"err,omitempty"`
	Panic   string        `json:"panic,omitempty"`
	Stack   string        `json:"-"`
	Runaway bool          `json:"runaway,omitempty"`
	Len     int           `json:"len"`
	Outs    []Obs         `json:"outs,omitempty"`
	Events  []Event       `json:"events,omitempty"`
	OutsRaw []interface{} `json:"-"`
}

// EventsSince returns a copy of the events logged from index n on.
func (w *World) EventsSince(n int) []Event {
	w.mu.Lock()
	defer w.mu.Unlock()
	out := make([]Event, len(w.Events)-n)
	copy(out, w.Events[n:])
	return out
}

func (w *World) NumEvents() int {
	w.mu.Lock()
	defer w.mu.Unlock()
	return len(w.Events)
}

// Origin looks up a token.
func (w *World) Origin(tok int) (Origin, bool) {
	w.mu.Lock()
	defer w.mu.Unlock()
	o, ok := w.Ledger[tok]
	return o, ok
}

// Protect runs fn and converts a panic into outcome fields.
func Protect(o *Outcome, fn func()) {
	defer func() {
		if p := recover(); p != nil {
			if rp, ok := p.(RunawayPanic); ok {
				o.Runaway = true
				o.Panic = fmt.Sprintf("runaway: %d body executions", rp.N)
				return
			}
			o.Panic = fmt.Sprint(p)
			if len(o.Panic) > 300 {
				o.Panic = o.Panic[:300]
			}
			o.Stack = string(debug.Stack())
		}
	}()
	fn()
}

// Call runs f.Call(args...) and records the outcome.
func (w *World) Call(f *argmapper.Func, args []argmapper.Arg) Outcome {
	var o Outcome
	n0 := w.NumEvents()
	Protect(&o, func() {
		res := f.Call(args...)
		o.Err = res.Err()
		o.Len = res.Len()
		for i := 0; i < res.Len(); i++ {
			x := res.Out(i)
			o.OutsRaw = append(o.OutsRaw, x)
			o.Outs = append(o.Outs, ObserveIface(x))
		}
	})
	if o.Err != nil {
		o.ErrS = o.Err.Error()
		if len(o.ErrS) > 200 {
			o.ErrS = o.ErrS[:200]
		}
	}
	o.Events = w.EventsSince(n0)
	return o
}

// Convert runs argmapper.Convert(Types[typ], args...).
func (w *World) Convert(typ int, args []argmapper.Arg) Outcome {
	var o Outcome
	n0 := w.NumEvents()
	Protect(&o, func() {
		x, err := argmapper.Convert(Types[typ], args...)
		o.Err = err
		o.OutsRaw = []interface{}{x}
		if x != nil {
			o.Len = 1
			o.Outs = []Obs{ObserveIface(x)}
		}
	})
	if o.Err != nil {
		o.ErrS = o.Err.Error()
		if len(o.ErrS) > 200 {
			o.ErrS = o.ErrS[:200]
		}
	}
	o.Events = w.EventsSince(n0)
	return o
}

// RedefineCall runs target.Redefine(args...) and, when it succeeds, calls the
// redefined function with one fresh value per declared input. Fresh values get
// tokens from 500 upward and are entered into the ledger as caller-supplied
// under the label the redefined function declares.
func (w *World) RedefineCall(target *argmapper.Func, args []argmapper.Arg) (rf *argmapper.Func, redefErr error, redefPanic string, fresh []Input, o Outcome) {
	var ro Outcome
	const spare = 12
	if w.AliasProbe {
		guard := make([]argmapper.Arg, len(args), len(args)+spare)
		copy(guard, args)
		args = guard
	}
	Protect(&ro, func() {
		rf, redefErr = target.Redefine(args...)
	})
	if ro.Panic != "" {
		return nil, nil, ro.Panic, nil, ro
	}
	if redefErr != nil || rf == nil {
		return rf, redefErr, "", nil, o
	}
	var callArgs, providers []argmapper.Arg
	var declared []Label // the redefined function's inputs as it declares them, parallel to fresh
	nProviders := 0
	tok := 500
	for _, v := range rf.Input().Values() {
		ti := TypeIdx(v.Type)
		if ti < 0 {
			continue
		}
		l := Label{Name: v.Name, Type: ti, Sub: v.Subtype}
		if IsIface(ti) && w.ProvideIfaceInputs {
			// an input of interface type can only be given a value of exactly
			// that (static) type by a function that returns it (a NAMED one
			// cannot be supplied in any other way): the caller hands the
			// redefined function a provider
			nProviders++
			fs := &FuncSpec{ID: 900 + nProviders, InForm: FormPos, OutForm: FormStruct,
				Out: []Label{{Name: v.Name, Type: ti, Sub: v.Subtype, Dyn: Implementers(ti)[0]}}}
			pf, err := w.Realize(fs)
			if err != nil {
				panic(err)
			}
			providers = append(providers, argmapper.ConverterFunc(pf))
			continue
		}
		if IsIface(ti) {
			l.Type = Implementers(ti)[0]
		}
		l.Dyn = l.Type
		declared = append(declared, l)
		if w.FreshSubtypes && l.Sub == "" && (tok+len(v.Name))%2 == 0 {
			// the declared input carries no subtype: a value labelled with
			// one is an acceptable argument for it
			l.Sub = "t"
		}
		tok++
		in := Input{L: l, Tok: tok}
		fresh = append(fresh, in)
		w.mu.Lock()
		w.Ledger[tok] = Origin{Input: true, L: l, Dyn: l.Type}
		w.mu.Unlock()
		callArgs = append(callArgs, InputArg(in))
	}
	// a fresh value may be bound to any compatible input of rf and then
	// travels on under that input's label
	w.mu.Lock()
	for _, in := range fresh {
		org := w.Ledger[in.Tok]
		for j, other := range fresh {
			// (judged on the input as the redefined function DECLARES it: the
			// fresh value given for it may carry an extra subtype label -- and
			// then travels on under the declared label of its OWN input too:
			// the wrapper cannot see the label its caller used)
			if other.Tok == in.Tok && (declared[j] == in.L || !w.requires(declared[j])) {
				// (its OWN input counts only where the subtype-less label the
				// redefined function declares is a requirement that really
				// exists -- a parameter of the target or of a converter. A
				// declaration that merely DROPPED the subtype of the one
				// requirement behind it would let a value labelled "t" into a
				// parameter labelled "s": defect D42)
				continue
			}
			if RPlus(declared[j], in.L) {
				alt := declared[j]
				alt.Dyn = in.L.Type
				org.Alt = append(org.Alt, alt)
			}
		}
		w.Ledger[in.Tok] = org
	}
	w.mu.Unlock()
	callArgs = append(callArgs, providers...)
	w.Providers = nProviders
	callArgs = append(callArgs, Quiet())
	if w.AliasProbe && len(fresh)+1 <= spare && nProviders == 0 {
		later := args // shares its backing array with what Redefine was given
		w.mu.Lock()
		for _, in := range fresh {
			in2 := in
			in2.Tok = in.Tok + 200
			w.Ledger[in2.Tok] = w.Ledger[in.Tok]
			later = append(later, InputArg(in2))
		}
		w.mu.Unlock()
		w.Later = append(later, Quiet())
	}
	if w.DeficientFirst && len(fresh) > 0 {
		// first call it with its first input withheld: that call lacks an
		// argument and must fail -- and must leave no trace in the next one
		w.DeficientOutcome = new(Outcome)
		*w.DeficientOutcome = w.Call(rf, callArgs[1:])
	}
	o = w.Call(rf, callArgs)
	if _, failed := o.Err.(*FailErr); failed && w.RepeatOnFailure {
		// a body failed: call again with the same complete arguments (a
		// transient failure must not be remembered by the redefined function)
		w.FirstComplete = new(Outcome)
		*w.FirstComplete = o
		o = w.Call(rf, callArgs)
	}
	return rf, nil, "", fresh, o
}

// requires reports whether some realized function (target, converter,
// generated converter) has a parameter labelled exactly like l (name, type,
// subtype; for an interface-typed parameter the declared label carries its
// first implementer, see RedefineCall).
func (w *World) requires(l Label) bool {
	for _, fs := range w.Specs {
		for _, p := range fs.In {
			if p.Name == l.Name && p.Sub == l.Sub && (p.Type == l.Type || (IsIface(p.Type) && Implements(l.Type, p.Type))) {
				return true
			}
		}
	}
	return false
}

// Prime writes values into the value sets of already realized functions the
// way real programs do before a call: mode "wrap" builds a wrapper with
// BuildFunc(f.Input(), f.Output(), cb) -- the idiom for decorating a function
// -- and calls it once with exactly matching arguments; mode "fromsig" loads
// values with f.Input().FromSignature. Either leaves Value fields set inside
// f.Input(); they must have no influence on later calls of f.
func (w *World) Prime(mode string) {
	w.mu.Lock()
	type pair struct {
		fs *FuncSpec
		f  *argmapper.Func
	}
	var fns []pair
	for id, f := range w.Funcs {
		fns = append(fns, pair{w.Specs[id], f})
	}
	w.mu.Unlock()
	for _, p := range fns {
		if p.fs.Built || len(p.fs.In) == 0 {
			continue
		}
		var o Outcome
		Protect(&o, func() {
			switch mode {
			case "wrap":
				wrapper, err := argmapper.BuildFunc(p.f.Input(), p.f.Output(), func(in, out *argmapper.ValueSet) error {
					for _, l := range p.fs.Out {
						var v *argmapper.Value
						if l.Named() {
							v = out.Named(l.Name)
						} else {
							v = out.Typed(Types[l.Type])
						}
						if v != nil {
							slot := reflect.New(Types[l.Type]).Elem()
							slot.Set(MakeValue(l.Dyn, 0))
							v.Value = slot
						}
					}
					return nil
				})
				if err != nil {
					return
				}
				var args []argmapper.Arg
				for i, l := range p.fs.In {
					cl := l
					if IsIface(cl.Type) {
						continue
					}
					args = append(args, InputArg(Input{L: cl, Tok: 900 + i}))
				}
				args = append(args, Quiet())
				wrapper.Call(args...)
			case "fromsig":
				sig := p.f.Input().Signature()
				vals := make([]reflect.Value, len(sig))
				if p.fs.InForm == FormPos {
					for i, l := range p.fs.In {
						slot := reflect.New(sig[i]).Elem()
						if !IsIface(l.Type) {
							slot.Set(MakeValue(l.Type, 900+i))
						}
						vals[i] = slot
					}
				} else {
					sv := reflect.New(sig[0]).Elem()
					for i, l := range p.fs.In {
						if !IsIface(l.Type) {
							sv.Field(i + 1).Set(MakeValue(l.Type, 900+i))
						}
					}
					vals[0] = sv
				}
				p.f.Input().FromSignature(vals)
			}
		})
	}
}

// RealizeViaList is Realize through NewFuncList (which documents itself as
// "the same as calling NewFunc for each f").
func (w *World) RealizeViaList(fs *FuncSpec, defaults ...argmapper.Arg) (*argmapper.Func, error) {
	opts := make([]argmapper.Arg, 0, len(defaults)+8)
	opts = append(opts, defaults...)
	fl, err := argmapper.NewFuncList([]interface{}{w.MakeGoFunc(fs)}, opts...)
	if err != nil {
		return nil, err
	}
	w.mu.Lock()
	w.LastOpts = opts
	w.Funcs[fs.ID] = fl[0]
	w.Specs[fs.ID] = fs
	w.mu.Unlock()
	return fl[0], nil
}

// AddAltLabels records that the caller-supplied token tok, handed to the
// redefined function rf, may travel on under any input label of rf that is
// R+-compatible with the label it was supplied under (rf resolves its own
// inputs first and re-supplies them to the inner call under ITS labels).
func (w *World) AddAltLabels(tok int, rf *argmapper.Func) {
	w.mu.Lock()
	defer w.mu.Unlock()
	org, ok := w.Ledger[tok]
	if !ok {
		return
	}
	src := org.L
	src.Dyn = org.Dyn
	for _, v := range rf.Input().Values() {
		ti := TypeIdx(v.Type)
		if ti < 0 {
			continue
		}
		l := Label{Name: v.Name, Type: ti, Sub: v.Subtype, Dyn: org.Dyn}
		if RPlus(l, src) {
			dup := false
			for _, a := range org.Alt {
				dup = dup || a.Key() == l.Key()
			}
			if !dup {
				org.Alt = append(org.Alt, l)
			}
		}
	}
	w.Ledger[tok] = org
}

// RegisterInput enters a caller-supplied value into the ledger.
// RegisterSpec makes a spec known to the world without building a Func for it
// (its Go function is handed to the library raw).
func (w *World) RegisterSpec(fs *FuncSpec) {
	w.mu.Lock()
	w.Specs[fs.ID] = fs
	w.mu.Unlock()
}

func (w *World) RegisterInput(in Input) {
	w.mu.Lock()
	defer w.mu.Unlock()
	w.Ledger[in.Tok] = Origin{Input: true, L: in.L, Dyn: in.L.Type}
}
