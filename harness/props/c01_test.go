package props

import (
	"fmt"
	"testing"

	"github.com/hashicorp/go-argmapper"
	"github.com/hashicorp/go-argmapper/verifharness/engine"
)

func init() { evaluators["C01"] = evalC01 }

// evalC01: every value any body receives is a label- and type-correct binding.
func evalC01(c *engine.Case) engine.Verdict {
	var v engine.Verdict
	sc := c.Sc
	engine.ScenarioClasses(&v, sc)
	reps := c.Reps
	if reps <= 0 {
		reps = 1
	}
	entry := c.Entry
	if entry == "" {
		entry = "call"
	}
	v.Class("entry-" + entry)
	convRan := false
	for rep := 0; rep < reps && v.Fail == ""; rep++ {
		w := engine.NewWorld()
		target, args, err := w.Setup(sc)
		if err != nil {
			v.Class("setup-error")
			return v
		}
		if c.Note != "" {
			w.Prime(c.Note)
			if rep == 0 {
				v.Class("primed-" + c.Note)
			}
		}
		var o engine.Outcome
		switch entry {
		case "call":
			o = w.Call(target, args)
		case "convert":
			typ := sc.Target.In[0].Type
			o = w.Convert(typ, args)
			if o.Panic == "" && o.Err == nil {
				// the returned value is what an identity function of that
				// type would have been injected with
				if len(o.Outs) != 1 {
					v.Failf("Convert returned no value and no error")
				} else if msg := engine.CheckBinding(w, -1, engine.ArgObs{L: engine.Label{Type: typ, Dyn: typ}, Obs: o.Outs[0]}); msg != "" {
					v.Failf("Convert result: %s", msg)
				}
			}
		case "redefine":
			if c.HasFilter {
				args = append(args, argmapper.FilterInput(typeFilter(c.Filter)))
				if rep == 0 {
					v.Class("redefine-with-input-filter")
				}
			}
			w.FreshSubtypes = true
			_, rerr, rpanic, _, ro := w.RedefineCall(target, args)
			o = ro
			if rpanic != "" {
				v.Class("panic")
			}
			if rerr != nil {
				v.Class("redefine-error")
			}
			// planning must not have executed anything with bad args either:
			// all events of the world are checked below.
			o.Events = w.EventsSince(0)
		}
		if o.Panic != "" {
			// C06's business; no C01 verdict beyond the events logged so far
			v.Class("panic")
		}
		if msg := engine.CheckBindings(w, o.Events); msg != "" {
			v.Failf("%s", msg)
		}
		if msg := w.RetainedMismatch(); msg != "" {
			v.Failf("%s", msg)
		}
		if engine.ConvExecs(o.Events) > 0 {
			convRan = true
		}
		if rep == 0 {
			if o.Err != nil {
				v.Class("outcome-error")
			} else if o.Panic == "" {
				v.Class("outcome-ok")
			}
			v.Class(fmt.Sprintf("conv-execs=%d", min(engine.ConvExecs(o.Events), 4)))
		}
	}
	// non-trivial: a converter body ran, or some parameter had >= 2 R+ candidates
	multi := false
	srcs := engine.AllSourceLabels(sc)
	for _, p := range sc.Target.In {
		if engine.Candidates(p, srcs, engine.RPlus) >= 2 {
			multi = true
		}
	}
	if multi {
		v.Class("param-with-2+-candidates")
	}
	v.NonTrivial = convRan || multi
	return v
}

func genC01(g engine.G) *engine.Case {
	o := engine.DefaultFuncOpts()
	o.AllowOnce = true
	o.FailP = 10
	var sc *engine.Scenario
	switch g.Int(0, 6) {
	case 6:
		sc = engine.GenWide(g, o)
	case 5:
		// labels containing "/" + type strings, and non-identifier names
		sc = engine.GenHostile(g, o)
	case 0:
		sc = engine.GenUniform(g, o, true, true)
	case 1:
		// converter outputs may repeat a type under different subtypes
		pal := engine.GenPalette(g, true, true)
		pal.LooseOutputs = true
		if len(pal.Subs) == 0 {
			pal.Subs, pal.SubP = engine.AllSubs, 40
		}
		b := engine.NewBuilder(g, pal, o)
		b.Sc.Target = engine.GenTarget(g, pal, 3, o)
		for _, p := range b.Sc.Target.In {
			b.Produce(p, g.Int(1, 3), 2)
		}
		b.Distract(1, 2)
		sc = b.Sc
	default:
		sc = engine.GenDerivable(g, o, true, true, 2, 3)
	}
	if g.Pct(2) {
		sc = engine.GenMany(g)
	}
	if g.Pct(15) {
		// generated converters (ConverterGen) next to the supplied ones
		sc.Gens = engine.GenGens(g, engine.Palette{Types: []int{0, 1, 2, 3, 4, 5}}, false)
	}
	if g.Pct(10) {
		// one subtype label becomes its upper-case twin: a different label
		engine.CaseTwinSubtype(g, sc)
	}
	sc.JoinTyped = g.Pct(10)
	sc.RawConverters = g.Pct(15)
	if t := &sc.Target; g.Pct(10) && !t.HasErr && !t.Built && !t.Identity && t.OutForm == engine.FormPos {
		// a final result of a concrete error type: an ordinary output
		t.ConcreteErr = true
	}
	c := &engine.Case{Sc: sc, Reps: 2}
	if g.Pct(20) {
		c.Note = engine.Pick(g, []string{"wrap", "fromsig"})
	}
	switch k := g.Int(0, 9); {
	case k < 6:
		c.Entry = "call"
	case k < 8:
		c.Entry = "redefine"
		if g.Pct(40) {
			c.Sc, c.Filter = engine.GenRedefineFocus(g)
			sc = c.Sc
			c.HasFilter = true
		} else if g.Pct(60) {
			// an input filter over a drawn subset of the types in play: the
			// supplied values' types (leaves) are always useful to permit
			c.HasFilter = true
			for _, in := range sc.Inputs {
				if g.Pct(70) {
					c.Filter = append(c.Filter, in.L.Type)
				}
			}
			for i, n := 0, g.Int(0, 3); i < n; i++ {
				c.Filter = append(c.Filter, g.Int(0, engine.NumTypes-1))
			}
			c.Filter = uniqInts(c.Filter)
		}
	default:
		// Convert needs a single type-only parameter without subtype
		c.Entry = "convert"
		p := sc.Target.In[0]
		sc.Target = engine.FuncSpec{ID: engine.TargetID, In: []engine.Label{{Type: p.Type, Dyn: p.Type}}, InForm: engine.FormPos, Out: []engine.Label{{Type: p.Type, Dyn: p.Type}}, OutForm: engine.FormPos}
	}
	return c
}

func TestC01(t *testing.T) { runProp(t, "C01", genC01) }
