package props

import (
	"fmt"
	"strings"
	"testing"

	"github.com/hashicorp/go-argmapper/verifharness/engine"
)

func init() {
	evaluators["C02"] = evalC02
	evaluators["C05"] = evalC05
	evaluators["C13"] = evalC13
}

// runReps executes the scenario's Call reps times on fresh worlds. prime
// (optional): "wrap" / "fromsig" -- see World.Prime.
func runReps(sc *engine.Scenario, reps int, prime ...string) ([]engine.Outcome, []*engine.World, error) {
	var outs []engine.Outcome
	var ws []*engine.World
	for rep := 0; rep < reps; rep++ {
		w := engine.NewWorld()
		target, args, err := w.Setup(sc)
		if err != nil {
			return nil, nil, err
		}
		if len(prime) > 0 && prime[0] != "" {
			w.Prime(prime[0])
		}
		outs = append(outs, w.Call(target, args))
		ws = append(ws, w)
	}
	return outs, ws, nil
}

func hasFailing(sc *engine.Scenario) bool {
	for i := range sc.Convs {
		if sc.Convs[i].Fail {
			return true
		}
	}
	return sc.Target.Fail
}

// evalC02: unsatisfiable calls are refused.
func evalC02(c *engine.Case) engine.Verdict {
	var v engine.Verdict
	sc := c.Sc
	engine.ScenarioClasses(&v, sc)
	ap := engine.Analyze(sc, engine.RPlus)
	if ap.Derivable {
		// not in the property's domain (generator perturbation did not cut the derivation)
		v.Class("domain-miss:derivable-under-R+")
		return v
	}
	v.Class("underivable-under-R+")
	allSat := engine.AllConvsSatisfiable(sc, engine.RMinus)
	if allSat {
		v.Class("all-converters-satisfiable")
	}
	cyc := engine.DepCyclic(sc, engine.RPlus)
	if cyc {
		v.Class("cyclic")
	}
	// non-trivial: refusal needs the AND semantics (some source label is
	// R+-compatible with a missing parameter but its converter cannot fire),
	// or the scenario contains a cycle.
	needsAnd := false
	all := engine.AllSourceLabels(sc)
	for i, p := range sc.Target.In {
		if !ap.ParamOK[i] && engine.Candidates(p, all, engine.RPlus) > 0 {
			needsAnd = true
		}
	}
	if needsAnd {
		v.Class("refusal-needs-AND-semantics")
	}
	v.NonTrivial = needsAnd || cyc
	reps := c.Reps
	if reps <= 0 {
		reps = 1
	}
	if c.Note != "" {
		v.Class("primed-" + c.Note)
	}
	if len(sc.PriorInputs) > 0 {
		v.Class("prior-call-on-same-func")
	}
	outs, ws, err := runReps(sc, reps, c.Note)
	if err != nil {
		v.Class("setup-error")
		return v
	}
	for i, o := range outs {
		if o.Panic != "" {
			v.Failf("Call panicked instead of returning an error: %s", o.Panic)
			break
		}
		if o.Err == nil {
			v.Failf("Call succeeded although parameter(s) %v of the target are underivable", missing(sc, ap))
			break
		}
		if engine.TargetRan(o.Events) {
			v.Failf("target body executed although the call is unsatisfiable")
			break
		}
		for _, ev := range o.Events {
			for _, a := range ev.Args {
				if !a.Valid || a.Tok == 0 {
					v.Failf("converter f%d executed with a missing argument %s", ev.Func, a.L)
				} else if _, ok := ws[i].Origin(a.Tok); !ok {
					v.Failf("converter f%d executed with an invented argument %s (#%d)", ev.Func, a.L, a.Tok)
				}
			}
		}
		if _, isUA := engine.IsUnsatisfied(o.Err); allSat && !isUA && !hasFailing(sc) {
			v.Failf("every converter is satisfiable but the error is %T, not the unsatisfied-argument error: %.120s", o.Err, o.ErrS)
		}
		if i == 0 {
			if _, isUA := engine.IsUnsatisfied(o.Err); isUA {
				v.Class("err-unsatisfied")
			} else {
				v.Class("err-other")
			}
			v.Class(fmt.Sprintf("conv-execs=%d", min(engine.ConvExecs(o.Events), 3)))
		}
		if v.Fail != "" {
			break
		}
	}
	return v
}

func missing(sc *engine.Scenario, a engine.Analysis) []string {
	var m []string
	for i, p := range sc.Target.In {
		if !a.ParamOK[i] {
			m = append(m, p.String())
		}
	}
	return m
}

func genC02(g engine.G) *engine.Case {
	o := engine.DefaultFuncOpts()
	o.AllowOnce = true
	var sc *engine.Scenario
	switch g.Int(0, 4) {
	case 0:
		sc = engine.GenUniform(g, o, true, true)
	case 1:
		sc = engine.GenNasty(g)
		sc.Gens, sc.Malformed = nil, nil
		for i := range sc.Convs {
			sc.Convs[i].Fail = false
		}
	default:
		sc = engine.GenUnderivable(g, o)
	}
	if g.Pct(10) {
		// one subtype label becomes its upper-case twin: a different label
		engine.CaseTwinSubtype(g, sc)
	}
	c := &engine.Case{Sc: sc, Reps: 3}
	// multi-step: values were written into the functions' own value sets
	// before the call (wrapper idiom / FromSignature); see World.Prime
	if g.Pct(40) {
		c.Note = engine.Pick(g, []string{"wrap", "fromsig"})
	}
	return c
}

func TestC02(t *testing.T) { runProp(t, "C02", genC02) }

// evalC05: chaining is complete on well-behaved converter sets and the
// outcome is stable across repetitions.
func evalC05(c *engine.Case) engine.Verdict {
	var v engine.Verdict
	sc := c.Sc
	engine.ScenarioClasses(&v, sc)
	am := engine.Analyze(sc, engine.RMinus)
	single := engine.SingleInput(sc)
	cyc := engine.DepCyclic(sc, engine.RPlus)
	allSat := engine.AllConvsSatisfiable(sc, engine.RMinus)
	switch {
	case !am.Derivable:
		if engine.Analyze(sc, engine.RPlus).Derivable {
			v.Class("domain-miss:gap(R+ only)")
		} else {
			v.Class("domain-miss:underivable")
		}
		return v
	case single:
		v.Class("premise-a:single-input")
	case !cyc && allSat:
		v.Class("premise-b:acyclic-all-satisfiable")
	default:
		v.Class("domain-miss:ill-behaved-converter-set")
		return v
	}
	if cyc {
		v.Class("cyclic")
	}
	reps := c.Reps
	if reps <= 0 {
		reps = 1
	}
	outs, _, err := runReps(sc, reps)
	if err != nil {
		v.Class("setup-error")
		return v
	}
	anyFail, nOK, nErr, maxChain := false, 0, 0, 0
	for _, o := range outs {
		if o.Panic != "" {
			v.Failf("Call panicked: %s", o.Panic)
			return v
		}
		failedBody := false
		for _, ev := range o.Events {
			if ev.Err != nil {
				failedBody = true
				anyFail = true
				if o.Err != ev.Err {
					v.Failf("converter f%d failed but Call returned a different error: %.120s", ev.Func, o.ErrS)
					return v
				}
			}
		}
		if o.Err != nil && !failedBody {
			v.Failf("every parameter is derivable on a well-behaved converter set, but Call failed: %.200s", o.ErrS)
			return v
		}
		if o.Err == nil {
			nOK++
		} else {
			nErr++
		}
		if n := engine.ConvExecs(o.Events); n > maxChain {
			maxChain = n
		}
	}
	if !anyFail && nOK != len(outs) {
		v.Failf("outcome not stable: %d successes, %d failures over %d repetitions", nOK, nErr, len(outs))
	}
	v.Class(fmt.Sprintf("max-conv-execs=%d", min(maxChain, 4)))
	if anyFail {
		v.Class("a-converter-failed")
	}
	v.NonTrivial = maxChain >= 2 || cyc
	return v
}

// genC05GenMemo: a value-dependent converter generator (it emits its
// converter only for values carrying an odd token) whose option object is
// used by two calls in a row: first with a value it has nothing for, then --
// the call under test -- with a value of the same label it does convert.
func genC05GenMemo(g engine.G) *engine.Case {
	perm := rapidPerm(g, []int{0, 1, 2, 3, 4, 5})
	from, to := perm[0], perm[1]
	l := engine.Label{Type: from, Dyn: from}
	if g.Pct(40) {
		l.Name = engine.Pick(g, engine.AllNames)
	}
	if g.Pct(30) {
		l.Sub = engine.Pick(g, engine.AllSubs)
	}
	sc := &engine.Scenario{
		Inputs:      []engine.Input{{L: l, Tok: 3}},
		PriorInputs: []engine.Input{{L: l, Tok: 2}},
		Gens:        []engine.GenSpec{{ID: 1, From: from, To: to, Mode: "odd"}},
		Target:      engine.FuncSpec{ID: engine.TargetID, In: []engine.Label{{Type: to, Dyn: to}}, InForm: engine.GenForm(g), OutForm: engine.FormPos},
	}
	if g.Pct(40) {
		// some more supplied values the generator is not interested in
		sc.Inputs = append(sc.Inputs, engine.Input{L: engine.Label{Type: perm[2], Dyn: perm[2]}, Tok: 5})
	}
	return &engine.Case{Sc: sc, Reps: 2}
}

func genC05(g engine.G) *engine.Case {
	if g.Pct(3) {
		return genC05GenMemo(g)
	}
	o := engine.DefaultFuncOpts()
	o.AllowOnce = true
	o.FailP = 8
	var sc *engine.Scenario
	pal := engine.GenPalette(g, true, true)
	sameName := g.Pct(30)
	if sameName {
		// same-name cycles: one name over two or three types, converters in
		// both directions, inputs under that name with subtypes. The -1
		// same-name discount and the +1 function hop make such cycles free,
		// so equal-cost ties between direct and cyclic paths are frequent.
		if k := 2 + g.Int(0, 1); k < len(pal.Types) {
			pal.Types = pal.Types[:k]
		}
		pal.Names = pal.Names[:1]
		pal.NameP = 85
		pal.Subs, pal.SubP = engine.AllSubs, 35
	}
	b := engine.NewBuilder(g, pal, o)
	b.Sc.Target = engine.GenTarget(g, pal, 3, o)
	if sameName {
		for _, p := range b.Sc.Target.In {
			b.Produce(p, g.Int(1, 3), 1)
		}
		b.AddReverse(90)
		o1 := o
		o1.MaxIn = 1
		b.Opts = o1
		b.Distract(2, 2)
	} else if g.Pct(55) {
		// (a) single-input converters, arbitrary cycles
		for _, p := range b.Sc.Target.In {
			b.Produce(p, g.Int(1, 5), 1)
		}
		b.AddReverse(50)
		// distractors restricted to <= 1 input
		o1 := o
		o1.MaxIn = 1
		b.Opts = o1
		b.Distract(2, 3)
	} else {
		// (b) multi-input, acyclic by construction most of the time
		for _, p := range b.Sc.Target.In {
			b.Produce(p, g.Int(1, 4), 3)
		}
		b.Distract(2, 1)
	}
	b.ShuffleInputs()
	sc = b.Sc
	if g.Pct(8) {
		sc = engine.GenWide(g, o)
	}
	if g.Pct(25) {
		// premise (b): acyclic-by-construction multi-input sets with diamonds
		sc = engine.GenLayered(g, o)
	}
	if g.Pct(2) {
		// premise (a) at a size the other profiles never reach
		return &engine.Case{Sc: engine.GenMany(g), Reps: 2}
	}
	if g.Pct(1) {
		return &engine.Case{Sc: engine.GenLadder(g), Reps: 2}
	}
	if g.Pct(25) {
		// a mid-chain converter is not supplied but emitted by a generator
		// when it is shown the intermediate value
		engine.GeneratorizeMid(g, sc)
	}
	return &engine.Case{Sc: sc, Reps: 10}
}

func TestC05(t *testing.T) { runProp(t, "C05", genC05) }

// evalC13: the unsatisfied-argument error is accurate.
func evalC13(c *engine.Case) engine.Verdict {
	var v engine.Verdict
	sc := c.Sc
	engine.ScenarioClasses(&v, sc)
	all := engine.AllSourceLabels(sc)
	var hopeless []engine.Label
	verdicts := map[bool]bool{}
	for _, p := range sc.Target.In {
		h := engine.Candidates(p, all, engine.RPlus) == 0
		verdicts[h] = true
		if h {
			hopeless = append(hopeless, p)
		}
	}
	if len(hopeless) == 0 {
		v.Class("domain-miss:no-hopeless-parameter")
		return v
	}
	v.NonTrivial = len(verdicts) == 2
	if v.NonTrivial {
		v.Class("mixed-verdicts")
	}
	am := engine.Analyze(sc, engine.RMinus)
	reps := c.Reps
	if reps <= 0 {
		reps = 1
	}
	for rep := 0; rep < reps && v.Fail == ""; rep++ {
		w := engine.NewWorld()
		target, args, err := w.Setup(sc)
		if err != nil {
			v.Class("setup-error")
			return v
		}
		o := w.Call(target, args)
		if o.Panic != "" {
			v.Class("panic") // C06's business
			return v
		}
		ua, ok := engine.IsUnsatisfied(o.Err)
		if !ok {
			v.Failf("parameter(s) %v have no compatible source at all, but the error is %T (%.100s), not the unsatisfied-argument error", hopeless, o.Err, o.ErrS)
			break
		}
		key := func(name string, typ interface{ String() string }, sub string) string {
			return name + "|" + typ.String() + "|" + sub
		}
		listed := map[string]bool{}
		for _, a := range ua.Args {
			listed[key(a.Name, a.Type, a.Subtype)] = true
		}
		for _, p := range hopeless {
			if !listed[key(p.Name, engine.Types[p.Type], p.Sub)] {
				v.Failf("hopeless parameter %s is not in the error's list of missing arguments", p)
			}
		}
		for _, a := range ua.Args {
			found := false
			for i, p := range sc.Target.In {
				if key(p.Name, engine.Types[p.Type], p.Sub) == key(a.Name, a.Type, a.Subtype) {
					found = true
					if am.ParamOK[i] {
						v.Failf("parameter %s is listed as missing although it is derivable (strict table)", p)
					}
					for _, in := range engine.EffectiveInputs(sc.Inputs) {
						if in.L.Key() == p.Key() {
							v.Failf("parameter %s is listed as missing although an exactly matching value was supplied", p)
						}
					}
				}
			}
			if !found {
				v.Failf("the error lists %s, which is not a parameter of the target", a.String())
			}
			if a.Value.IsValid() {
				v.Failf("a missing argument carries a value")
			}
		}
		// inputs: exactly the supplied values
		want := map[string]int{}
		for _, in := range engine.EffectiveInputs(sc.Inputs) {
			want[key(in.L.Name, engine.Types[in.L.Type], in.L.Sub)]++
		}
		got := map[string]int{}
		for _, a := range ua.Inputs {
			got[key(a.Name, a.Type, a.Subtype)]++
			if o2 := engine.Observe(a.Value); !o2.Valid {
				v.Failf("listed input %s carries no value", a.String())
			}
		}
		if fmt.Sprint(want) != fmt.Sprint(got) {
			v.Failf("error's input list %v differs from the supplied values %v", got, want)
		}
		// converters: every supplied *Func by identity
		have := map[interface{}]bool{}
		for _, f := range ua.Converters {
			have[f] = true
		}
		for i := range sc.Convs {
			if !have[w.Funcs[sc.Convs[i].ID]] {
				v.Failf("supplied converter f%d is not in the error's converter list", sc.Convs[i].ID)
			}
		}
		if ua.Func != target {
			v.Failf("error's Func is not the target")
		}
		msg := o.Err.Error()
		if strings.Contains(msg, "%") {
			v.Class("message-with-percent-sign")
		}
		for _, a := range ua.Args {
			if !contains(msg, a.String()) {
				v.Failf("error message does not mention missing argument %s", a.String())
			}
		}
		for _, p := range hopeless {
			pv := engine.ValuesFor([]engine.Label{p})[0]
			pv.Name = p.Name
			if !contains(msg, pv.String()) {
				v.Failf("error message does not mention hopeless parameter %s", p)
			}
		}
	}
	return v
}

func contains(s, sub string) bool {
	return len(sub) == 0 || (len(s) >= len(sub) && (indexOf(s, sub) >= 0))
}

func indexOf(s, sub string) int {
	for i := 0; i+len(sub) <= len(s); i++ {
		if s[i:i+len(sub)] == sub {
			return i
		}
	}
	return -1
}

func genC13(g engine.G) *engine.Case {
	o := engine.DefaultFuncOpts()
	o.AllowOnce = true
	pal := engine.GenPalette(g, true, true)
	if g.Pct(20) {
		// names and subtype labels are free-form strings (struct tags, Named
		// options): formatting verbs in them must come out of the message as
		// they went in
		pal.Names = append([]string{"disk%used", "100%", "%s", "a%d%%"}[:g.Int(1, 4)], pal.Names[:g.Int(1, len(pal.Names))]...)
		pal.Subs, pal.SubP = []string{"s", "%v", "s%dt"}, 40
	}
	b := engine.NewBuilder(g, pal, o)
	b.Sc.Target = engine.GenTarget(g, pal, 4, o)
	for _, p := range b.Sc.Target.In {
		switch g.Int(0, 3) {
		case 0: // leave it to chance (often hopeless)
		case 1:
			b.Produce(p, 0, 1)
		default:
			b.Produce(p, g.Int(0, 2), 2)
		}
	}
	// add a parameter of a type nobody else uses: certainly hopeless
	if g.Pct(50) && b.Sc.Target.InForm != engine.FormPos {
		used := map[int]bool{}
		for _, t := range pal.Types {
			used[t] = true
		}
		for t := 0; t < engine.NumConcrete; t++ {
			if !used[t] {
				l := engine.Label{Type: t, Dyn: t}
				if g.Bool() {
					l.Name = "zz"
				}
				b.Sc.Target.In = append(b.Sc.Target.In, l)
				break
			}
		}
	}
	b.Distract(2, 3)
	b.ShuffleInputs()
	if g.Pct(30) {
		// converter generators registered next to the supplied converters
		b.Sc.Gens = engine.GenGens(g, pal, false)
	}
	return &engine.Case{Sc: b.Sc, Reps: 2}
}

func TestC13(t *testing.T) { runProp(t, "C13", genC13) }
