package props

import (
	"fmt"
	"strings"
	"testing"

	"github.com/hashicorp/go-argmapper"
	"github.com/hashicorp/go-argmapper/verifharness/engine"
)

func init() { evaluators["C03"] = evalC03 }

// evalC03: when every parameter has an exactly matching supplied value, the
// call succeeds, runs no converter, and injects exactly those values.
func evalC03(c *engine.Case) engine.Verdict {
	var v engine.Verdict
	sc := c.Sc
	engine.ScenarioClasses(&v, sc)
	eff := engine.EffectiveInputs(sc.Inputs)
	exact := map[engine.Key]engine.Input{}
	for _, in := range eff {
		exact[in.L.Key()] = in
	}
	for _, p := range sc.Target.In {
		if _, ok := exact[p.Key()]; !ok || engine.IsIface(p.Type) {
			v.Class("domain-miss:no-exact-input")
			return v
		}
	}
	// distractors: sources (other than the exact input itself) that are R+
	// compatible with some parameter
	distract := 0
	for _, p := range sc.Target.In {
		n := engine.Candidates(p, engine.AllSourceLabels(sc), engine.RPlus)
		if n > 1 {
			distract += n - 1
		}
	}
	v.NonTrivial = distract > 0
	v.Class(fmt.Sprintf("distractors=%d", min(distract, 5)))
	reps := c.Reps
	if reps <= 0 {
		reps = 1
	}
	var outs []engine.Outcome
	var ws []*engine.World
	var err error
	if c.Note == "warm" {
		// every input-free run-once converter has ALREADY RUN, in an earlier
		// call of another target that needed its first result: a memoized
		// provider must not become any more attractive than a fresh one
		warmed := 0
		for rep := 0; rep < reps; rep++ {
			w := engine.NewWorld()
			target, args, serr := w.Setup(sc)
			if serr != nil {
				v.Class("setup-error")
				return v
			}
			for i := range sc.Convs {
				fs := &sc.Convs[i]
				pf := w.Funcs[fs.ID]
				if !fs.Once || len(fs.In) > 0 || len(fs.Out) == 0 || pf == nil {
					continue
				}
				need := fs.Out[0]
				if engine.IsIface(need.Type) {
					continue
				}
				wt, werr := w.Realize(&engine.FuncSpec{ID: 800 + fs.ID, In: []engine.Label{need}, InForm: engine.FormStruct, OutForm: engine.FormPos})
				if werr != nil {
					continue
				}
				if wo := w.Call(wt, []argmapper.Arg{argmapper.ConverterFunc(pf), engine.Quiet()}); wo.Err == nil && wo.Panic == "" {
					warmed++
				}
			}
			outs = append(outs, w.Call(target, args))
			ws = append(ws, w)
		}
		if warmed > 0 {
			v.Class("memoized-run-once-provider-among-the-distractors")
		}
	} else {
		outs, ws, err = runReps(sc, reps)
	}
	if err != nil {
		v.Class("setup-error")
		return v
	}
	for i, o := range outs {
		if o.Panic != "" {
			v.Failf("Call panicked: %s", o.Panic)
			break
		}
		if o.Err != nil && !sc.Target.Fail {
			v.Failf("every parameter has an exactly matching input, but Call failed: %.200s", o.ErrS)
			break
		}
		if n := engine.ConvExecs(o.Events); n > 0 {
			v.Failf("every parameter has an exactly matching input, but %d converter(s) were executed (first: f%d)", n, o.Events[0].Func)
			break
		}
		if len(o.Events) != 1 || o.Events[0].Func != engine.TargetID {
			v.Failf("expected exactly one execution (the target), got %d events", len(o.Events))
			break
		}
		for _, a := range o.Events[0].Args {
			if a.L.Named() {
				want := exact[a.L.Key()]
				if a.Tok != want.Tok {
					v.Failf("named parameter %s received #%d, the value supplied under exactly that label is #%d", a.L, a.Tok, want.Tok)
				}
			} else {
				org, ok := ws[i].Origin(a.Tok)
				if !ok || !org.Input || org.Dyn != a.L.Type {
					v.Failf("type-only parameter %s received #%d which is not a supplied value of exactly that type", a.L, a.Tok)
				}
			}
		}
		if v.Fail != "" {
			break
		}
	}
	return v
}

// genC03: the exact profile -- target first, one exactly labelled input per
// parameter, then distractors of every kind.
func genC03(g engine.G) *engine.Case {
	o := engine.DefaultFuncOpts()
	o.AllowOnce = true
	o.FailP = 10
	pal := engine.GenPalette(g, true, true)
	// concrete parameter types only: a supplied value never has an interface
	// as its dynamic type
	var ct []int
	for _, t := range pal.Types {
		if !engine.IsIface(t) {
			ct = append(ct, t)
		}
	}
	tpal := pal
	tpal.Types = ct
	b := engine.NewBuilder(g, pal, o)
	b.Sc.Target = engine.GenTarget(g, tpal, 3, o)
	b.Sc.Target.Fail = false
	for _, p := range b.Sc.Target.In {
		b.AddInput(engine.Label{Name: p.Name, Type: p.Type, Sub: p.Sub})
	}
	// distractors: same-type inputs under other names/subtypes
	for _, p := range b.Sc.Target.In {
		for k, n := 0, g.Int(0, 2); k < n; k++ {
			l := engine.Label{Type: p.Type}
			if g.Pct(60) {
				l.Name = engine.Pick(g, pal.Names)
			}
			if g.Pct(40) {
				l.Sub = engine.Pick(g, engine.AllSubs)
			}
			if l.Key() != p.Key() {
				b.AddInput(l)
			}
		}
		// converters / providers able to produce the same label
		if g.Pct(60) {
			b.Produce(p, g.Int(1, 3), 2)
			// Produce may add inputs that overwrite an exact one: re-add the
			// exact input last so that it is the effective one
			b.AddInput(engine.Label{Name: p.Name, Type: p.Type, Sub: p.Sub})
		}
	}
	b.AddReverse(40)
	b.Distract(2, 3)
	if g.Pct(20) {
		b.Sc.Gens = engine.GenGens(g, pal, false)
	}
	// make sure exact inputs survive "last wins": append them once more
	for _, p := range b.Sc.Target.In {
		b.AddInput(engine.Label{Name: p.Name, Type: p.Type, Sub: p.Sub})
	}
	b.Sc.JoinTyped = g.Pct(30)
	if g.Pct(10) {
		// a distractor whose subtype label is the upper-case twin of an exact
		// input's: a different label, it must not take the exact one's place
		for _, p := range b.Sc.Target.In {
			if p.Sub != "" && strings.ToUpper(p.Sub) != p.Sub {
				b.AddInput(engine.Label{Name: p.Name, Type: p.Type, Sub: strings.ToUpper(p.Sub)})
				break
			}
		}
		b.ShuffleInputs()
	}
	c := &engine.Case{Sc: b.Sc, Reps: 3}
	if g.Pct(25) {
		// run-once providers (no inputs) of a NAMED value of a parameter's
		// type, which an earlier call has already executed ("warm")
		c.Note = "warm"
		for _, p := range b.Sc.Target.In {
			if g.Pct(60) {
				out := engine.Label{Name: engine.Pick(g, pal.Names), Type: p.Type, Sub: p.Sub, Dyn: p.Type}
				if p.Named() && g.Bool() {
					out.Name = p.Name
				}
				b.AddConv(engine.FuncSpec{ID: b.NewID(), InForm: engine.FormPos, Out: []engine.Label{out}, OutForm: engine.Pick(g, []string{engine.FormStruct, engine.FormPtr}), Once: true, HasErr: g.Bool()})
			}
		}
		c.Reps = 6
	}
	return c
}

func TestC03(t *testing.T) { runProp(t, "C03", genC03) }
