package props

import (
	"fmt"
	"reflect"
	"strings"
	"testing"

	"github.com/hashicorp/go-argmapper"
	"github.com/hashicorp/go-argmapper/verifharness/engine"
)

func init() {
	evaluators["C04"] = evalC04
	evaluators["C07"] = evalC07
	evaluators["C10"] = evalC10
}

// evalC04: a failing converter aborts the call and its error is returned
// verbatim. Two sequential calls on one world (memoized failing converters).
func evalC04(c *engine.Case) engine.Verdict {
	var v engine.Verdict
	sc := c.Sc
	engine.ScenarioClasses(&v, sc)
	reps := c.Reps
	if reps <= 0 {
		reps = 1
	}
	deepFail := false
	for rep := 0; rep < reps && v.Fail == ""; rep++ {
		w := engine.NewWorld()
		if strings.HasPrefix(c.Note, "errkind=") {
			// the error values real converters return: the unsatisfied-argument
			// error of a call of their own, a wrapped error, a plain one, a
			// comparable value type -- each must come back as the very value
			kind := c.Note[len("errkind="):]
			w.FailWith = func(fs *engine.FuncSpec, exec int) error { return foreignError(kind, fs.ID, exec) }
			if rep == 0 {
				v.Class("foreign-error-value:" + kind)
			}
		}
		target, args, err := w.Setup(sc)
		if err != nil {
			v.Class("setup-error")
			return v
		}
		onceFailed := map[error]bool{}
		for call := 0; call < 2 && v.Fail == ""; call++ {
			o := w.Call(target, args)
			if o.Panic != "" {
				v.Class("panic")
				return v
			}
			var failedAt = -1
			for i, ev := range o.Events {
				if ev.Err != nil && failedAt < 0 {
					failedAt = i
				}
			}
			if failedAt >= 0 {
				ev := o.Events[failedAt]
				if o.Err != ev.Err {
					v.Failf("call %d: f%d returned error %q but Call returned %T %.100q", call, ev.Func, ev.ErrS, o.Err, o.ErrS)
				}
				if failedAt != len(o.Events)-1 {
					v.Failf("call %d: %d more function(s) executed after f%d failed (next: f%d)", call, len(o.Events)-1-failedAt, ev.Func, o.Events[failedAt+1].Func)
				}
				if ev.Func != engine.TargetID && engine.TargetRan(o.Events) {
					v.Failf("call %d: target executed although converter f%d failed", call, ev.Func)
				}
				if ev.Func != engine.TargetID {
					if failedAt >= 1 {
						deepFail = true
					}
					if fs := w.Specs[ev.Func]; fs != nil && fs.Once {
						onceFailed[ev.Err] = true
					}
				}
			}
			if o.Err == nil {
				for _, ev := range o.Events {
					if ev.Err != nil {
						v.Failf("call %d: result carries no error although f%d failed", call, ev.Func)
					}
				}
				if !engine.TargetRan(o.Events) {
					v.Failf("call %d: no error but the target did not run", call)
				}
			} else if failedAt < 0 {
				// error without a failing body in this call: resolution error,
				// or the cached error of a run-once converter that failed before
				if fe, ok := o.Err.(*engine.FailErr); ok || (comparableErr(o.Err) && onceFailed[o.Err]) {
					if !onceFailed[o.Err] {
						v.Failf("call %d: Call returned body error %v but no body failed in this call and it is not a memoized failure", call, fe)
					} else {
						v.Class("memoized-failure-returned")
						if len(o.Events) > 0 && engine.TargetRan(o.Events) {
							v.Failf("call %d: target ran although a memoized converter failure was returned", call)
						}
					}
				} else {
					v.Class("resolution-error")
				}
			}
			if msg := engine.ConsumedFromFailedExec(w, w.EventsSince(0)); msg != "" {
				v.Failf("call %d: %s", call, msg)
			}
			for _, ob := range o.Outs {
				if org, ok := w.Origin(ob.Tok); ok && !org.Input && o.Err == nil {
					for _, ev := range w.EventsSince(0) {
						if ev.Func == org.Func && ev.Exec == org.Exec && ev.Err != nil {
							v.Failf("call %d: Call returned without error the outputs of execution #%d of f%d, which failed", call, org.Exec, org.Func)
						}
					}
				}
			}
			if msg := w.RetainedMismatch(); msg != "" {
				v.Failf("call %d: %s", call, msg)
			}
			if rep == 0 && call == 0 {
				switch {
				case failedAt >= 0 && o.Events[failedAt].Func == engine.TargetID:
					v.Class("target-failed")
				case failedAt >= 0:
					v.Class(fmt.Sprintf("converter-failed-after=%d", min(failedAt, 3)))
				case o.Err == nil:
					v.Class("no-failure")
				}
			}
		}
	}
	if deepFail {
		v.Class("failure-after-successful-converter")
	}
	v.NonTrivial = deepFail
	return v
}

// valErr is an error of a comparable VALUE type.
type valErr struct{ F, E int }

func (e valErr) Error() string { return fmt.Sprintf("valErr f%d exec %d", e.F, e.E) }

func comparableErr(err error) bool {
	return err != nil && reflect.TypeOf(err).Comparable()
}

// foreignError makes the error value of a failing body for C04's
// "errkind" cases.
func foreignError(kind string, id, exec int) error {
	switch kind {
	case "unsat", "wrapped-unsat":
		// what a converter that runs an argmapper call of its own returns when
		// that call lacks an argument: *ErrArgumentUnsatisfied without inputs
		// and converters
		inner, err := argmapper.NewFunc(func(struct {
			argmapper.Struct
			Missing int
		}) {
		})
		if err != nil {
			panic(err)
		}
		res := inner.Call(engine.Quiet())
		uerr := res.Err()
		if uerr == nil {
			panic("inner call succeeded")
		}
		if kind == "wrapped-unsat" {
			return fmt.Errorf("f%d exec %d: %w", id, exec, uerr)
		}
		return uerr
	case "plain":
		return fmt.Errorf("plain failure of f%d exec %d", id, exec)
	default:
		return valErr{id, exec}
	}
}

func genC04(g engine.G) *engine.Case {
	o := engine.DefaultFuncOpts()
	o.AllowOnce = true
	o.ErrP = 75
	o.FailP = 35
	deep := g.Pct(55)
	if deep {
		o.FailP = 0
	}
	var sc *engine.Scenario
	if deep {
		// deep chains: every parameter is produced through >= 1 converter
		pal := engine.GenPalette(g, true, true)
		b := engine.NewBuilder(g, pal, o)
		b.Sc.Target = engine.GenTarget(g, pal, 2, o)
		for _, p := range b.Sc.Target.In {
			b.Produce(p, g.Int(2, 4), 2)
		}
		b.ShuffleInputs()
		sc = b.Sc
	} else {
		sc = engine.GenDerivable(g, o, true, true, 2, 4)
	}
	if deep {
		// exactly one failing converter, preferably one that consumes the
		// output of another converter (so that it fails after a success)
		var cands []int
		for i := range sc.Convs {
			if len(sc.Convs[i].In) > 0 {
				cands = append(cands, i)
			}
		}
		if len(cands) == 0 {
			for i := range sc.Convs {
				cands = append(cands, i)
			}
		}
		if len(cands) > 0 {
			i := engine.Pick(g, cands)
			if g.Pct(70) {
				// converters are created target-first: the first one with an
				// input is the last to execute on its chain
				i = cands[0]
			}
			sc.Convs[i].HasErr, sc.Convs[i].Fail = true, true
		}
	}
	if g.Pct(25) && sc.Target.HasErr {
		sc.Target.Fail = true
	}
	c := &engine.Case{Sc: sc, Reps: 2}
	if g.Pct(35) {
		c.Note = "errkind=" + engine.Pick(g, []string{"unsat", "wrapped-unsat", "plain", "value"})
	}
	return c
}

func TestC04(t *testing.T) { runProp(t, "C04", genC04) }

// ---------------------------------------------------------------------------

// C07Case carries the roles of the affinity scenario.
type C07Case struct {
	Shape     int `json:"shape"`     // 1: same-named input is converted; 2: name-taking converter wins
	NameInput int `json:"nameInput"` // token of the input named like the parameter
	FirstConv int `json:"firstConv"` // id of the first (type-only) converter of the chain
	NamedConv int `json:"namedConv"` // shape 2: id of the converter taking the name explicitly
	// shape 3: several named parameters, all converted through the same
	// type-only chain; ParamInput maps a parameter name to the token of the
	// input carrying that name.
	ParamInput map[string]int `json:"paramInput,omitempty"`
	// Bystander: id of a converter that takes the name explicitly but makes a
	// type nobody needs (0 = none)
	Bystander int `json:"bystander,omitempty"`
	// Producer: id of a converter that could produce another value under the
	// label of the supplied same-named value (0 = none)
	Producer int `json:"producer,omitempty"`
	// Generated: the producer is emitted by a converter generator
	Generated bool `json:"generated,omitempty"`
	// Levels: shape 4 with a second two-input converter on top (2), else 0
	Levels int `json:"levels,omitempty"`
	// MultiOut: shape 3 whose last converter returns one named result per
	// parameter
	MultiOut bool `json:"multiOut,omitempty"`
	// Variant of shapes 5 and 6 (0 = the basic one), see the generators.
	Variant int `json:"variant,omitempty"`
	// CtxType (+1; 0 = none): a type-only "context" input of the multi-input
	// converter that is not its data argument.
	CtxType int `json:"ctxType,omitempty"`
}

// traceToInput follows a value back through single-input converter
// executions to the caller-supplied token it was converted from.
func traceToInput(w *engine.World, evs []engine.Event, tok int, ctxType ...int) (int, bool) {
	ctx := -1
	if len(ctxType) > 0 {
		ctx = ctxType[0] - 1
	}
	for hops := 0; hops < 16; hops++ {
		org, ok := w.Origin(tok)
		if !ok {
			return 0, false
		}
		if org.Input {
			return tok, true
		}
		found := false
		for _, ev := range evs {
			if ev.Func == org.Func && ev.Exec == org.Exec {
				di := 0
				if len(ev.Args) != 1 {
					// multi-input converter: follow its data argument (the
					// one that is not the named option)
					di = -1
					for i, a := range ev.Args {
						if !strings.HasPrefix(a.L.Name, "q") && !(ctx >= 0 && !a.L.Named() && a.L.Type == ctx) {
							di = i
						}
					}
					if di < 0 {
						return 0, false
					}
				}
				tok = ev.Args[di].Tok
				found = true
				break
			}
		}
		if !found {
			return 0, false
		}
	}
	return 0, false
}

func evalC07(c *engine.Case) engine.Verdict {
	var v engine.Verdict
	var x C07Case
	if err := c.GetX(&x); err != nil {
		v.Failf("bad case: %v", err)
		return v
	}
	sc := c.Sc
	engine.ScenarioClasses(&v, sc)
	v.Class(fmt.Sprintf("shape=%d", x.Shape))
	if x.Variant > 0 {
		v.Class(fmt.Sprintf("shape=%d/variant=%d", x.Shape, x.Variant))
	}
	if x.Bystander != 0 {
		v.Class("bystander-converter-takes-the-name")
	}
	if x.Producer != 0 {
		v.Class("producer-of-the-supplied-label")
	}
	if x.Levels == 2 {
		v.Class("two-nested-multi-input-converters")
	}
	if x.Generated {
		v.Class("producer-emitted-by-a-generator")
	}
	if x.MultiOut {
		v.Class("one-converter-returns-a-named-result-per-parameter")
	}
	for _, in := range sc.Inputs {
		if in.Tok == x.NameInput && in.L.Sub != "" {
			v.Class("same-named-input-carries-subtype")
		}
	}
	v.NonTrivial = true
	reps := c.Reps
	if reps <= 0 {
		reps = 1
	}
	outs, ws, err := runReps(sc, reps)
	if err != nil {
		v.Failf("setup: %v", err)
		return v
	}
	for oi, o := range outs {
		if o.Panic != "" {
			v.Failf("Call panicked: %s", o.Panic)
			break
		}
		if o.Err != nil {
			v.Failf("Call failed: %.200s", o.ErrS)
			break
		}
		shape := x.Shape
		if shape == 7 {
			shape = []int{4, 2, 4}[x.Variant]
		}
		switch shape {
		case 3, 5, 6:
			for _, ev := range o.Events {
				if ev.Func != engine.TargetID {
					continue
				}
				for _, a := range ev.Args {
					want, converted := x.ParamInput[a.L.Name]
					if !converted {
						continue
					}
					src, ok := traceToInput(ws[oi], o.Events, a.Tok, x.CtxType)
					if !ok {
						v.Failf("parameter %s: cannot trace #%d back to a supplied value", a.L, a.Tok)
					} else if src != want {
						org, _ := ws[oi].Origin(src)
						v.Failf("parameter %s was converted from #%d (supplied as %s); the supplied value with the parameter's name is #%d", a.L, src, org.L, want)
						// (shapes 5 and 6 were open findings KF-C07-1/2 until the
						// repairs D45 and D46; a fixed finding suppresses nothing)
					}
				}
			}
		case 4:
			// the converter has a second, named input; its type-only input
			// must still be fed by the value named like the parameter
			found := false
			for _, ev := range o.Events {
				if ev.Func != x.FirstConv {
					continue
				}
				found = true
				for _, a := range ev.Args {
					if x.CtxType > 0 && !a.L.Named() && a.L.Type == x.CtxType-1 {
						continue // the converter's other, "context" input
					}
					if !a.L.Named() && a.Tok != x.NameInput {
						v.Failf("the converter f%d (which also takes the named option %q) converted #%d; the supplied value whose name equals the parameter's name is #%d", ev.Func, ev.Args[0].L.Name, a.Tok, x.NameInput)
						if x.Shape == 7 && x.Variant == 2 {
							// open finding KF-C07-3 (known-findings.json),
							// identified by the shape of the case; only this
							// kind of failure is covered
							v.Known = "KF-C07-3"
						}
					}
				}
			}
			if !found {
				v.Failf("the only converter able to produce the parameter was not executed")
			}
		case 1:
			found := false
			for _, ev := range o.Events {
				if ev.Func == x.FirstConv {
					found = true
					if ev.Args[0].Tok != x.NameInput {
						v.Failf("the type-only converter f%d converted #%d; the input whose name equals the parameter's name is #%d", ev.Func, ev.Args[0].Tok, x.NameInput)
					}
				}
			}
			if !found {
				v.Failf("the only converter chain able to produce the parameter was not used (f%d not executed)", x.FirstConv)
			}
		case 2:
			named, typed := false, false
			for _, ev := range o.Events {
				if ev.Func == x.NamedConv {
					named = true
					if ev.Args[0].Tok != x.NameInput {
						v.Failf("the name-taking converter received #%d, want the same-named input #%d", ev.Args[0].Tok, x.NameInput)
					}
				}
				if ev.Func == x.FirstConv {
					typed = true
				}
			}
			if !named {
				v.Failf("the converter taking the name explicitly (f%d) was not executed", x.NamedConv)
			}
			if typed {
				v.Failf("the competing type-only converter f%d was executed although a converter using the name exists", x.FirstConv)
			}
		}
		if v.Fail != "" {
			break
		}
	}
	return v
}

// genC07Multi: shape 4 -- ONE converter with two inputs, a named option q and
// a type-only input of the source type; several supplied named values of the
// source type. The converter is entered through either input; name affinity
// must survive that.
func genC07Multi(g engine.G) *engine.Case {
	names := rapidPerm(g, []string{"a", "b", "cd", "ef"})
	n := names[0]
	perm := rapidPerm(g, []int{0, 1, 2, 3, 4, 5})
	t0, t1, tq := perm[0], perm[1], perm[2]
	sc := &engine.Scenario{}
	x := C07Case{Shape: 4, FirstConv: 1}
	tok := 0
	add := func(l engine.Label) int {
		tok++
		l.Dyn = l.Type
		sc.Inputs = append(sc.Inputs, engine.Input{L: l, Tok: tok})
		return tok
	}
	x.NameInput = add(engine.Label{Name: n, Type: t0})
	for _, o := range names[1:g.Int(2, 3)] {
		add(engine.Label{Name: o, Type: t0})
	}
	add(engine.Label{Name: "q", Type: tq})
	sc.Inputs = rapidPerm(g, sc.Inputs)
	in := []engine.Label{{Name: "q", Type: tq, Dyn: tq}, {Type: t0, Dyn: t0}}
	if g.Bool() {
		in[0], in[1] = in[1], in[0]
	}
	out := engine.Label{Type: t1, Dyn: t1}
	outForm := engine.GenForm(g)
	if g.Pct(30) {
		out.Name = n
		outForm = engine.Pick(g, []string{engine.FormStruct, engine.FormPtr})
	}
	sc.Convs = []engine.FuncSpec{{ID: 1, In: in, InForm: engine.Pick(g, []string{engine.FormStruct, engine.FormPtr}), Out: []engine.Label{out}, OutForm: outForm, HasErr: g.Bool()}}
	sc.Target = engine.FuncSpec{ID: engine.TargetID, In: []engine.Label{{Name: n, Type: t1, Dyn: t1}}, InForm: engine.Pick(g, []string{engine.FormStruct, engine.FormPtr}), OutForm: engine.FormPos}
	if g.Pct(40) {
		// two levels: the converter's output is only an intermediate value; a
		// second two-input converter (own named option q2) makes the
		// parameter out of it. The name preference has to reach the INNER
		// converter's type-only input through both nested searches.
		tm, tq2, t2 := perm[3], perm[4], perm[5]
		sc.Convs[0].Out = []engine.Label{{Type: tm, Dyn: tm}}
		sc.Convs[0].OutForm = engine.GenForm(g)
		in2 := []engine.Label{{Name: "q2", Type: tq2, Dyn: tq2}, {Type: tm, Dyn: tm}}
		if g.Bool() {
			in2[0], in2[1] = in2[1], in2[0]
		}
		sc.Convs = append(sc.Convs, engine.FuncSpec{ID: 2, In: in2, InForm: engine.Pick(g, []string{engine.FormStruct, engine.FormPtr}), Out: []engine.Label{{Type: t2, Dyn: t2}}, OutForm: engine.GenForm(g)})
		sc.Convs = rapidPerm(g, sc.Convs)
		tok++
		sc.Inputs = append(sc.Inputs, engine.Input{L: engine.Label{Name: "q2", Type: tq2, Dyn: tq2}, Tok: tok})
		sc.Inputs = rapidPerm(g, sc.Inputs)
		sc.Target.In = []engine.Label{{Name: n, Type: t2, Dyn: t2}}
		x.Levels = 2
	}
	c := &engine.Case{Sc: sc, Reps: 8}
	c.SetX(&x)
	return c
}

// genC07Shared: shape 5 -- TWO named parameters of the target type, both to be
// made by the same multi-input converter (named option q + type-only source).
// Each parameter must be converted from the supplied value of its own name.
func genC07Shared(g engine.G) *engine.Case {
	names := rapidPerm(g, []string{"a", "b", "cd", "ef"})
	perm := rapidPerm(g, []int{0, 1, 2, 3, 4, 5})
	t0, t1, tq := perm[0], perm[1], perm[2]
	sc := &engine.Scenario{}
	x := C07Case{Shape: 5, FirstConv: 1, ParamInput: map[string]int{}}
	// variant 1: ONE named parameter, and the stale value comes from a
	// type-only parameter of the source type that the target takes itself;
	// variant 2: the shared converter is the second of two hops and its other
	// input is a type-only "context" value (positional form possible)
	x.Variant = g.Int(0, 2)
	np := g.Int(2, 3)
	if x.Variant == 1 {
		np = 1
	}
	for i := 0; i < np; i++ {
		sc.Inputs = append(sc.Inputs, engine.Input{L: engine.Label{Name: names[i], Type: t0, Dyn: t0}, Tok: i + 1})
		x.ParamInput[names[i]] = i + 1
		sc.Target.In = append(sc.Target.In, engine.Label{Name: names[i], Type: t1, Dyn: t1})
	}
	if x.Variant == 1 {
		// competing same-typed values under other names, and the target's own
		// type-only parameter of the source type (any of them will do for it)
		for i := 1; i <= g.Int(1, 2); i++ {
			sc.Inputs = append(sc.Inputs, engine.Input{L: engine.Label{Name: names[i], Type: t0, Dyn: t0}, Tok: i + 1})
		}
		sc.Target.In = append(sc.Target.In, engine.Label{Type: t0, Dyn: t0})
	}
	x.NameInput = 1
	inForm := engine.Pick(g, []string{engine.FormStruct, engine.FormPtr})
	if x.Variant == 2 {
		tm := perm[3]
		sc.Inputs = append(sc.Inputs, engine.Input{L: engine.Label{Type: tq, Dyn: tq}, Tok: 9})
		in := []engine.Label{{Type: tq, Dyn: tq}, {Type: tm, Dyn: tm}}
		if g.Bool() {
			in[0], in[1] = in[1], in[0]
		}
		x.CtxType = tq + 1
		sc.Convs = rapidPerm(g, []engine.FuncSpec{
			{ID: 1, In: []engine.Label{{Type: t0, Dyn: t0}}, InForm: engine.GenForm(g), Out: []engine.Label{{Type: tm, Dyn: tm}}, OutForm: engine.GenForm(g)},
			{ID: 2, In: in, InForm: engine.GenForm(g), Out: []engine.Label{{Type: t1, Dyn: t1}}, OutForm: engine.GenForm(g)}})
	} else {
		sc.Inputs = append(sc.Inputs, engine.Input{L: engine.Label{Name: "q", Type: tq, Dyn: tq}, Tok: 9})
		in := []engine.Label{{Name: "q", Type: tq, Dyn: tq}, {Type: t0, Dyn: t0}}
		if g.Bool() {
			in[0], in[1] = in[1], in[0]
		}
		sc.Convs = []engine.FuncSpec{{ID: 1, In: in, InForm: inForm, Out: []engine.Label{{Type: t1, Dyn: t1}}, OutForm: engine.GenForm(g)}}
	}
	sc.Inputs = rapidPerm(g, sc.Inputs)
	sc.Target.ID, sc.Target.InForm, sc.Target.OutForm = engine.TargetID, engine.Pick(g, []string{engine.FormStruct, engine.FormPtr}), engine.FormPos
	sc.Target.In = rapidPerm(g, sc.Target.In)
	c := &engine.Case{Sc: sc, Reps: 4}
	c.SetX(&x)
	return c
}

// genC07Nested: shape 6 -- a chain source -> mid -> target type whose SECOND
// converter takes the mid value by name next to a named option q. The first
// converter's type-only input must still be fed by the supplied value named
// like the parameter.
func genC07Nested(g engine.G) *engine.Case {
	names := rapidPerm(g, []string{"a", "b", "cd", "ef"})
	n := names[0]
	perm := rapidPerm(g, []int{0, 1, 2, 3, 4, 5})
	t0, tm, t1, tq := perm[0], perm[1], perm[2], perm[3]
	sc := &engine.Scenario{}
	x := C07Case{Shape: 6, FirstConv: 1, NameInput: 1, ParamInput: map[string]int{n: 1}}
	sc.Inputs = append(sc.Inputs, engine.Input{L: engine.Label{Name: n, Type: t0, Dyn: t0}, Tok: 1})
	for i, o := range names[1:g.Int(2, 3)] {
		sc.Inputs = append(sc.Inputs, engine.Input{L: engine.Label{Name: o, Type: t0, Dyn: t0}, Tok: i + 2})
	}
	sc.Inputs = append(sc.Inputs, engine.Input{L: engine.Label{Name: "q", Type: tq, Dyn: tq}, Tok: 9})
	sc.Inputs = rapidPerm(g, sc.Inputs)
	conv1 := engine.FuncSpec{ID: 1, In: []engine.Label{{Type: t0, Dyn: t0}}, InForm: engine.GenForm(g), Out: []engine.Label{{Type: tm, Dyn: tm}}, OutForm: engine.GenForm(g)}
	in2 := []engine.Label{{Name: "q", Type: tq, Dyn: tq}, {Name: "x", Type: tm, Dyn: tm}}
	if g.Bool() {
		in2[0], in2[1] = in2[1], in2[0]
	}
	conv2 := engine.FuncSpec{ID: 2, In: in2, InForm: engine.Pick(g, []string{engine.FormStruct, engine.FormPtr}), Out: []engine.Label{{Type: t1, Dyn: t1}}, OutForm: engine.GenForm(g)}
	convs := []engine.FuncSpec{conv1, conv2}
	if g.Pct(40) {
		// variant 1, one level more: the second converter's result is an
		// intermediate value too, taken BY NAME (next to another named
		// option) by a third converter: two named inputs lie between the
		// parameter and the type-only input that its name should decide
		x.Variant = 1
		tb, tq2 := perm[4], perm[5]
		convs[1].Out = []engine.Label{{Type: tb, Dyn: tb}}
		in3 := []engine.Label{{Name: "q2", Type: tq2, Dyn: tq2}, {Name: "y", Type: tb, Dyn: tb}}
		if g.Bool() {
			in3[0], in3[1] = in3[1], in3[0]
		}
		convs = append(convs, engine.FuncSpec{ID: 3, In: in3, InForm: engine.Pick(g, []string{engine.FormStruct, engine.FormPtr}), Out: []engine.Label{{Type: t1, Dyn: t1}}, OutForm: engine.GenForm(g)})
		sc.Inputs = append(sc.Inputs, engine.Input{L: engine.Label{Name: "q2", Type: tq2, Dyn: tq2}, Tok: 10})
		sc.Inputs = rapidPerm(g, sc.Inputs)
	}
	if x.Variant == 0 && g.Pct(30) {
		// variant 2: a source value named like the second converter's NAMED
		// input ("x") is supplied as well. The parameter being produced right
		// there is x: its own name outranks the name inherited from further
		// out, so the value named x is the one converted.
		x.Variant = 2
		sc.Inputs = append(sc.Inputs, engine.Input{L: engine.Label{Name: "x", Type: t0, Dyn: t0}, Tok: 5})
		sc.Inputs = rapidPerm(g, sc.Inputs)
		x.ParamInput[n] = 5
	}
	sc.Convs = rapidPerm(g, convs)
	sc.Target = engine.FuncSpec{ID: engine.TargetID, In: []engine.Label{{Name: n, Type: t1, Dyn: t1}}, InForm: engine.Pick(g, []string{engine.FormStruct, engine.FormPtr}), OutForm: engine.FormPos}
	c := &engine.Case{Sc: sc, Reps: 6}
	c.SetX(&x)
	return c
}

// genC07Side: shape 4, variant 1 -- the parameter n is made by a converter
// with THREE inputs: a named option z, a named input x that has to be
// converted itself (from the source type, by a single-input converter), and a
// type-only input that a two-input converter (option z again + type-only
// source) makes. Supplied: z, and source values named n and x (and others).
// Whichever of its inputs the outer converter resolves first, the type-only
// one is produced for the parameter n -- not for the sibling input x.
func genC07Side(g engine.G) *engine.Case {
	names := rapidPerm(g, []string{"a", "b", "cd", "ef"})
	n, xn := names[0], names[1]
	perm := rapidPerm(g, []int{0, 1, 2, 3, 4, 5})
	tSrc, tKey, tMid, tSide, tDst := perm[0], perm[1], perm[2], perm[3], perm[4]
	sc := &engine.Scenario{}
	x := C07Case{Shape: 4, Variant: 1, FirstConv: 3, NameInput: 1}
	sc.Inputs = []engine.Input{
		{L: engine.Label{Name: n, Type: tSrc, Dyn: tSrc}, Tok: 1},
		{L: engine.Label{Name: xn, Type: tSrc, Dyn: tSrc}, Tok: 2},
		{L: engine.Label{Name: "q", Type: tKey, Dyn: tKey}, Tok: 9},
	}
	if g.Bool() {
		sc.Inputs = append(sc.Inputs, engine.Input{L: engine.Label{Name: names[2], Type: tSrc, Dyn: tSrc}, Tok: 3})
	}
	sc.Inputs = rapidPerm(g, sc.Inputs)
	sf := func() string { return engine.Pick(g, []string{engine.FormStruct, engine.FormPtr}) }
	conv1 := engine.FuncSpec{ID: 1, In: rapidPerm(g, []engine.Label{{Name: "q", Type: tKey, Dyn: tKey}, {Name: xn, Type: tMid, Dyn: tMid}, {Type: tSide, Dyn: tSide}}), InForm: sf(),
		Out: []engine.Label{{Type: tDst, Dyn: tDst}}, OutForm: engine.GenForm(g)}
	convX := engine.FuncSpec{ID: 2, In: []engine.Label{{Type: tSrc, Dyn: tSrc}}, InForm: engine.GenForm(g), Out: []engine.Label{{Type: tMid, Dyn: tMid}}, OutForm: engine.GenForm(g)}
	convSide := engine.FuncSpec{ID: 3, In: rapidPerm(g, []engine.Label{{Name: "q", Type: tKey, Dyn: tKey}, {Type: tSrc, Dyn: tSrc}}), InForm: sf(),
		Out: []engine.Label{{Type: tSide, Dyn: tSide}}, OutForm: engine.GenForm(g)}
	sc.Convs = rapidPerm(g, []engine.FuncSpec{conv1, convX, convSide})
	sc.Target = engine.FuncSpec{ID: engine.TargetID, In: []engine.Label{{Name: n, Type: tDst, Dyn: tDst}}, InForm: sf(), OutForm: engine.FormPos}
	c := &engine.Case{Sc: sc, Reps: 8}
	c.SetX(&x)
	return c
}

// genC07Ranks: shape 7 -- several names are being produced at once, and the
// nearest one decides.
//
// Variant 0: target(n0 T) <- convT(n0 S named, n1 Y named) <- convY(S
// type-only, m M named) -> n1 Y, supplied n0:S, n1:S, m:M. convY's type-only
// S is reached by a nested search while BOTH n0 (the target's parameter) and
// n1 (convT's parameter) are being produced: n1 is the nearer one, the S
// named n1 is the one converted.
//
// Variant 1: target(n0 T) <- convT(S type-only [supplied], U type-only), and U
// can be made by a converter that takes n0 EXPLICITLY (from S2) or by one that
// takes another name explicitly: while n0 is being produced the converter that
// uses that name is the one executed (the second clause, one level down).
func genC07Ranks(g engine.G) *engine.Case {
	names := rapidPerm(g, []string{"a", "b", "cd", "ef"})
	n0, n1 := names[0], names[1]
	perm := rapidPerm(g, []int{0, 1, 2, 3, 4, 5})
	sf := func() string { return engine.Pick(g, []string{engine.FormStruct, engine.FormPtr}) }
	sc := &engine.Scenario{}
	// (variant 1 is not generated: it goes beyond the letter of C07 -- the
	// competitor there takes ANOTHER name explicitly and what is produced is a
	// type-only input, not the parameter; audit/round7 finding 3)
	x := C07Case{Shape: 7, Variant: 0}
	if g.Pct(40) {
		// Variant 2: target(n0 T) <- convT(S type-only [supplied], n1 Y named)
		// <- convY(S, W) -> n1 Y, supplied n0:W, n1:W, S. The converter that
		// makes n1 lies ON the cheapest path to n0 (the discount for n0's own
		// name makes the route through the W named n0 cheaper than anything
		// else), so its W is chosen for n0, not for n1: OPEN KNOWN FINDING
		// KF-C07-3.
		x.Variant = 2
		tS, tY, tW, tT := perm[0], perm[1], perm[2], perm[3]
		sc.Inputs = rapidPerm(g, []engine.Input{
			{L: engine.Label{Name: n0, Type: tW, Dyn: tW}, Tok: 1},
			{L: engine.Label{Name: n1, Type: tW, Dyn: tW}, Tok: 2},
			{L: engine.Label{Type: tS, Dyn: tS}, Tok: 9}})
		convT := engine.FuncSpec{ID: 1, In: rapidPerm(g, []engine.Label{{Type: tS, Dyn: tS}, {Name: n1, Type: tY, Dyn: tY}}), InForm: sf(), Out: []engine.Label{{Type: tT, Dyn: tT}}, OutForm: engine.GenForm(g)}
		convY := engine.FuncSpec{ID: 2, In: rapidPerm(g, []engine.Label{{Type: tS, Dyn: tS}, {Type: tW, Dyn: tW}}), InForm: engine.GenForm(g), Out: []engine.Label{{Name: n1, Type: tY, Dyn: tY}}, OutForm: sf()}
		sc.Convs = rapidPerm(g, []engine.FuncSpec{convT, convY})
		sc.Target = engine.FuncSpec{ID: engine.TargetID, In: []engine.Label{{Name: n0, Type: tT, Dyn: tT}}, InForm: sf(), OutForm: engine.FormPos}
		x.FirstConv, x.NameInput, x.CtxType = 2, 2, tS+1
		c := &engine.Case{Sc: sc, Reps: 4}
		c.SetX(&x)
		return c
	}
	if x.Variant == 0 {
		tS, tY, tM, tT := perm[0], perm[1], perm[2], perm[3]
		sc.Inputs = rapidPerm(g, []engine.Input{
			{L: engine.Label{Name: n0, Type: tS, Dyn: tS}, Tok: 1},
			{L: engine.Label{Name: n1, Type: tS, Dyn: tS}, Tok: 2},
			{L: engine.Label{Name: "q", Type: tM, Dyn: tM}, Tok: 9}})
		convT := engine.FuncSpec{ID: 1, In: rapidPerm(g, []engine.Label{{Name: n0, Type: tS, Dyn: tS}, {Name: n1, Type: tY, Dyn: tY}}), InForm: sf(), Out: []engine.Label{{Type: tT, Dyn: tT}}, OutForm: engine.GenForm(g)}
		convY := engine.FuncSpec{ID: 2, In: rapidPerm(g, []engine.Label{{Type: tS, Dyn: tS}, {Name: "q", Type: tM, Dyn: tM}}), InForm: sf(), Out: []engine.Label{{Name: n1, Type: tY, Dyn: tY}}, OutForm: sf()}
		sc.Convs = rapidPerm(g, []engine.FuncSpec{convT, convY})
		sc.Target = engine.FuncSpec{ID: engine.TargetID, In: []engine.Label{{Name: n0, Type: tT, Dyn: tT}}, InForm: sf(), OutForm: engine.FormPos}
		x.FirstConv, x.NameInput = 2, 2
	} else {
		tS, tU, tS2, tT := perm[0], perm[1], perm[2], perm[3]
		sc.Inputs = rapidPerm(g, []engine.Input{
			{L: engine.Label{Type: tS, Dyn: tS}, Tok: 9},
			{L: engine.Label{Name: n0, Type: tS2, Dyn: tS2}, Tok: 1},
			{L: engine.Label{Name: n1, Type: tS2, Dyn: tS2}, Tok: 2}})
		convT := engine.FuncSpec{ID: 1, In: rapidPerm(g, []engine.Label{{Type: tS, Dyn: tS}, {Type: tU, Dyn: tU}}), InForm: engine.GenForm(g), Out: []engine.Label{{Type: tT, Dyn: tT}}, OutForm: engine.GenForm(g)}
		convA := engine.FuncSpec{ID: 2, In: []engine.Label{{Name: n0, Type: tS2, Dyn: tS2}}, InForm: sf(), Out: []engine.Label{{Type: tU, Dyn: tU}}, OutForm: engine.GenForm(g)}
		convB := engine.FuncSpec{ID: 3, In: []engine.Label{{Name: n1, Type: tS2, Dyn: tS2}}, InForm: sf(), Out: []engine.Label{{Type: tU, Dyn: tU}}, OutForm: engine.GenForm(g)}
		sc.Convs = rapidPerm(g, []engine.FuncSpec{convT, convA, convB})
		sc.Target = engine.FuncSpec{ID: engine.TargetID, In: []engine.Label{{Name: n0, Type: tT, Dyn: tT}}, InForm: sf(), OutForm: engine.FormPos}
		x.NamedConv, x.FirstConv, x.NameInput = 2, 3, 1
	}
	c := &engine.Case{Sc: sc, Reps: 8}
	c.SetX(&x)
	return c
}

func genC07(g engine.G) *engine.Case {
	switch k := g.Int(0, 99); {
	case k < 3:
		return genC07Ranks(g)
	case k < 5:
		return genC07Side(g)
	case k < 12:
		return genC07Multi(g)
	case k < 21:
		return genC07Shared(g)
	case k < 30:
		return genC07Nested(g)
	}
	names := []string{"a", "b", "cd", "ef"}
	n := engine.Pick(g, names)
	types := []int{0, 1, 2, 3, 4, 5}
	// chain of distinct types t[0] -> ... -> t[k]
	k := g.Int(1, 3)
	var chain []int
	for len(chain) < k+1 {
		t := engine.Pick(g, types)
		dup := false
		for _, c := range chain {
			dup = dup || c == t
		}
		if !dup {
			chain = append(chain, t)
		}
	}
	t0, t1 := chain[0], chain[k]
	sc := &engine.Scenario{}
	x := C07Case{Shape: g.Int(1, 3)}
	tok := 0
	add := func(l engine.Label) int {
		tok++
		l.Dyn = l.Type
		sc.Inputs = append(sc.Inputs, engine.Input{L: l, Tok: tok})
		return tok
	}
	// the same-named value may carry a subtype: a parameter / converter input
	// named n without subtype still takes it, and name affinity still decides
	nameSub := ""
	if g.Pct(30) {
		nameSub = engine.Pick(g, engine.AllSubs)
	}
	x.NameInput = add(engine.Label{Name: n, Type: t0, Sub: nameSub})
	var extraParams []string
	if x.Shape == 3 {
		// 1-2 further named parameters of the same target type, each with a
		// same-named input of the source type
		x.ParamInput = map[string]int{n: x.NameInput}
		for _, o := range rapidPerm(g, names) {
			if o != n && len(extraParams) < g.Int(1, 2) {
				extraParams = append(extraParams, o)
				x.ParamInput[o] = add(engine.Label{Name: o, Type: t0})
			}
		}
	}
	for i, m := 0, g.Int(1, 3); i < m; i++ {
		o := engine.Pick(g, names)
		if _, taken := x.ParamInput[o]; o != n && !taken {
			l := engine.Label{Name: o, Type: t0}
			if g.Pct(25) {
				l.Sub = engine.Pick(g, engine.AllSubs)
			}
			add(l)
		}
	}
	if g.Pct(40) {
		add(engine.Label{Type: t0})
	}
	sc.Inputs = rapidPerm(g, sc.Inputs)
	id := 0
	typedForm := func() string { return engine.Pick(g, []string{engine.FormPos, engine.FormStruct, engine.FormPtr}) }
	var convs []engine.FuncSpec
	for i := 0; i < k; i++ {
		id++
		fs := engine.FuncSpec{ID: id, In: []engine.Label{{Type: chain[i], Dyn: chain[i]}}, InForm: typedForm(),
			Out: []engine.Label{{Type: chain[i+1], Dyn: chain[i+1]}}, OutForm: typedForm(), HasErr: g.Bool()}
		if i == 0 {
			x.FirstConv = id
		}
		convs = append(convs, fs)
	}
	if x.Shape == 3 && g.Pct(35) {
		// the LAST converter of the chain returns one NAMED result per
		// parameter (a result struct): it is executed once per parameter, and
		// every parameter must get the result of the execution that converted
		// the supplied value of ITS name -- not what another execution left
		// under the same label
		last := &convs[len(convs)-1]
		last.Out = nil
		for _, o := range rapidPerm(g, append([]string{n}, extraParams...)) {
			last.Out = append(last.Out, engine.Label{Name: o, Type: t1, Dyn: t1})
		}
		last.OutForm = engine.Pick(g, []string{engine.FormStruct, engine.FormPtr})
		x.MultiOut = true
	}
	if x.Shape == 2 {
		id++
		out := engine.Label{Type: chain[1], Dyn: chain[1]}
		if k == 1 && g.Bool() {
			out.Name = n // named output n:T1
		}
		fs := engine.FuncSpec{ID: id, In: []engine.Label{{Name: n, Type: t0, Dyn: t0}}, InForm: engine.Pick(g, []string{engine.FormStruct, engine.FormPtr}),
			Out: []engine.Label{out}, OutForm: engine.FormStruct, HasErr: g.Bool()}
		if !out.Named() {
			fs.OutForm = typedForm()
		}
		x.NamedConv = id
		convs = append(convs, fs)
	}
	if x.Shape != 2 && g.Pct(40) {
		// a bystander: a converter that takes the NAME explicitly (without
		// subtype) but produces a type nobody needs. It is never executed;
		// its mere presence puts the requirement n:T0 into the graph.
		for _, t := range rapidPerm(g, types) {
			used := false
			for _, c := range chain {
				used = used || c == t
			}
			if !used {
				id++
				convs = append(convs, engine.FuncSpec{ID: id, In: []engine.Label{{Name: n, Type: t0, Dyn: t0}}, InForm: engine.Pick(g, []string{engine.FormStruct, engine.FormPtr}),
					Out: []engine.Label{{Type: t, Dyn: t}}, OutForm: typedForm(), HasErr: g.Bool()})
				x.Bystander = id
				break
			}
		}
	}
	var producerExtra *engine.Label
	if x.Shape != 2 && g.Pct(35) {
		// a PRODUCER of the same label the caller supplies (n:T0): a converter
		// that could make another value named n of the source type out of
		// something else. The supplied value is there, nothing has to be
		// produced -- and whatever that converter returns, the value the caller
		// supplied under the parameter's name is the one to convert.
		var z, w2 int = -1, -1
		for _, t := range rapidPerm(g, types) {
			used := false
			for _, c := range chain {
				used = used || c == t
			}
			if !used && z < 0 {
				z = t
			} else if !used && w2 < 0 {
				w2 = t
			}
		}
		if z >= 0 {
			id++
			p := engine.FuncSpec{ID: id, InForm: engine.Pick(g, []string{engine.FormStruct, engine.FormPtr}), OutForm: engine.Pick(g, []string{engine.FormStruct, engine.FormPtr}),
				Out: []engine.Label{{Name: n, Type: t0, Sub: nameSub, Dyn: t0}}, HasErr: g.Bool()}
			if nameSub == "" && g.Bool() {
				// it takes the parameter's name too, under another type
				// (supplied with a subtype label): a free detour thanks to
				// the same-name discount
				p.In = []engine.Label{{Name: n, Type: z, Dyn: z}}
				add(engine.Label{Name: n, Type: z, Sub: engine.Pick(g, engine.AllSubs)})
			} else {
				p.In = []engine.Label{{Type: z, Dyn: z}}
				p.InForm = typedForm()
				add(engine.Label{Type: z})
			}
			if w2 >= 0 && g.Bool() {
				// ... and it is NEEDED for a second result the target asks for
				extra := engine.Label{Name: "zz", Type: w2, Dyn: w2}
				p.Out = append(p.Out, extra)
				producerExtra = &extra
			}
			if g.Pct(30) {
				// the producer is not supplied but EMITTED by a converter
				// generator (for the value it takes as input)
				pc := p
				sc.Gens = append(sc.Gens, engine.GenSpec{ID: 9, From: z, Mode: "emit", Emit: &pc})
				x.Generated = true
			} else {
				convs = append(convs, p)
			}
			x.Producer = id
		}
	}
	sc.Convs = rapidPerm(g, convs)
	sc.Target = engine.FuncSpec{ID: engine.TargetID, In: []engine.Label{{Name: n, Type: t1, Dyn: t1}}, InForm: engine.Pick(g, []string{engine.FormStruct, engine.FormPtr}), OutForm: engine.FormPos}
	for _, o := range extraParams {
		sc.Target.In = append(sc.Target.In, engine.Label{Name: o, Type: t1, Dyn: t1})
	}
	if producerExtra != nil {
		sc.Target.In = append(sc.Target.In, *producerExtra)
	}
	sc.Target.In = rapidPerm(g, sc.Target.In)
	c := &engine.Case{Sc: sc, Reps: 5}
	c.SetX(&x)
	return c
}

func rapidPerm[E any](g engine.G, xs []E) []E {
	if len(xs) < 2 {
		return xs
	}
	out := append([]E(nil), xs...)
	for i := len(out) - 1; i > 0; i-- {
		j := g.Int(0, i)
		out[i], out[j] = out[j], out[i]
	}
	return out
}

func TestC07(t *testing.T) { runProp(t, "C07", genC07) }

// ---------------------------------------------------------------------------

// evalC10: Convert(T, args) agrees with calling an identity function func(T) T.
func evalC10(c *engine.Case) engine.Verdict {
	if c.Note == "exotic" {
		return evalC10X(c)
	}
	var v engine.Verdict
	sc := c.Sc
	engine.ScenarioClasses(&v, sc)
	typ := sc.Target.In[0].Type
	if engine.IsIface(typ) {
		v.Class("target-interface")
	} else {
		v.Class("target-concrete")
	}
	am := engine.Analyze(sc, engine.RMinus)
	ap := engine.Analyze(sc, engine.RPlus)
	well := engine.SingleInput(sc) || (!engine.DepCyclic(sc, engine.RPlus) && engine.AllConvsSatisfiable(sc, engine.RMinus))
	class := "gap-or-ill-behaved"
	switch {
	case am.Derivable && well:
		class = "derivable-well-behaved"
	case !ap.Derivable:
		class = "underivable"
	}
	v.Class(class)
	failing := hasFailing(sc)
	reps := c.Reps
	if reps <= 0 {
		reps = 1
	}
	convRan := false
	param := engine.Label{Type: typ, Dyn: typ}
	for rep := 0; rep < reps && v.Fail == ""; rep++ {
		// twin worlds from the same spec
		w1, w2 := engine.NewWorld(), engine.NewWorld()
		_, args1, err := w1.Setup(sc)
		if err != nil {
			v.Class("setup-error")
			return v
		}
		idf, args2, err := w2.Setup(sc)
		if err != nil {
			v.Class("setup-error")
			return v
		}
		oc := w1.Convert(typ, args1)
		oi := w2.Call(idf, args2)
		if oc.Panic != "" || oi.Panic != "" {
			if class != "gap-or-ill-behaved" {
				v.Failf("panic: convert=%q identity-call=%q", oc.Panic, oi.Panic)
			}
			v.Class("panic")
			return v
		}
		if engine.ConvExecs(oc.Events) > 0 {
			convRan = true
		}
		// per-side checks
		if oc.Err != nil {
			if len(oc.OutsRaw) != 1 || oc.OutsRaw[0] != nil {
				v.Failf("Convert returned an error together with a non-nil value")
			}
		} else {
			if len(oc.Outs) != 1 || !oc.Outs[0].Valid {
				v.Failf("Convert returned neither a value nor an error")
			} else if msg := engine.CheckBinding(w1, -1, engine.ArgObs{L: param, Obs: oc.Outs[0]}); msg != "" {
				v.Failf("Convert result is not a correct binding for %s: %s", param, msg)
			}
		}
		if msg := engine.CheckBindings(w1, oc.Events); msg != "" {
			v.Failf("Convert: %s", msg)
		}
		if oi.Err == nil {
			// what the identity function was injected with
			var inj *engine.ArgObs
			for i := range oi.Events {
				if oi.Events[i].Func == engine.TargetID {
					inj = &oi.Events[i].Args[0]
				}
			}
			if inj == nil || len(oi.Outs) != 1 || oi.Outs[0].Tok != inj.Tok {
				v.Failf("identity call: result does not carry the injected value")
			}
		}
		// equivalence
		switch class {
		case "derivable-well-behaved":
			if !failing && (oc.Err != nil || oi.Err != nil) {
				v.Failf("derivable on a well-behaved converter set: Convert err=%.80q, identity call err=%.80q", oc.ErrS, oi.ErrS)
			}
		case "underivable":
			if oc.Err == nil || oi.Err == nil {
				v.Failf("target type underivable: Convert err=%v, identity call err=%v (both must fail)", oc.Err != nil, oi.Err != nil)
			}
		}
		if class != "gap-or-ill-behaved" && !failing && (oc.Err == nil) != (oi.Err == nil) {
			v.Failf("Convert succeeded=%v but identity call succeeded=%v", oc.Err == nil, oi.Err == nil)
		}
	}
	nImpl := 0
	if engine.IsIface(typ) {
		for _, s := range engine.AllSourceLabels(sc) {
			if engine.RPlus(param, s) {
				nImpl++
			}
		}
		if nImpl >= 2 {
			v.Class("interface-with-2+-candidates")
		}
	}
	v.NonTrivial = convRan || nImpl >= 2
	return v
}

func genC10(g engine.G) *engine.Case {
	o := engine.DefaultFuncOpts()
	o.AllowOnce = true
	o.FailP = 5
	pal := engine.GenPalette(g, true, true)
	if g.Pct(30) {
		// force an interface target type
		it := engine.TypeI0 + g.Int(0, 1)
		pal.Types = append(pal.Types, it, engine.Pick(g, engine.Implementers(it)))
	}
	typ := engine.Pick(g, pal.Types)
	if g.Pct(30) {
		for _, t := range pal.Types {
			if engine.IsIface(t) {
				typ = t
			}
		}
	}
	b := engine.NewBuilder(g, pal, o)
	l := engine.Label{Type: typ, Dyn: typ}
	b.Sc.Target = engine.FuncSpec{ID: engine.TargetID, In: []engine.Label{l}, InForm: engine.FormPos, Out: []engine.Label{l}, OutForm: engine.FormPos, Identity: true}
	switch g.Int(0, 3) {
	case 0:
		b.Distract(3, 4)
	default:
		b.Produce(l, g.Int(0, 3), g.Int(1, 2))
		if g.Pct(40) {
			b.AddReverse(40)
		}
		if g.Pct(50) {
			b.Distract(2, 2)
		}
		if g.Pct(20) && len(b.Sc.Inputs) > 0 {
			// cut a link
			i := g.Int(0, len(b.Sc.Inputs)-1)
			b.Sc.Inputs = append(b.Sc.Inputs[:i:i], b.Sc.Inputs[i+1:]...)
		}
	}
	b.ShuffleInputs()
	return &engine.Case{Sc: b.Sc, Reps: 3}
}

func TestC10(t *testing.T) { runProp(t, "C10", genC10all) }

// genC10all: 75% token-universe scenarios, 25% exotic target types.
func genC10all(g engine.G) *engine.Case {
	if g.Pct(25) {
		c := genC10X(g)
		c.Note = "exotic"
		return c
	}
	return genC10(g)
}

// ---------------------------------------------------------------------------
// C10, exotic target types: a pure differential between Convert and a call of
// an identity function, for type shapes outside the token universe (defined
// vs. unnamed types with the same underlying type, error, marker structs,
// pointers, interface{}).

type exInts []int
type exMap map[string]int
type exFn func() int
type exStr string
type exMarker struct {
	argmapper.Struct
	A int
	B string `argmapper:",typeOnly"`
}

// C10XCase selects a target type, the supplied values and converters by index.
type C10XCase struct {
	Target int   `json:"target"`
	Inputs []int `json:"inputs"`
	Convs  []int `json:"convs"`
}

// Two DISTINCT types that print the same ("props.twinID"): function-local type
// declarations with the same name.
func twinTypeA() (reflect.Type, interface{}) {
	type twinID int
	return reflect.TypeOf(twinID(0)), twinID(11)
}

func twinTypeB() (reflect.Type, interface{}) {
	type twinID int
	return reflect.TypeOf(twinID(0)), twinID(22)
}

var exTypes = func() []reflect.Type {
	ts := exTypesBase
	a, _ := twinTypeA()
	b, _ := twinTypeB()
	return append(append([]reflect.Type(nil), ts...), a, b)
}()

var exTypesBase = []reflect.Type{
	reflect.TypeOf([]int(nil)), reflect.TypeOf(exInts(nil)), reflect.TypeOf(map[string]int(nil)), reflect.TypeOf(exMap(nil)),
	reflect.TypeOf((func() int)(nil)), reflect.TypeOf(exFn(nil)), reflect.TypeOf(""), reflect.TypeOf(exStr("")),
	reflect.TypeOf((*error)(nil)).Elem(), reflect.TypeOf((*MyErr)(nil)), reflect.TypeOf(exMarker{}), reflect.TypeOf(&exMarker{}),
	reflect.TypeOf((*interface{})(nil)).Elem(), reflect.TypeOf(0), reflect.TypeOf((*fmt.Stringer)(nil)).Elem(),
}

func exValues() []interface{} {
	return []interface{}{
		[]int{1, 2}, exInts{3}, map[string]int{"a": 1}, exMap{"b": 2}, func() int { return 7 }, exFn(func() int { return 8 }),
		"str", exStr("xs"), error(&MyErr{N: 5}), &MyErr{N: 6}, exMarker{A: 1, B: "b"}, &exMarker{A: 2}, 42, 3.5,
		func() interface{} { _, v := twinTypeA(); return v }(), func() interface{} { _, v := twinTypeB(); return v }(),
		// nil but TYPED values: valid (empty) values of their exact types
		[]int(nil), map[string]int(nil), exFn(nil), exInts(nil),
	}
}

var exConvs = []interface{}{
	func(s string) int { return len(s) },
	func(i int) string { return fmt.Sprint(i) },
	func(i int) []int { return []int{i} },
	func(x exInts) []int { return []int(x) },
	func(s string) (exStr, error) { return exStr(s), nil },
	func(i int) error { return &MyErr{N: i} },
	func(s exStr) map[string]int { return map[string]int{string(s): 1} },
}

func init() { evaluators["C10X"] = evalC10X }

func evalC10X(c *engine.Case) engine.Verdict {
	var v engine.Verdict
	var x C10XCase
	if err := c.GetX(&x); err != nil {
		v.Failf("bad case: %v", err)
		return v
	}
	typ := exTypes[x.Target%len(exTypes)]
	vals := exValues()
	build := func() []argmapper.Arg {
		var args []argmapper.Arg
		for _, i := range x.Inputs {
			args = append(args, argmapper.Typed(vals[i%len(vals)]))
		}
		for _, i := range x.Convs {
			args = append(args, argmapper.Converter(exConvs[i%len(exConvs)]))
		}
		return append(args, engine.Quiet())
	}
	v.Class("exotic-target:" + typ.String())
	reps := c.Reps
	if reps <= 0 {
		reps = 1
	}
	for rep := 0; rep < reps && v.Fail == ""; rep++ {
		var cv, iv interface{}
		var cerr, ierr error
		var o engine.Outcome
		engine.Protect(&o, func() { cv, cerr = argmapper.Convert(typ, build()...) })
		if o.Panic != "" {
			v.Class("panic")
			return v
		}
		ft := reflect.FuncOf([]reflect.Type{typ}, []reflect.Type{typ}, false)
		idf, err := argmapper.NewFunc(reflect.MakeFunc(ft, func(a []reflect.Value) []reflect.Value { return a }).Interface())
		if err != nil {
			v.Class("identity-func-rejected")
			return v
		}
		engine.Protect(&o, func() {
			res := idf.Call(build()...)
			ierr = res.Err()
			if ierr == nil && res.Len() == 1 {
				iv = res.Out(0)
			} else if ierr == nil {
				ierr = fmt.Errorf("identity call returned %d values", res.Len())
			}
		})
		if o.Panic != "" {
			v.Class("panic")
			return v
		}
		// C03/C10: a supplied value of EXACTLY the target type (a nil slice,
		// map or func of that type included) is a direct match: both succeed.
		// (Not for error: a value of dynamic type *MyErr is not of type error;
		// not for marker structs: their fields are the parameters.)
		exact := false
		for _, i := range x.Inputs {
			if reflect.TypeOf(vals[i%len(vals)]) == typ && typ.Kind() != reflect.Interface && typ != reflect.TypeOf(exMarker{}) && typ != reflect.TypeOf(&exMarker{}) {
				exact = true
			}
		}
		if exact && rep == 0 {
			v.Class("exact-typed-input")
		}
		if exact && (cerr != nil || ierr != nil) {
			v.Failf("a value of exactly the target type %v was supplied, but Convert err=%.80v, identity call err=%.80v", typ, cerr, ierr)
			return v
		}
		if (cerr == nil) != (ierr == nil) {
			v.Failf("Convert(%v) succeeded=%v (err %.80v) but calling func(%v) %v succeeded=%v (err %.80v)", typ, cerr == nil, cerr, typ, typ, ierr == nil, ierr)
			return v
		}
		if cerr != nil {
			if cv != nil {
				v.Failf("Convert(%v) returned an error together with the non-nil value %#v", typ, cv)
			}
			if rep == 0 {
				v.Class("both-fail")
			}
			continue
		}
		if rep == 0 {
			v.Class("both-succeed")
		}
		if cv == nil || !reflect.TypeOf(cv).AssignableTo(typ) {
			v.Failf("Convert(%v) returned %#v, which is not assignable to the target type", typ, cv)
			return v
		}
		// the scenarios are small enough to be route-deterministic unless two
		// inputs/converters produce the same type: compare values when the
		// candidates are unique (functions cannot be compared)
		if reflect.TypeOf(cv).Kind() != reflect.Func && len(x.Inputs)+len(x.Convs) <= 1 && !reflect.DeepEqual(cv, iv) {
			v.Failf("Convert(%v) returned %#v, the identity call was injected with %#v", typ, cv, iv)
		}
	}
	v.NonTrivial = len(x.Inputs)+len(x.Convs) > 0
	return v
}

func genC10X(g engine.G) *engine.Case {
	var x C10XCase
	x.Target = g.Int(0, len(exTypes)-1)
	for i, n := 0, g.Int(0, 3); i < n; i++ {
		x.Inputs = append(x.Inputs, g.Int(0, 19))
	}
	if g.Pct(60) && len(x.Inputs) > 0 {
		// bias: an input "near" the target type (same index or its neighbour)
		x.Inputs[0] = x.Target/2*2 + g.Int(0, 1)
		if x.Target >= 15 { // the twin types: values 14, 15
			x.Inputs[0] = 14 + g.Int(0, 1)
		}
	}
	for i, n := 0, g.Int(0, 2); i < n; i++ {
		x.Convs = append(x.Convs, g.Int(0, len(exConvs)-1))
	}
	c := &engine.Case{Reps: 2}
	c.SetX(&x)
	return c
}
