package props

import (
	"reflect"
	"testing"

	"github.com/hashicorp/go-argmapper"
	"github.com/hashicorp/go-argmapper/verifharness/engine"
)

func init() { evaluators["C06"] = evalC06 }

// scenarioShape classifies the structural features C06's non-triviality rule
// talks about.
func scenarioShape(v *engine.Verdict, sc *engine.Scenario) (nontrivial bool) {
	multiCyc := !engine.SingleInput(sc) && engine.DepCyclic(sc, engine.RPlus)
	if multiCyc {
		v.Class("cyclic-multi-input")
		nontrivial = true
	} else if engine.DepCyclic(sc, engine.RPlus) {
		v.Class("cyclic-single-input")
	}
	posRepeat := false
	subNextNamed := false
	fs := append([]engine.FuncSpec{sc.Target}, sc.Convs...)
	for i := range fs {
		f := &fs[i]
		for _, side := range []struct {
			form string
			ls   []engine.Label
		}{{f.InForm, f.In}, {f.OutForm, f.Out}} {
			seen := map[int]bool{}
			for _, l := range side.ls {
				if side.form == engine.FormPos {
					if seen[l.Type] {
						posRepeat = true
					}
					seen[l.Type] = true
				}
			}
		}
		for _, a := range f.In {
			for _, b := range f.In {
				if !a.Named() && a.Sub != "" && b.Named() && a.Type == b.Type {
					subNextNamed = true
				}
			}
		}
	}
	if posRepeat {
		v.Class("repeated-positional-type")
		nontrivial = true
	}
	if subNextNamed {
		v.Class("typed-subtype-next-to-named")
		nontrivial = true
	}
	if len(sc.Malformed) > 0 {
		v.Class("malformed-option")
		nontrivial = true
	}
	if len(sc.Gens) > 0 {
		nontrivial = true
		for _, g := range sc.Gens {
			v.Class("gen-" + g.Mode)
		}
	}
	return nontrivial
}

// evalC06: the operation returns normally -- no panic, no runaway. (Fatal
// crashes and hangs are caught by the driver through the journal/watchdog.)
func evalC06(c *engine.Case) engine.Verdict {
	if c.Note == "exotic" {
		return evalC06X(c)
	}
	var v engine.Verdict
	sc := c.Sc
	engine.ScenarioClasses(&v, sc)
	v.NonTrivial = scenarioShape(&v, sc)
	reps := c.Reps
	if reps <= 0 {
		reps = 1
	}
	entry := c.Entry
	if entry == "" {
		entry = "call"
	}
	v.Class("entry-" + entry)
	hasNilArg := false
	for _, m := range sc.Malformed {
		if m.Kind == "nilarg" {
			hasNilArg = true
		}
	}
	for rep := 0; rep < reps && v.Fail == ""; rep++ {
		w := engine.NewWorld()
		target, args, err := w.Setup(sc)
		if err != nil {
			// NewFunc refused a well-formed generated function
			v.Failf("construction of a well-formed function failed: %v", err)
			return v
		}
		var o engine.Outcome
		switch entry {
		case "call":
			o = w.Call(target, args)
			if o.Panic == "" && hasNilArg && o.Err == nil {
				v.Failf("a nil option was accepted silently (no error result)")
			}
		case "convert":
			o = w.Convert(sc.Target.In[0].Type, args)
		case "redefine":
			if c.HasFilter {
				args = append(args, argmapper.FilterInput(typeFilter(c.Filter)))
				if rep == 0 {
					v.Class("redefine-with-input-filter")
				}
			}
			// the redefined function is also called with one input withheld
			// (a failing resolution inside it must come back as an error too)
			w.DeficientFirst = true
			_, rerr, rpanic, _, ro := w.RedefineCall(target, args)
			o = ro
			if d := w.DeficientOutcome; d != nil && d.Panic != "" && o.Panic == "" {
				o.Panic = "redefined function called without one of its inputs: " + d.Panic
			}
			if rpanic != "" {
				o.Panic = "Redefine: " + rpanic
			}
			if rerr != nil {
				v.Class("redefine-error")
			}
		}
		if o.Runaway {
			v.Failf("%s does not terminate: %s", entry, o.Panic)
		} else if o.Panic != "" {
			v.Failf("%s panicked: %s", entry, o.Panic)
		}
		if rep == 0 {
			if o.Err != nil {
				v.Class("outcome-error")
			} else if o.Panic == "" {
				v.Class("outcome-ok")
			}
		}
	}
	return v
}

// ---------------------------------------------------------------------------
// C06 over signatures outside the token universe: reflect kinds and type
// shapes a generated struct universe does not contain, among them recursive
// types (legal Go: `type P *P`, `type S []S`). Whatever the types are, the
// entry points return -- with a value or an error.

type recP *recP
type recA *recB
type recB *recA
type recS []recS
type recM map[string]recM
type recF func() recF
type recC chan recC
type recStruct struct{ Next *recStruct }

func c06xTypes() []reflect.Type {
	return append(append([]reflect.Type(nil), exTypes...),
		reflect.TypeOf(recP(nil)), reflect.TypeOf(recA(nil)), reflect.TypeOf(recS(nil)), reflect.TypeOf(recM(nil)),
		reflect.TypeOf(recF(nil)), reflect.TypeOf(recC(nil)), reflect.TypeOf(recStruct{}), reflect.TypeOf(&recStruct{}),
		reflect.TypeOf([2]int{}), reflect.TypeOf(struct{}{}), reflect.TypeOf((**int)(nil)), reflect.TypeOf(map[string]interface{}(nil)))
}

func c06xValues() []interface{} {
	var p recP
	p = recP(&p)
	rs := &recStruct{}
	rs.Next = rs
	two := 2
	ptwo := &two
	// values that contain themselves: printing them never ends
	selfM := recM{}
	selfM["self"] = selfM
	selfS := recS{nil}
	selfS[0] = selfS
	scope := map[string]interface{}{"n": 1}
	scope["scope"] = scope
	return append(exValues(), p, recA(nil), recS{nil, recS{}}, recM{"a": nil}, recF(nil), make(recC), *rs, rs, [2]int{1, 2}, struct{}{}, &ptwo,
		selfM, selfS, scope)
}

// C06XCase: an identity function over 1-3 catalogue types, supplied values and
// converters by index, and the entry point.
type C06XCase struct {
	// Results > 0: instead of the identity function, a function with that many
	// results of pairwise distinct types ([1]int, [2]int, ...), optionally
	// followed by an error: the limits of reflect.FuncOf are the library's
	// problem, not the caller's.
	Results  int    `json:"results,omitempty"`
	FinalErr bool   `json:"finalErr,omitempty"`
	Types    []int  `json:"types"`
	Inputs   []int  `json:"inputs"`
	Convs    []int  `json:"convs"`
	Op       string `json:"op"` // call | convert | redefine
}

func evalC06X(c *engine.Case) engine.Verdict {
	var v engine.Verdict
	var x C06XCase
	if err := c.GetX(&x); err != nil {
		v.Failf("bad case: %v", err)
		return v
	}
	if x.Results > 0 {
		return evalC06Many(&v, &x)
	}
	types, vals := c06xTypes(), c06xValues()
	var ts []reflect.Type
	for _, i := range x.Types {
		ts = append(ts, types[i%len(types)])
	}
	v.Class("entry-exotic-" + x.Op)
	for _, t := range ts {
		if t.Kind() == reflect.Ptr && (t.Elem() == t || (t.Elem().Kind() == reflect.Ptr && t.Elem().Elem() == t)) {
			v.Class("self-referential-pointer-type")
		}
	}
	var args []argmapper.Arg
	for _, i := range x.Inputs {
		args = append(args, argmapper.Typed(vals[i%len(vals)]))
		if i%len(vals) >= len(vals)-3 {
			v.Class("self-containing-value")
		}
	}
	for _, i := range x.Convs {
		args = append(args, argmapper.Converter(exConvs[i%len(exConvs)]))
	}
	args = append(args, engine.Quiet())
	fn := reflect.MakeFunc(reflect.FuncOf(ts, ts, false), func(a []reflect.Value) []reflect.Value { return a }).Interface()
	var o engine.Outcome
	engine.Protect(&o, func() {
		switch x.Op {
		case "convert":
			if _, err := argmapper.Convert(ts[0], args...); err != nil {
				_ = err.Error()
			}
		default:
			f, err := argmapper.NewFunc(fn)
			if err != nil {
				v.Class("signature-rejected")
				return
			}
			if x.Op == "redefine" {
				rf, err := f.Redefine(args...)
				if err == nil && rf != nil {
					r := rf.Call(engine.Quiet())
					if e := r.Err(); e != nil {
						_ = e.Error()
					}
				} else if err != nil {
					_ = err.Error()
				}
				return
			}
			r := f.Call(args...)
			if e := r.Err(); e != nil {
				_ = e.Error() // rendering the report must not choke on the values either
			}
		}
	})
	if o.Panic != "" {
		v.Failf("%s over signature %v panicked: %s", x.Op, ts, o.Panic)
	}
	v.NonTrivial = true
	return v
}

func evalC06Many(v *engine.Verdict, x *C06XCase) engine.Verdict {
	v.Class("entry-exotic-many-results")
	var outs []reflect.Type
	for i := 1; i <= x.Results; i++ {
		outs = append(outs, reflect.ArrayOf(i, reflect.TypeOf(0)))
	}
	if x.FinalErr {
		outs = append(outs, errIface)
	}
	fn := reflect.MakeFunc(reflect.FuncOf(nil, outs, false), func([]reflect.Value) []reflect.Value {
		r := make([]reflect.Value, len(outs))
		for i, t := range outs {
			r[i] = reflect.Zero(t)
		}
		return r
	}).Interface()
	var o engine.Outcome
	engine.Protect(&o, func() {
		f, err := argmapper.NewFunc(fn)
		if err != nil {
			v.Class("signature-rejected")
			return
		}
		r := f.Call(engine.Quiet())
		if r.Err() == nil && r.Len() != x.Results {
			v.Failf("Len() = %d for a function with %d results", r.Len(), x.Results)
		}
		rf, err := f.Redefine(engine.Quiet())
		if err == nil && rf != nil {
			r2 := rf.Call(engine.Quiet())
			_ = r2.Err()
		}
	})
	if o.Panic != "" {
		v.Failf("a function with %d results (final error: %v): %s", x.Results, x.FinalErr, o.Panic)
	}
	v.NonTrivial = true
	return *v
}

func genC06X(g engine.G) *engine.Case {
	if g.Pct(5) {
		x := C06XCase{Results: engine.Pick(g, []int{1, 2, 50, 100, 125, 126, 127, 128}), FinalErr: g.Bool()}
		if x.Results == 128 {
			x.FinalErr = false // 129 results cannot be declared at all
		}
		c := &engine.Case{Note: "exotic", Reps: 1}
		c.SetX(&x)
		return c
	}
	nt := len(c06xTypes())
	nv := len(c06xValues())
	x := C06XCase{Op: engine.Pick(g, []string{"call", "call", "convert", "redefine"})}
	seen := map[int]bool{}
	for i, n := 0, g.Int(1, 3); i < n; i++ {
		t := g.Int(0, nt-1)
		if x.Op == "convert" || !seen[t] || g.Pct(30) { // positional parameters may repeat a type
			x.Types = append(x.Types, t)
			seen[t] = true
		}
	}
	for i, n := 0, g.Int(0, 3); i < n; i++ {
		x.Inputs = append(x.Inputs, g.Int(0, nv-1))
	}
	for i, n := 0, g.Int(0, 2); i < n; i++ {
		x.Convs = append(x.Convs, g.Int(0, len(exConvs)-1))
	}
	c := &engine.Case{Note: "exotic", Reps: 1}
	c.SetX(&x)
	return c
}

func genC06(g engine.G) *engine.Case {
	if g.Pct(6) {
		return genC06X(g)
	}
	var sc *engine.Scenario
	o := engine.DefaultFuncOpts()
	o.AllowOnce, o.AllowPosRepeat, o.FailP = true, true, 10
	switch g.Int(0, 7) {
	case 7:
		sc = engine.GenWide(g, o)
	case 6:
		// labels containing "/" + type strings, and non-identifier names
		sc = engine.GenHostile(g, o)
	case 0:
		sc = engine.GenUniform(g, o, true, true)
	case 1:
		sc = engine.GenDerivable(g, o, true, true, 3, 4)
	default:
		sc = engine.GenNasty(g)
	}
	if g.Pct(2) {
		sc = engine.GenMany(g)
	}
	if g.Pct(1) {
		// a deep diamond ladder: must return in polynomially many steps
		sc = engine.GenLadder(g)
	}
	sc.RawConverters = g.Pct(15)
	if t := &sc.Target; g.Pct(15) && !t.HasErr && !t.Built && !t.Identity && t.OutForm == engine.FormPos {
		// a final result of a concrete error type: an ordinary output
		t.ConcreteErr = true
	}
	c := &engine.Case{Sc: sc, Reps: 2}
	switch k := g.Int(0, 9); {
	case k < 6:
		c.Entry = "call"
	case k < 8:
		c.Entry = "redefine"
		if g.Pct(40) {
			c.Sc, c.Filter = engine.GenRedefineFocus(g)
			sc = c.Sc
			c.HasFilter = true
		} else if g.Pct(60) {
			// an input filter over a drawn subset of the types in play: the
			// supplied values' types (leaves) are always useful to permit
			c.HasFilter = true
			for _, in := range sc.Inputs {
				if g.Pct(70) {
					c.Filter = append(c.Filter, in.L.Type)
				}
			}
			for i, n := 0, g.Int(0, 3); i < n; i++ {
				c.Filter = append(c.Filter, g.Int(0, engine.NumTypes-1))
			}
			c.Filter = uniqInts(c.Filter)
		}
		if g.Pct(50) && len(sc.Inputs) > 0 {
			// withhold some of the values: the redefined function has to
			// declare them as its inputs
			var kept []engine.Input
			for _, in := range sc.Inputs {
				if g.Pct(50) {
					kept = append(kept, in)
				}
			}
			sc.Inputs = kept
		}
		if t := &sc.Target; g.Pct(15) && !t.HasErr && !t.Built && !t.Identity && !t.ConcreteErr && t.OutForm == engine.FormPos {
			t.ConcreteErr = true
		}
	default:
		c.Entry = "convert"
	}
	return c
}

func TestC06(t *testing.T) { runProp(t, "C06", genC06) }
