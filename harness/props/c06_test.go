package props

import (
	"testing"

	"github.com/hashicorp/go-argmapper"
	"github.com/hashicorp/go-argmapper/verifharness/engine"
)

func init() { evaluators["C06"] = evalC06 }

// scenarioShape classifies the structural features C06's non-triviality rule
// talks about.
func scenarioShape(v *engine.Verdict, sc *engine.Scenario) (nontrivial bool) {
	multiCyc := !engine.SingleInput(sc) && engine.DepCyclic(sc, engine.RPlus)
	if multiCyc {
		v.Class("cyclic-multi-input")
		nontrivial = true
	} else if engine.DepCyclic(sc, engine.RPlus) {
		v.Class("cyclic-single-input")
	}
	posRepeat := false
	subNextNamed := false
	fs := append([]engine.FuncSpec{sc.Target}, sc.Convs...)
	for i := range fs {
		f := &fs[i]
		for _, side := range []struct {
			form string
			ls   []engine.Label
		}{{f.InForm, f.In}, {f.OutForm, f.Out}} {
			seen := map[int]bool{}
			for _, l := range side.ls {
				if side.form == engine.FormPos {
					if seen[l.Type] {
						posRepeat = true
					}
					seen[l.Type] = true
				}
			}
		}
		for _, a := range f.In {
			for _, b := range f.In {
				if !a.Named() && a.Sub != "" && b.Named() && a.Type == b.Type {
					subNextNamed = true
				}
			}
		}
	}
	if posRepeat {
		v.Class("repeated-positional-type")
		nontrivial = true
	}
	if subNextNamed {
		v.Class("typed-subtype-next-to-named")
		nontrivial = true
	}
	if len(sc.Malformed) > 0 {
		v.Class("malformed-option")
		nontrivial = true
	}
	if len(sc.Gens) > 0 {
		nontrivial = true
		for _, g := range sc.Gens {
			v.Class("gen-" + g.Mode)
		}
	}
	return nontrivial
}

// evalC06: the operation returns normally -- no panic, no runaway. (Fatal
// crashes and hangs are caught by the driver through the journal/watchdog.)
func evalC06(c *engine.Case) engine.Verdict {
	var v engine.Verdict
	sc := c.Sc
	engine.ScenarioClasses(&v, sc)
	v.NonTrivial = scenarioShape(&v, sc)
	reps := c.Reps
	if reps <= 0 {
		reps = 1
	}
	entry := c.Entry
	if entry == "" {
		entry = "call"
	}
	v.Class("entry-" + entry)
	hasNilArg := false
	for _, m := range sc.Malformed {
		if m.Kind == "nilarg" {
			hasNilArg = true
		}
	}
	for rep := 0; rep < reps && v.Fail == ""; rep++ {
		w := engine.NewWorld()
		target, args, err := w.Setup(sc)
		if err != nil {
			// NewFunc refused a well-formed generated function
			v.Failf("construction of a well-formed function failed: %v", err)
			return v
		}
		var o engine.Outcome
		switch entry {
		case "call":
			o = w.Call(target, args)
			if o.Panic == "" && hasNilArg && o.Err == nil {
				v.Failf("a nil option was accepted silently (no error result)")
			}
		case "convert":
			o = w.Convert(sc.Target.In[0].Type, args)
		case "redefine":
			if c.HasFilter {
				args = append(args, argmapper.FilterInput(typeFilter(c.Filter)))
				if rep == 0 {
					v.Class("redefine-with-input-filter")
				}
			}
			_, rerr, rpanic, _, ro := w.RedefineCall(target, args)
			o = ro
			if rpanic != "" {
				o.Panic = "Redefine: " + rpanic
			}
			if rerr != nil {
				v.Class("redefine-error")
			}
		}
		if o.Runaway {
			v.Failf("%s does not terminate: %s", entry, o.Panic)
		} else if o.Panic != "" {
			v.Failf("%s panicked: %s", entry, o.Panic)
		}
		if rep == 0 {
			if o.Err != nil {
				v.Class("outcome-error")
			} else if o.Panic == "" {
				v.Class("outcome-ok")
			}
		}
	}
	return v
}

func genC06(g engine.G) *engine.Case {
	var sc *engine.Scenario
	o := engine.DefaultFuncOpts()
	o.AllowOnce, o.AllowPosRepeat, o.FailP = true, true, 10
	switch g.Int(0, 7) {
	case 7:
		sc = engine.GenWide(g, o)
	case 6:
		// labels containing "/" + type strings, and non-identifier names
		sc = engine.GenHostile(g, o)
	case 0:
		sc = engine.GenUniform(g, o, true, true)
	case 1:
		sc = engine.GenDerivable(g, o, true, true, 3, 4)
	default:
		sc = engine.GenNasty(g)
	}
	if g.Pct(2) {
		sc = engine.GenMany(g)
	}
	sc.RawConverters = g.Pct(15)
	if t := &sc.Target; g.Pct(10) && !t.HasErr && !t.Built && !t.Identity && t.OutForm == engine.FormPos {
		// a final result of a concrete error type: an ordinary output
		t.ConcreteErr = true
	}
	c := &engine.Case{Sc: sc, Reps: 2}
	switch k := g.Int(0, 9); {
	case k < 6:
		c.Entry = "call"
	case k < 8:
		c.Entry = "redefine"
		if g.Pct(40) {
			c.Sc, c.Filter = engine.GenRedefineFocus(g)
			sc = c.Sc
			c.HasFilter = true
		} else if g.Pct(60) {
			// an input filter over a drawn subset of the types in play: the
			// supplied values' types (leaves) are always useful to permit
			c.HasFilter = true
			for _, in := range sc.Inputs {
				if g.Pct(70) {
					c.Filter = append(c.Filter, in.L.Type)
				}
			}
			for i, n := 0, g.Int(0, 3); i < n; i++ {
				c.Filter = append(c.Filter, g.Int(0, engine.NumTypes-1))
			}
			c.Filter = uniqInts(c.Filter)
		}
	default:
		c.Entry = "convert"
	}
	return c
}

func TestC06(t *testing.T) { runProp(t, "C06", genC06) }
