package props

import (
	"fmt"
	"reflect"
	"testing"

	"github.com/hashicorp/go-argmapper"
	"github.com/hashicorp/go-argmapper/verifharness/engine"
)

func init() { evaluators["C08"] = evalC08 }

// anyOnce: a run-once function may legitimately hand a later call what it
// computed from an earlier call's values.
func anyOnce(sc *engine.Scenario) bool {
	if sc.Target.Once {
		return true
	}
	for i := range sc.Convs {
		if sc.Convs[i].Once {
			return true
		}
	}
	return false
}

// filterTypes: the types the filter algebra is exercised on -- the token
// universe plus unnamed / defined pairs with the same underlying type (Go
// assignability is wider than FilterType's documented "same type, or
// implements the interface").
type fLabels map[string]string
type fList []string

var filterTypes = append(append([]reflect.Type(nil), engine.Types...),
	reflect.TypeOf(map[string]string(nil)), reflect.TypeOf(fLabels(nil)), reflect.TypeOf([]string(nil)), reflect.TypeOf(fList(nil)),
	reflect.TypeOf(0), reflect.TypeOf(""), reflect.TypeOf((*error)(nil)).Elem(), reflect.TypeOf(&engine.FailErr{}), reflect.TypeOf(struct{ A int }{}))

// C08FilterCase: a filter expression over type indices and a probe type.
type C08FilterCase struct {
	Or    [][]int `json:"or"` // FilterAnd over FilterOr(FilterType...) groups
	Probe int     `json:"probe"`
}

func evalC08Filter(c *engine.Case) engine.Verdict {
	var v engine.Verdict
	var x C08FilterCase
	if err := c.GetX(&x); err != nil {
		v.Failf("bad case: %v", err)
		return v
	}
	v.Class("filter-algebra")
	model := func(t, u reflect.Type) bool {
		return u == t || (t.Kind() == reflect.Interface && u.Implements(t))
	}
	probe := filterTypes[x.Probe%len(filterTypes)]
	want := true
	var ands []argmapper.FilterFunc
	for _, grp := range x.Or {
		gw := false
		var ors []argmapper.FilterFunc
		for _, ti := range grp {
			t := filterTypes[ti%len(filterTypes)]
			ors = append(ors, argmapper.FilterType(t))
			gw = gw || model(t, probe)
		}
		ands = append(ands, argmapper.FilterOr(ors...))
		want = want && gw
	}
	got := argmapper.FilterAnd(ands...)(argmapper.Value{Name: "x", Type: probe})
	if got != want {
		v.Failf("FilterAnd(FilterOr(FilterType...)...) over %v says %v for a value of type %v; by the documented semantics (same type, or implements the interface) it is %v", x.Or, got, probe, want)
	}
	v.NonTrivial = len(x.Or) > 0
	return v
}

// C08Case: the scenario's Inputs are the arguments pre-supplied to Redefine.
type C08Case struct {
	InFilter   []int `json:"inFilter"` // permitted input types; HasIn=false => no filter
	HasIn      bool  `json:"hasIn"`
	OutFilter  []int `json:"outFilter"`
	HasOut     bool  `json:"hasOut"`
	FilterForm int   `json:"filterForm"` // 0: Or(Type...) ; 1: And(Or(S+A), Or(S+B)) with disjoint A, B
	ExtraA     []int `json:"extraA,omitempty"`
	ExtraB     []int `json:"extraB,omitempty"`
	// FiltersAsDefaults: the filters are given to NewFunc as defaults of the
	// original function instead of to Redefine ("options given at
	// construction apply otherwise", C16).
	FiltersAsDefaults bool `json:"filtersAsDefaults,omitempty"`
	// DenyNames: the input filter additionally rejects NAMED values with one
	// of these names (a filter is an arbitrary predicate over the whole value,
	// not a function of its type).
	DenyNames []string `json:"denyNames,omitempty"`
}

// permitsIn: does the input filter of the case admit a value under label l?
func (x *C08Case) permitsIn(name string, t int) bool {
	if !permits(x.InFilter, t) {
		return false
	}
	for _, d := range x.DenyNames {
		if name != "" && name == d {
			return false
		}
	}
	return true
}

// inputFilter builds the FilterInput predicate of the case.
func (x *C08Case) inputFilter() argmapper.FilterFunc {
	f := x.filter(x.InFilter)
	if len(x.DenyNames) == 0 {
		return f
	}
	deny := map[string]bool{}
	for _, d := range x.DenyNames {
		deny[d] = true
	}
	return argmapper.FilterAnd(f, func(v argmapper.Value) bool { return !deny[v.Name] })
}

func typeFilter(ts []int) argmapper.FilterFunc {
	var fs []argmapper.FilterFunc
	for _, t := range ts {
		fs = append(fs, argmapper.FilterType(engine.Types[t]))
	}
	return argmapper.FilterOr(fs...)
}

func (x *C08Case) filter(set []int) argmapper.FilterFunc {
	if x.FilterForm == 1 {
		return argmapper.FilterAnd(typeFilter(append(append([]int(nil), set...), x.ExtraA...)), typeFilter(append(append([]int(nil), set...), x.ExtraB...)))
	}
	return typeFilter(set)
}

// permits: the documented semantics of a filter built from FilterType over
// the listed types -- the same type, or an implementation of a listed
// interface type.
func permits(set []int, t int) bool {
	for _, s := range set {
		if s == t || (engine.IsIface(s) && engine.Implements(t, s)) {
			return true
		}
	}
	return false
}

func inSet(set []int, t int) bool {
	for _, s := range set {
		if s == t {
			return true
		}
	}
	return false
}

// ---------------------------------------------------------------------------
// nil-able inputs: a typed nil pointer / slice / map / func / chan is an
// ordinary value (only the untyped nil is "no value"). A redefined function
// given such values for its declared inputs behaves like the original
// function given the same values.

type C08NilCase struct {
	Kinds []int  `json:"kinds"` // index into nilKinds per parameter
	Nil   []bool `json:"nil"`   // whether the value given is the typed nil
	Named []bool `json:"named"` // named parameter (field name Pi) or type-only
	Ptr   bool   `json:"ptr,omitempty"`
}

type nilKind struct {
	typ    reflect.Type
	nonNil func() reflect.Value
}

var nilKinds = []nilKind{
	{reflect.TypeOf(&engine.T3{}), func() reflect.Value { return reflect.ValueOf(&engine.T3{K: 7}) }},
	{reflect.TypeOf([]int(nil)), func() reflect.Value { return reflect.ValueOf([]int{1}) }},
	{reflect.TypeOf(map[string]int(nil)), func() reflect.Value { return reflect.ValueOf(map[string]int{"a": 1}) }},
	{reflect.TypeOf((func() int)(nil)), func() reflect.Value { return reflect.ValueOf(func() int { return 1 }) }},
	{reflect.TypeOf((chan int)(nil)), func() reflect.Value { return reflect.ValueOf(make(chan int)) }},
	{reflect.TypeOf(fList(nil)), func() reflect.Value { return reflect.ValueOf(fList{"x"}) }},
}

func evalC08Nil(c *engine.Case) engine.Verdict {
	var v engine.Verdict
	var x C08NilCase
	if err := c.GetX(&x); err != nil {
		v.Failf("bad case: %v", err)
		return v
	}
	v.Class("nil-able-inputs")
	sf := []reflect.StructField{{Name: "Struct", Type: reflect.TypeOf(argmapper.Struct{}), Anonymous: true}}
	var args []argmapper.Arg
	anyNil := false
	for i, k := range x.Kinds {
		nk := nilKinds[k%len(nilKinds)]
		fld := reflect.StructField{Name: fmt.Sprintf("P%d", i), Type: nk.typ}
		if !x.Named[i] {
			fld.Tag = `argmapper:",typeOnly"`
		}
		sf = append(sf, fld)
		val := nk.nonNil()
		if x.Nil[i] {
			val = reflect.Zero(nk.typ)
			anyNil = true
		}
		if x.Named[i] {
			args = append(args, argmapper.Named(fmt.Sprintf("p%d", i), val.Interface()))
		} else {
			args = append(args, argmapper.Typed(val.Interface()))
		}
	}
	args = append(args, engine.Quiet())
	st := reflect.StructOf(sf)
	inT := st
	if x.Ptr {
		inT = reflect.PtrTo(st)
	}
	var seen []bool
	runs := 0
	fn := reflect.MakeFunc(reflect.FuncOf([]reflect.Type{inT}, []reflect.Type{reflect.TypeOf(0)}, false), func(a []reflect.Value) []reflect.Value {
		runs++
		sv := a[0]
		if sv.Kind() == reflect.Ptr {
			sv = sv.Elem()
		}
		seen = nil
		for i := range x.Kinds {
			seen = append(seen, sv.Field(i+1).IsNil())
		}
		return []reflect.Value{reflect.ValueOf(runs)}
	})
	f, err := argmapper.NewFunc(fn.Interface())
	if err != nil {
		v.Failf("NewFunc: %v", err)
		return v
	}
	match := func(what string) bool {
		for i := range x.Nil {
			if i >= len(seen) || seen[i] != x.Nil[i] {
				v.Failf("%s: parameter %d nil=%v, the value given is nil=%v", what, i, seen, x.Nil)
				return false
			}
		}
		return true
	}
	var o engine.Outcome
	var res argmapper.Result
	engine.Protect(&o, func() { res = f.Call(args...) })
	if o.Panic != "" || res.Err() != nil {
		// the ORIGINAL function refuses these values: nothing to compare
		v.Class("original-call-failed")
		return v
	}
	if !match("original function") {
		return v
	}
	var rf *argmapper.Func
	engine.Protect(&o, func() { rf, err = f.Redefine(engine.Quiet()) })
	if o.Panic != "" {
		v.Failf("Redefine panicked: %s", o.Panic)
		return v
	}
	if err != nil {
		v.Failf("Redefine of a function with plain parameters failed: %v", err)
		return v
	}
	seen = nil
	engine.Protect(&o, func() { res = rf.Call(args...) })
	if o.Panic != "" {
		v.Failf("redefined function panicked: %s", o.Panic)
		return v
	}
	if res.Err() != nil {
		v.Failf("the redefined function, given a value for each declared input (typed nils are values), failed: %.200s", res.Err())
		return v
	}
	match("redefined function")
	v.NonTrivial = anyNil
	return v
}

func genC08Nil(g engine.G) *engine.Case {
	x := C08NilCase{Ptr: g.Bool()}
	perm := rapidPerm(g, []int{0, 1, 2, 3, 4, 5})
	for _, k := range perm[:g.Int(1, 3)] {
		x.Kinds = append(x.Kinds, k)
		x.Nil = append(x.Nil, g.Pct(60))
		x.Named = append(x.Named, g.Bool())
	}
	c := &engine.Case{Note: "nilin"}
	c.SetX(&x)
	return c
}

func evalC08(c *engine.Case) engine.Verdict {
	if c.Note == "filter" {
		return evalC08Filter(c)
	}
	if c.Note == "nilin" {
		return evalC08Nil(c)
	}
	var v engine.Verdict
	var x C08Case
	if err := c.GetX(&x); err != nil {
		v.Failf("bad case: %v", err)
		return v
	}
	sc := c.Sc
	engine.ScenarioClasses(&v, sc)
	outRejected := false
	if x.HasOut {
		for _, l := range sc.Target.Out {
			if !permits(x.OutFilter, l.Type) {
				outRejected = true
			}
		}
	}
	allParamsPermitted := true
	rejectedParam := false
	if x.HasIn {
		for _, p := range sc.Target.In {
			if !x.permitsIn(p.Name, p.Type) {
				allParamsPermitted = false
				rejectedParam = true
			}
		}
	}
	if outRejected {
		v.Class("output-rejected-by-filter")
	}
	if x.HasIn {
		v.Class("has-input-filter")
	}
	if len(x.DenyNames) > 0 {
		v.Class("input-filter-looks-at-names")
	}
	if x.HasOut {
		v.Class("has-output-filter")
	}
	if rejectedParam {
		v.Class("filter-rejects-a-target-parameter")
	}
	if len(sc.Inputs) > 0 {
		v.Class("pre-supplied-arguments")
	}
	if sc.Target.Once {
		v.Class("run-once-target")
	}
	reps := c.Reps
	if reps <= 0 {
		reps = 1
	}
	convRan := false
	for rep := 0; rep < reps && v.Fail == ""; rep++ {
		w := engine.NewWorld()
		var filters []argmapper.Arg
		if x.HasIn {
			filters = append(filters, argmapper.FilterInput(x.inputFilter()))
		}
		if x.HasOut {
			filters = append(filters, argmapper.FilterOutput(x.filter(x.OutFilter)))
		}
		if x.FiltersAsDefaults {
			w.TargetDefaults = filters
			if rep == 0 && len(filters) > 0 {
				v.Class("filters-given-as-defaults")
			}
		}
		target, args, err := w.Setup(sc)
		if err != nil {
			v.Failf("setup: %v", err)
			return v
		}
		if !x.FiltersAsDefaults {
			args = append(args, filters...)
		}
		n0 := w.NumEvents()
		w.DeficientFirst = true
		w.RepeatOnFailure = true
		w.AliasProbe = true
		w.ProvideIfaceInputs = true
		rf, rerr, rpanic, fresh, o := w.RedefineCall(target, args)
		if rep == 0 && w.Providers > 0 {
			v.Class("named-interface-input-given-by-a-provider")
		}
		if fc := w.FirstComplete; fc != nil && v.Fail == "" {
			// the first complete call ended with a body error
			memoized := false
			if fe, ok := fc.Err.(*engine.FailErr); ok {
				if fs := w.Specs[fe.Func]; fs != nil && fs.Once {
					memoized = true
				}
				if fe.Func == engine.TargetID && sc.Target.Once {
					memoized = true
				}
			}
			if !memoized && o.Err == fc.Err {
				v.Failf("the redefined function returned the very error object of its previous call although the function that failed is not run-once (stale result)")
				break
			}
			n0 += len(fc.Events)
			if rep == 0 {
				v.Class("repeated-after-body-failure")
			}
		}
		if d := w.DeficientOutcome; d != nil && v.Fail == "" {
			if d.Panic != "" {
				v.Failf("calling the redefined function without one of its inputs panicked: %s", d.Panic)
				break
			}
			if _, unsat := engine.IsUnsatisfied(d.Err); unsat && o.Err == d.Err {
				v.Failf("the redefined function, called with every declared input, returned the very error object of an EARLIER call that lacked an input (stale result)")
				break
			}
			// the deficient call's events are not part of the complete call
			n0 += len(d.Events)
			if rep == 0 {
				v.Class("deficient-call-first")
			}
		}
		if rpanic != "" {
			v.Failf("Redefine panicked: %s", rpanic)
			break
		}
		if outRejected {
			if rerr == nil {
				v.Failf("an output of the target is rejected by the output filter but Redefine succeeded")
			}
			if rep == 0 {
				v.Class("redefine-error")
			}
			continue
		}
		if rerr != nil {
			if allParamsPermitted {
				v.Failf("every target parameter is permitted by the input filter but Redefine failed: %.200s", rerr.Error())
			}
			if rep == 0 {
				v.Class("redefine-error")
			}
			continue
		}
		if rep == 0 {
			v.Class("redefine-ok")
			v.Class(fmt.Sprintf("redefined-inputs=%d", min(len(fresh), 4)))
		}
		// (a) every input passes the filter, (b) none was already supplied
		for _, iv := range rf.Input().Values() {
			ti := engine.TypeIdx(iv.Type)
			if x.HasIn && !x.permitsIn(iv.Name, ti) {
				v.Failf("redefined function demands %s, which the input filter %v rejects", iv.String(), x.InFilter)
			}
			if iv.Subtype != "" {
				v.Failf("redefined function demands a subtype-labelled input %s in a subtype-free scenario", iv.String())
			}
			for _, in := range engine.EffectiveInputs(sc.Inputs) {
				if in.L.Name == iv.Name && in.L.Type == ti {
					v.Failf("redefined function demands %s, which the caller already supplied", iv.String())
				}
			}
		}
		if v.Fail != "" {
			break
		}
		// (c) calling it with a value per declared input
		if o.Panic != "" {
			v.Failf("calling the redefined function panicked: %s", o.Panic)
			break
		}
		evs := w.EventsSince(n0)
		if len(evs) != len(o.Events) {
			v.Failf("Redefine itself executed %d function bodies", len(evs)-len(o.Events))
			break
		}
		if o.Err != nil {
			if _, isFail := o.Err.(*engine.FailErr); !isFail {
				v.Failf("redefined function called with a value for each declared input failed: %.300s", o.ErrS)
				break
			}
		}
		if msg := engine.CheckBindings(w, o.Events); msg != "" {
			v.Failf("redefined call: %s", msg)
			break
		}
		if engine.ConvExecs(o.Events) > 0 {
			convRan = true
		}
		var tev *engine.Event
		nT := 0
		for i := range o.Events {
			if o.Events[i].Func == engine.TargetID {
				tev = &o.Events[i]
				nT++
			}
		}
		convFailed := false
		for _, ev := range o.Events {
			if ev.Err != nil && ev.Func != engine.TargetID {
				convFailed = true
				// the original function, called with these arguments, would
				// return exactly this error (C04); so must the redefined one
				if o.Err != ev.Err {
					v.Failf("converter f%d failed with %v inside the redefined function, which returned %v", ev.Func, ev.Err, o.Err)
				}
				break
			}
		}
		if v.Fail != "" {
			break
		}
		if convFailed {
			continue
		}
		if nT == 0 && sc.Target.Once {
			// a run-once target that already ran in an earlier call of the
			// redefined function (the "deficient" one, if it found another
			// route, or the first complete one) is served from its memo
			for _, prev := range []*engine.Outcome{w.DeficientOutcome, w.FirstComplete} {
				if prev == nil {
					continue
				}
				for i := range prev.Events {
					if prev.Events[i].Func == engine.TargetID && tev == nil {
						tev = &prev.Events[i]
						nT = 1
					}
				}
			}
		}
		if nT != 1 {
			v.Failf("the original function body executed %d times in one call of the redefined function", nT)
			break
		}
		if tev.Err != nil {
			if o.Err != tev.Err {
				v.Failf("the original body returned error %v but the redefined function returned %v", tev.Err, o.Err)
			}
			// the original function's own results: the values it returned
			// next to its error as well (a built function delivers only its
			// error: the callback's error return aborts it)
			if !sc.Target.Built && len(o.Outs) == len(tev.Outs) {
				for i := range o.Outs {
					if o.Outs[i].Tok != tev.Outs[i] {
						v.Failf("the original body returned #%d as result %d next to its error; the redefined function returned #%d (valid=%v)", tev.Outs[i], i, o.Outs[i].Tok, o.Outs[i].Valid)
						break
					}
				}
				if rep == 0 && len(o.Outs) > 0 {
					v.Class("target-returns-values-with-error")
				}
			}
			continue
		}
		if o.Err != nil {
			v.Failf("the original body succeeded but the redefined function returned %v", o.Err)
			break
		}
		if len(o.Outs) != len(tev.Outs) {
			v.Failf("redefined function returned %d values, the original body returned %d", len(o.Outs), len(tev.Outs))
			break
		}
		for i := range o.Outs {
			if o.Outs[i].Tok != tev.Outs[i] {
				v.Failf("result %d of the redefined function is #%d, the original body returned #%d", i, o.Outs[i].Tok, tev.Outs[i])
			}
		}
		// The option list Redefine was given was a prefix of a longer list
		// the caller had prepared for a later, direct call of the original
		// function (own values #7xx for the same inputs). That call must see
		// the caller's values, none of the values (#5xx) that were only ever
		// handed to the redefined function.
		if v.Fail == "" && w.Later != nil && !anyOnce(sc) {
			lo := w.Call(target, w.Later)
			if lo.Panic != "" {
				v.Failf("direct call of the original function after the redefined one panicked: %s", lo.Panic)
				break
			}
			for _, ev := range lo.Events {
				for _, a := range ev.Args {
					if a.Tok > 500 && a.Tok < 700 {
						v.Failf("a direct call of the original function with its own option list (values #%d..) injected #%d, a value that was only ever passed to the redefined function: the list Redefine was given a prefix of has been overwritten", 701, a.Tok)
					}
				}
			}
			if msg := engine.CheckBindings(w, lo.Events); msg != "" && v.Fail == "" {
				v.Failf("direct call after the redefined one: %s", msg)
			}
			if rep == 0 {
				v.Class("direct-call-over-shared-option-list")
			}
		}
	}
	if convRan {
		v.Class("conversion-needed")
	}
	v.NonTrivial = convRan || rejectedParam || len(sc.Inputs) > 0
	return v
}

func genC08(g engine.G) *engine.Case {
	if g.Pct(4) {
		return genC08Nil(g)
	}
	if g.Pct(10) {
		var x C08FilterCase
		for i, n := 0, g.Int(0, 3); i < n; i++ {
			var grp []int
			for k, m := 0, g.Int(0, 3); k < m; k++ {
				grp = append(grp, g.Int(0, len(filterTypes)-1))
			}
			x.Or = append(x.Or, grp)
		}
		x.Probe = g.Int(0, len(filterTypes)-1)
		if len(x.Or) > 0 && len(x.Or[0]) > 0 && g.Pct(50) {
			// probe near a filter type: the type itself or its neighbour in the table
			x.Probe = x.Or[0][0] + g.Int(0, 1)
		}
		c := &engine.Case{Note: "filter"}
		c.SetX(&x)
		return c
	}
	o := engine.DefaultFuncOpts()
	o.MaxIn = 1
	o.AllowBuilt = true
	o.FailP = 5
	pal := engine.GenPaletteC08(g)
	b := engine.NewBuilder(g, pal, o)
	b.Sc.Target = engine.GenTarget(g, pal, 3, o)
	b.Sc.Target.Once = g.Pct(15)
	// positional results so that returned tokens are comparable
	b.Sc.Target.OutForm = engine.FormPos
	if b.Sc.Target.Built {
		b.Sc.Target.Built = false
		if len(b.Sc.Target.In) == 0 {
			b.Sc.Target.InForm = engine.FormPos
		}
	}
	for i := range b.Sc.Target.Out {
		b.Sc.Target.Out[i].Name, b.Sc.Target.Out[i].Tag = "", false
	}
	for _, p := range b.Sc.Target.In {
		b.Produce(p, g.Int(0, 3), 1)
	}
	if g.Pct(40) {
		b.AddReverse(50)
	}
	for i := range b.Sc.Convs {
		if len(b.Sc.Convs[i].In) > 1 {
			b.Sc.Convs[i].In = b.Sc.Convs[i].In[:1]
		}
	}
	if g.Pct(40) {
		b.Distract(0, 2)
	}
	if g.Pct(15) && len(b.Sc.Convs) > 0 {
		// a transient failure: one converter fails on its first execution only
		i := g.Int(0, len(b.Sc.Convs)-1)
		if !b.Sc.Convs[i].Built {
			b.Sc.Convs[i].HasErr, b.Sc.Convs[i].FailFirst, b.Sc.Convs[i].Fail = true, true, false
		}
	}
	// partition the leaves: kept ones are pre-supplied to Redefine, the types
	// of the others are what the caller says it can provide (input filter)
	var x C08Case
	var kept []engine.Input
	leafTypes := map[int]bool{}
	for _, in := range b.Sc.Inputs {
		if g.Pct(35) {
			kept = append(kept, in)
		} else {
			leafTypes[in.L.Type] = true
		}
	}
	b.Sc.Inputs = kept
	switch k := g.Int(0, 9); {
	case k < 2:
		x.HasIn = false
	case k < 4: // everything the target itself needs
		x.HasIn = true
		for _, p := range b.Sc.Target.In {
			x.InFilter = append(x.InFilter, p.Type)
		}
	default: // the leaf types (conversion required)
		x.HasIn = true
		for t := range leafTypes {
			x.InFilter = append(x.InFilter, t)
		}
	}
	if x.HasIn && g.Pct(30) {
		x.InFilter = append(x.InFilter, g.Int(0, 5))
	}
	x.InFilter = uniqInts(x.InFilter)
	if g.Pct(35) {
		x.HasOut = true
		for _, l := range b.Sc.Target.Out {
			if g.Pct(85) {
				x.OutFilter = append(x.OutFilter, l.Type)
			}
		}
		if g.Pct(30) {
			x.OutFilter = append(x.OutFilter, g.Int(0, 5))
		}
		x.OutFilter = uniqInts(x.OutFilter)
	}
	if t := &b.Sc.Target; g.Pct(12) && t.InForm != engine.FormPos {
		// a NAMED parameter of interface type that nothing supplies: the
		// redefined function has to declare it under exactly that type
		it := engine.Pick(g, []int{engine.TypeI0, engine.TypeI1, engine.TypeAny})
		if g.Pct(60) {
			t.In = append(t.In, engine.Label{Name: "zi", Type: it, Dyn: it, Tag: g.Bool()})
		} else {
			// a TYPE-ONLY interface parameter next to a parameter of an
			// implementing type whose value is given to Redefine: the value
			// later handed to the redefined function for the interface input
			// must not take the place of that argument
			impl := engine.Pick(g, engine.Implementers(it))
			okT := true
			for _, p := range t.In {
				if !p.Named() && (p.Type == it || p.Type == impl) {
					okT = false
				}
			}
			if okT {
				t.In = append(t.In, engine.Label{Type: it, Dyn: it}, engine.Label{Type: impl, Dyn: impl})
				b.Sc.Inputs = append(b.Sc.Inputs, engine.Input{L: engine.Label{Type: impl, Dyn: impl}, Tok: 90})
			}
		}
		if x.HasIn && g.Pct(75) {
			x.InFilter = uniqInts(append(x.InFilter, it))
		}
	}
	if x.HasIn && g.Pct(30) {
		// the filter looks at names as well: one of the names in play is
		// not acceptable as an input
		var names []string
		seenN := map[string]bool{}
		add := func(n string) {
			if n != "" && !seenN[n] {
				seenN[n] = true
				names = append(names, n)
			}
		}
		for _, in := range b.Sc.Inputs {
			add(in.L.Name)
		}
		for _, p := range b.Sc.Target.In {
			add(p.Name)
		}
		for i := range b.Sc.Convs {
			for _, l := range b.Sc.Convs[i].In {
				add(l.Name)
			}
		}
		if len(names) > 0 {
			x.DenyNames = []string{engine.Pick(g, names)}
		}
	}
	x.FiltersAsDefaults = g.Pct(20)
	if g.Pct(30) {
		x.FilterForm = 1
		for t := 0; t < engine.NumConcrete; t++ {
			if !inSet(x.InFilter, t) && !inSet(x.OutFilter, t) {
				if g.Bool() {
					x.ExtraA = append(x.ExtraA, t)
				} else {
					x.ExtraB = append(x.ExtraB, t)
				}
			}
		}
	}
	c := &engine.Case{Sc: b.Sc, Reps: 2}
	c.SetX(&x)
	return c
}

func uniqInts(xs []int) []int {
	seen := map[int]bool{}
	var out []int
	for _, x := range xs {
		if !seen[x] {
			seen[x] = true
			out = append(out, x)
		}
	}
	// deterministic order
	for i := range out {
		for j := i + 1; j < len(out); j++ {
			if out[j] < out[i] {
				out[i], out[j] = out[j], out[i]
			}
		}
	}
	return out
}

func TestC08(t *testing.T) { runProp(t, "C08", genC08) }
