package props

import (
	"fmt"
	"reflect"
	"sort"
	"testing"

	"github.com/hashicorp/go-argmapper"
	"github.com/hashicorp/go-argmapper/verifharness/engine"
)

func init() { evaluators["C09"] = evalC09 }

// C09Step is one step of a history over a shared world.
type C09Step struct {
	Op     string `json:"op"`     // redefine | call | convert
	Drop   []int  `json:"drop"`   // indices (mod len) of supplied inputs withheld for this step
	Filter []int  `json:"filter"` // redefine: permitted input types (nil = no filter)
	HasF   bool   `json:"hasF,omitempty"`
	CallRF bool   `json:"callRF,omitempty"` // redefine: also call the redefined function (real world and twin)
}

type C09Case struct {
	Steps []C09Step `json:"steps"`
	// AllDefaults: every option (values, converters, logger) is a NewFunc
	// default of the target and every operation is invoked with NO options.
	AllDefaults bool `json:"allDefaults,omitempty"`
	// TargetDefault: the target carries a default option (FuncName).
	TargetDefault bool `json:"targetDefault,omitempty"`
}

type funcSnapshot struct {
	ptr     uintptr
	in, out string
	name    string
}

func snap(f *argmapper.Func) funcSnapshot {
	return funcSnapshot{
		ptr:  reflect.ValueOf(f.Func()).Pointer(),
		in:   fmt.Sprint(f.Input().Values()),
		out:  fmt.Sprint(f.Output().Values()),
		name: f.Name(),
	}
}

// outcomeClass summarizes an outcome for twin comparison.
func outcomeClass(o engine.Outcome) string {
	switch {
	case o.Panic != "":
		return "panic"
	case o.Err == nil:
		return fmt.Sprintf("ok/len=%d", o.Len)
	}
	if fe, ok := o.Err.(*engine.FailErr); ok {
		return fmt.Sprintf("failed-body/f%d", fe.Func)
	}
	if _, ok := engine.IsUnsatisfied(o.Err); ok {
		return "unsatisfied"
	}
	return "error"
}

// canonID maps the serial ids of generator-built converters to one id per
// generator: how many converters a generator has built so far differs between
// worlds that did and did not run Redefine.
func canonID(id int) int {
	if id >= 1000000 {
		return id / 1000000 * 1000000
	}
	return id
}

func executedSet(evs []engine.Event) string {
	m := map[int]bool{}
	for _, e := range evs {
		m[canonID(e.Func)] = true
	}
	var ids []int
	for id := range m {
		ids = append(ids, id)
	}
	sort.Ints(ids)
	return fmt.Sprint(ids)
}

func evalC09(c *engine.Case) engine.Verdict {
	var v engine.Verdict
	var x C09Case
	if err := c.GetX(&x); err != nil {
		v.Failf("bad case: %v", err)
		return v
	}
	sc := c.Sc
	engine.ScenarioClasses(&v, sc)
	// stable outcomes are only promised on well-behaved sets (C05)
	well := engine.SingleInput(sc) || (!engine.DepCyclic(sc, engine.RPlus) && engine.AllConvsSatisfiable(sc, engine.RMinus))
	// unique producer per label => the set of executed functions is determined
	unique := true
	srcs := engine.ProducerLabels(sc)
	// (the converters a generator emits have parameters of their own)
	fs := append(append([]engine.FuncSpec{sc.Target}, sc.Convs...), engine.GeneratedConvs(sc)...)
	for i := range fs {
		for _, p := range fs[i].In {
			if engine.Candidates(p, srcs, engine.RPlus) > 1 {
				unique = false
			}
		}
	}
	if unique {
		v.Class("route-deterministic")
	}
	real, twin := engine.NewWorld(), engine.NewWorld()
	setup := func(w *engine.World) (*argmapper.Func, error) {
		if !x.AllDefaults {
			s2 := *sc
			s2.TargetDefault = x.TargetDefault
			f, _, err := w.Setup(&s2)
			return f, err
		}
		all, err := w.Args(sc)
		if err != nil {
			return nil, err
		}
		tgt := sc.Target
		return w.Realize(&tgt, all...)
	}
	tReal, err := setup(real)
	if err != nil {
		v.Failf("setup: %v", err)
		return v
	}
	tTwin, err := setup(twin)
	if err != nil {
		v.Failf("setup: %v", err)
		return v
	}
	if x.AllDefaults {
		v.Class("all-defaults-zero-option-operations")
	}
	// an older redefined function is called again after later Redefines
	var oldRF *argmapper.Func
	var oldArgs []argmapper.Arg
	oldClass, oldLog, oldStep := "", "", -1
	stepScenario := func(st C09Step) *engine.Scenario {
		if x.AllDefaults {
			return sc
		}
		s2 := *sc
		s2.Inputs = nil
		drop := map[int]bool{}
		for _, d := range st.Drop {
			if len(sc.Inputs) > 0 {
				drop[d%len(sc.Inputs)] = true
			}
		}
		for i, in := range sc.Inputs {
			if !drop[i] {
				s2.Inputs = append(s2.Inputs, in)
			}
		}
		return &s2
	}
	// the premise under which outcomes are stable (C05) must hold for the
	// inputs actually passed in the step: withholding an input can make a
	// multi-input converter unsatisfiable
	wellFor := func(st C09Step) bool {
		s2 := stepScenario(st)
		return engine.SingleInput(s2) || (!engine.DepCyclic(s2, engine.RPlus) && engine.AllConvsSatisfiable(s2, engine.RMinus))
	}
	// route uniqueness too is a property of the inputs a step really passes:
	// withholding an input can un-shadow another one under the same key
	// ("last wins") and give a parameter a second candidate
	uniqueFor := func(st C09Step) bool {
		s2 := stepScenario(st)
		srcs := engine.ProducerLabels(s2)
		fs := append(append([]engine.FuncSpec{s2.Target}, s2.Convs...), engine.GeneratedConvs(s2)...)
		for i := range fs {
			for _, p := range fs[i].In {
				if engine.Candidates(p, srcs, engine.RPlus) > 1 {
					return false
				}
			}
		}
		return true
	}
	uniqueAll := func() bool {
		for _, st := range x.Steps {
			if !uniqueFor(st) {
				return false
			}
		}
		return true
	}
	argsFor := func(w *engine.World, st C09Step) []argmapper.Arg {
		if x.AllDefaults {
			return nil
		}
		s2 := stepScenario(st)
		a, err := w.Args(s2)
		if err != nil {
			panic(err)
		}
		return a
	}
	snaps := map[int]funcSnapshot{}
	for id, f := range real.Funcs {
		snaps[id] = snap(f)
	}
	onceIDs := []int{}
	for i := range sc.Convs {
		if sc.Convs[i].Once {
			onceIDs = append(onceIDs, sc.Convs[i].ID)
		}
	}
	redefWalkedConv, callAfter, onceUsedAfterRedefine := false, false, false
	// diverged: a step called the redefined function and the twin could not
	// mirror that call exactly (its own planning picked another equal-cost
	// input set); from then on memoization state may legitimately differ and
	// twin comparisons are off (the Redefine-side invariants stay on).
	diverged := false
	sawRedefine := false
	for si, st := range x.Steps {
		switch st.Op {
		case "redefine":
			sawRedefine = true
			args := argsFor(real, st)
			if st.HasF && !x.AllDefaults {
				args = append(args, argmapper.FilterInput(typeFilter(st.Filter)))
			}
			before := map[int]int{}
			for id, n := range real.Execs {
				before[id] = n
			}
			nEv := real.NumEvents()
			var rf *argmapper.Func
			var rerr error
			var o engine.Outcome
			engine.Protect(&o, func() { rf, rerr = tReal.Redefine(args...) })
			if o.Panic != "" {
				v.Class("panic")
				return v
			}
			if real.NumEvents() != nEv {
				evs := real.EventsSince(nEv)
				v.Failf("step %d: Redefine executed user code: f%d ran (%d body executions)", si, evs[0].Func, len(evs))
				return v
			}
			for id, n := range real.Execs {
				if before[id] != n {
					v.Failf("step %d: execution count of f%d changed during Redefine", si, id)
					return v
				}
			}
			for id, f := range real.Funcs {
				old, known := snaps[id]
				if !known {
					// a converter a generator built during this planning run
					snaps[id] = snap(f)
					continue
				}
				if s := snap(f); s != old {
					v.Failf("step %d: Func f%d changed after Redefine: %+v -> %+v", si, id, old, s)
					return v
				}
			}
			if rerr == nil && rf != nil {
				// did planning have to traverse a converter?
				need := false
				for _, iv := range rf.Input().Values() {
					isParam := false
					for _, p := range sc.Target.In {
						if p.Name == iv.Name && engine.Types[p.Type] == iv.Type {
							isParam = true
						}
					}
					if !isParam {
						need = true
					}
				}
				if need {
					redefWalkedConv = true
				}
				if st.CallRF {
					// the redefined function is a real call: mirror it in the twin
					// by redefining there too (the twin's Redefine is not under test)
					var callArgs []argmapper.Arg
					tok := 700 + si*10
					var freshIns []engine.Input
					for _, iv := range rf.Input().Values() {
						ti := engine.TypeIdx(iv.Type)
						if ti < 0 || engine.IsIface(ti) {
							continue
						}
						tok++
						in := engine.Input{L: engine.Label{Name: iv.Name, Type: ti, Sub: iv.Subtype, Dyn: ti}, Tok: tok}
						real.RegisterInput(in)
						twin.RegisterInput(in)
						freshIns = append(freshIns, in)
						callArgs = append(callArgs, engine.InputArg(in))
					}
					for t2 := 700 + si*10 + 1; t2 <= tok; t2++ {
						real.AddAltLabels(t2, rf)
					}
					callArgs = append(callArgs, engine.Quiet())
					or := real.Call(rf, callArgs)
					if or.Panic != "" {
						v.Class("panic")
						return v
					}
					targs := argsFor(twin, st)
					if st.HasF && !x.AllDefaults {
						targs = append(targs, argmapper.FilterInput(typeFilter(st.Filter)))
					}
					if oldRF == nil && or.Panic == "" {
						// remember this redefined function and what its first call did
						oldRF, oldArgs, oldStep = rf, callArgs, si
						oldClass, oldLog = outcomeClass(or), executedSet(or.Events)
					}
					trf, terr := tTwin.Redefine(targs...)
					if terr != nil || fmt.Sprint(rf.Input().Values()) != fmt.Sprint(trf.Input().Values()) {
						diverged = true
					} else {
						ot := twin.Call(trf, callArgs)
						// the premise under which outcomes are stable is judged on
						// what the INNER call sees: the step's arguments plus the
						// values handed to the redefined function
						inner := *stepScenario(st)
						inner.Inputs = append(append([]engine.Input(nil), inner.Inputs...), freshIns...)
						wellInner := engine.SingleInput(&inner) || (!engine.DepCyclic(&inner, engine.RPlus) && engine.AllConvsSatisfiable(&inner, engine.RMinus))
						if wellFor(st) && wellInner && !diverged && !hasFailing(sc) && outcomeClass(or) != outcomeClass(ot) {
							v.Failf("step %d: redefined call outcome %s, twin %s", si, outcomeClass(or), outcomeClass(ot))
							return v
						}
						if executedSet(or.Events) != executedSet(ot.Events) {
							diverged = true
						}
					}
				}
			}
		case "call", "convert":
			ar, at := argsFor(real, st), argsFor(twin, st)
			var or, ot engine.Outcome
			if st.Op == "call" {
				or, ot = real.Call(tReal, ar), twin.Call(tTwin, at)
			} else {
				typ := sc.Target.In[0].Type
				or, ot = real.Convert(typ, ar), twin.Convert(typ, at)
			}
			if or.Panic != "" || ot.Panic != "" {
				v.Class("panic")
				return v
			}
			if sawRedefine {
				callAfter = true
				for _, ev := range or.Events {
					for _, id := range onceIDs {
						if ev.Func == id {
							onceUsedAfterRedefine = true
						}
					}
				}
			}
			uniqueHere := unique && uniqueFor(st)
			if st.Op == "convert" {
				// Convert's implicit type-only parameter must have a unique source too
				t := sc.Target.In[0].Type
				if engine.Candidates(engine.Label{Type: t, Dyn: t}, srcs, engine.RPlus) > 1 {
					uniqueHere = false
				}
			}
			wellStep := wellFor(st)
			if !wellStep {
				// tie-dependent outcomes are legitimate here; the worlds may
				// execute (and memoize) different converters
				if executedSet(or.Events) != executedSet(ot.Events) || outcomeClass(or) != outcomeClass(ot) {
					diverged = true
				}
			}
			if wellStep && !diverged && !hasFailing(sc) {
				if a, b := outcomeClass(or), outcomeClass(ot); a != b {
					v.Failf("step %d (%s): outcome %s in the world that saw Redefine, %s in the twin that did not", si, st.Op, a, b)
					return v
				}
				// what ran before a failure was detected depends on map order:
				// executed sets are comparable for successful operations only
				if uniqueHere && or.Err == nil && ot.Err == nil {
					if a, b := executedSet(or.Events), executedSet(ot.Events); a != b {
						v.Failf("step %d (%s): functions executed %s, twin %s", si, st.Op, a, b)
						return v
					}
					// how OFTEN an ordinary converter runs within one call depends
					// on the order in which the paths are walked (a value that is
					// already there is not produced again, a path planned through
					// the converter runs it again): compare the logs as sets
					if a, b := normalizeSet(real, or.Events), normalizeSet(twin, ot.Events); a != b {
						v.Failf("step %d (%s): event log differs from the twin:\n real: %s\n twin: %s", si, st.Op, a, b)
						return v
					}
				}
			}
			if msg := engine.CheckBindings(real, or.Events); msg != "" {
				v.Failf("step %d: %s", si, msg)
				return v
			}
			if !uniqueHere || or.Err != nil || ot.Err != nil {
				// the two worlds may have executed (and memoized) different
				// run-once converters from here on
				if executedSet(or.Events) != executedSet(ot.Events) {
					diverged = true
				}
			}
		}
		if oldRF != nil && st.Op == "redefine" && si > oldStep {
			// Redefine must not disturb a function it returned EARLIER: called
			// again with the same arguments it behaves as it did the first time
			// (compared where behaviour is a function of the call alone: no
			// run-once functions, no failing ones, unique routes)
			o2 := real.Call(oldRF, oldArgs)
			if o2.Panic != "" {
				v.Failf("step %d: an earlier redefined function panicked when called again: %s", si, o2.Panic)
				return v
			}
			if msg := engine.CheckBindings(real, o2.Events); msg != "" {
				v.Failf("step %d (earlier redefined function called again): %s", si, msg)
				return v
			}
			if unique && uniqueFor(x.Steps[oldStep]) && len(onceIDs) == 0 && !hasFailing(sc) && wellFor(x.Steps[oldStep]) {
				if a := outcomeClass(o2); a != oldClass {
					v.Failf("step %d: the function returned by the Redefine of step %d now gives outcome %s, its first call gave %s", si, oldStep, a, oldClass)
					return v
				}
				// (the fresh values handed to the redefined function compete with
				// what the converters can produce -- a parameter may be fed by
				// either, and which functions run is then a tie: only the outcome
				// class is compared, neither provenance nor the executed set)
				_ = oldLog
				v.Class("earlier-redefined-function-recalled")
			}
			diverged = true // the twin does not mirror this extra call
		}
		// run-once converters: never more than one execution; equal to the twin's
		for _, id := range onceIDs {
			if real.Execs[id] > 1 {
				v.Failf("step %d: run-once converter f%d executed %d times", si, id, real.Execs[id])
				return v
			}
			if well && unique && uniqueAll() && !diverged && !hasFailing(sc) && real.Execs[id] != twin.Execs[id] {
				v.Failf("step %d: run-once converter f%d executed %d time(s), in the twin without Redefine %d", si, id, real.Execs[id], twin.Execs[id])
				return v
			}
		}
	}
	if redefWalkedConv {
		v.Class("redefine-planned-through-converter")
	}
	if callAfter {
		v.Class("call-after-redefine")
	}
	if onceUsedAfterRedefine {
		v.Class("once-converter-first-used-after-redefine")
	}
	if well {
		v.Class("well-behaved")
	}
	if hasFailing(sc) {
		v.Class("has-failing-converter")
	}
	if diverged {
		v.Class("twin-diverged-after-redefined-call")
	}
	v.NonTrivial = redefWalkedConv && callAfter
	return v
}

func genC09(g engine.G) *engine.Case {
	o := engine.DefaultFuncOpts()
	o.AllowOnce = true
	o.FailP = 0
	if g.Pct(25) {
		// failing (and memoized failing) converters; twin comparisons are
		// off for these scenarios, the Redefine-side invariants stay on
		o.ErrP, o.FailP = 60, 35
	}
	var sc *engine.Scenario
	pal := engine.GenPalette(g, g.Pct(30), g.Pct(40))
	b := engine.NewBuilder(g, pal, o)
	b.Sc.Target = engine.GenTarget(g, pal, 3, o)
	maxIn := 1
	if g.Pct(35) {
		maxIn = 2
	}
	for _, p := range b.Sc.Target.In {
		b.Produce(p, g.Int(1, 3), maxIn)
	}
	if g.Pct(30) {
		b.AddReverse(40)
	}
	sc = b.Sc
	if g.Pct(25) {
		// converter generators: the generator function itself is user code
		// that planning may call, but a converter it returns must not be
		// executed by Redefine any more than a supplied one
		sc.Gens = engine.GenGens(g, pal, false)
	}
	// more run-once converters than usual
	for i := range sc.Convs {
		if g.Pct(35) {
			sc.Convs[i].Once = true
		}
	}
	var x C09Case
	n := g.Int(2, 10)
	leafTypes := []int{}
	for _, in := range sc.Inputs {
		leafTypes = append(leafTypes, in.L.Type)
	}
	for i := 0; i < n; i++ {
		st := C09Step{Op: engine.Pick(g, []string{"redefine", "redefine", "call", "call", "convert"})}
		if i == 0 {
			st.Op = "redefine"
		}
		if st.Op == "convert" && (len(sc.Target.In) == 0) {
			st.Op = "call"
		}
		if g.Pct(50) {
			for k, m := 0, g.Int(1, 2); k < m; k++ {
				st.Drop = append(st.Drop, g.Int(0, 5))
			}
		}
		if st.Op == "redefine" {
			if len(st.Drop) == 0 && g.Pct(70) {
				st.Drop = []int{g.Int(0, 5)}
			}
			if g.Pct(60) {
				st.HasF = true
				st.Filter = uniqInts(append([]int(nil), leafTypes...))
				if g.Pct(30) {
					st.Filter = uniqInts(append(st.Filter, g.Int(0, 5)))
				}
			}
			st.CallRF = g.Pct(40)
		}
		x.Steps = append(x.Steps, st)
	}
	x.AllDefaults = g.Pct(15)
	x.TargetDefault = g.Pct(50)
	c := &engine.Case{Sc: sc}
	c.SetX(&x)
	return c
}

func TestC09(t *testing.T) { runProp(t, "C09", genC09) }
