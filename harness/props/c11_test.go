package props

import (
	"fmt"
	"runtime"
	"strings"
	"sync"
	"sync/atomic"
	"testing"
	"time"

	"github.com/hashicorp/go-argmapper"
	"github.com/hashicorp/go-argmapper/verifharness/engine"
)

func init() {
	evaluators["C11"] = evalC11
	evaluators["C12"] = evalC12
}

// C11Step: one step of a run-once history.
type C11Step struct {
	Op   string `json:"op"`   // call | redefine | burst
	K    int    `json:"k"`    // burst: number of goroutines
	Drop []int  `json:"drop"` // inputs withheld
}

type C11Case struct {
	Steps   []C11Step `json:"steps"`
	YieldUS int       `json:"yieldUs"` // sleep inside run-once bodies (widens the window)
}

func evalC11(c *engine.Case) engine.Verdict {
	var v engine.Verdict
	var x C11Case
	if err := c.GetX(&x); err != nil {
		v.Failf("bad case: %v", err)
		return v
	}
	sc := c.Sc
	engine.ScenarioClasses(&v, sc)
	w := engine.NewWorld()
	w.BodyHook = func(fs *engine.FuncSpec) {
		if fs.Once {
			runtime.Gosched()
			if x.YieldUS > 0 {
				time.Sleep(time.Duration(x.YieldUS) * time.Microsecond)
			}
		}
	}
	target, _, err := w.Setup(sc)
	if err != nil {
		v.Failf("setup: %v", err)
		return v
	}
	onceIDs := map[int]bool{}
	for i := range sc.Convs {
		if sc.Convs[i].Once {
			onceIDs[sc.Convs[i].ID] = true
		}
	}
	if sc.Target.Once {
		onceIDs[engine.TargetID] = true
		v.Class("run-once-target")
		if len(sc.Target.Out) == 0 {
			v.Class("run-once-target-without-results")
		}
	}
	targetUses := 0
	var stepSc *engine.Scenario // the scenario of the current step (inputs after drops)
	argsFor := func(st C11Step) []argmapper.Arg {
		s2 := *sc
		stepSc = &s2
		s2.Inputs = nil
		drop := map[int]bool{}
		for _, d := range st.Drop {
			if len(sc.Inputs) > 0 {
				drop[d%len(sc.Inputs)] = true
			}
		}
		for i, in := range sc.Inputs {
			if !drop[i] {
				s2.Inputs = append(s2.Inputs, in)
			}
		}
		a, err := w.Args(&s2)
		if err != nil {
			panic(err)
		}
		return a
	}
	needs := 0 // how often the once function's outputs were consumed / it was executed
	failedErr := map[int]error{}
	check := func(si int, outs []engine.Outcome) bool {
		evs := w.EventsSince(0)
		count := map[int]int{}
		for _, ev := range evs {
			if onceIDs[ev.Func] {
				count[ev.Func]++
				if ev.Err != nil {
					failedErr[ev.Func] = ev.Err
				}
			}
		}
		for id, n := range count {
			if n > 1 {
				v.Failf("step %d: run-once function f%d executed %d times", si, id, n)
				return false
			}
		}
		for _, ev := range evs {
			for _, a := range ev.Args {
				if msg := engine.CheckBinding(w, ev.Func, a); msg != "" {
					v.Failf("step %d: %s", si, msg)
					return false
				}
				if org, ok := w.Origin(a.Tok); ok && !org.Input && onceIDs[org.Func] {
					if org.Exec != 1 {
						v.Failf("step %d: f%d received a value from execution #%d of run-once function f%d", si, ev.Func, org.Exec, org.Func)
						return false
					}
				}
			}
		}
		if msg := engine.ConsumedFromFailedExec(w, evs); msg != "" {
			v.Failf("step %d: %s (a failed first execution must be what every later use observes)", si, msg)
			return false
		}
		for _, o := range outs {
			if o.Panic != "" {
				v.Failf("step %d: panic: %s", si, o.Panic)
				return false
			}
			if want := failedErr[engine.TargetID]; sc.Target.Once && want != nil && o.Err != want {
				// resolution errors and failures of converters on the way are
				// fine; success, or another error object of the target, is not
				fe, isBody := o.Err.(*engine.FailErr)
				if o.Err == nil || (isBody && fe.Func == engine.TargetID) {
					v.Failf("step %d: the run-once target failed on its first execution, but a later use returned %v instead of that error", si, o.Err)
					return false
				}
			}
			if sc.Target.Once && o.Err == nil {
				// every successful use of a run-once target observes the
				// outputs of its first execution
				targetUses++
				var first *engine.Event
				for i := range evs {
					if evs[i].Func == engine.TargetID && first == nil {
						first = &evs[i]
					}
				}
				if first == nil {
					v.Failf("step %d: a call of the run-once target succeeded but its body never ran", si)
					return false
				}
				if len(o.Outs) != len(first.Outs) {
					v.Failf("step %d: run-once target returned %d values, its first execution returned %d", si, len(o.Outs), len(first.Outs))
					return false
				}
				for i := range o.Outs {
					if o.Outs[i].Tok != first.Outs[i] {
						v.Failf("step %d: run-once target returned #%d, its first execution returned #%d", si, o.Outs[i].Tok, first.Outs[i])
						return false
					}
				}
			}
			if fe, ok := o.Err.(*engine.FailErr); ok && onceIDs[fe.Func] {
				if want := failedErr[fe.Func]; want != nil && o.Err != want {
					v.Failf("step %d: a use of failed run-once function f%d returned a different error object than its first execution", si, fe.Func)
					return false
				}
			}
			for _, ev := range o.Events {
				for _, a := range ev.Args {
					if org, ok := w.Origin(a.Tok); ok && !org.Input && onceIDs[org.Func] {
						needs++
					}
				}
				if onceIDs[ev.Func] {
					needs++
				}
			}
		}
		return true
	}
	bursts := 0
	for si, st := range x.Steps {
		args := argsFor(st)
		switch st.Op {
		case "call":
			o := w.Call(target, args)
			if !check(si, []engine.Outcome{o}) {
				return v
			}
			// C02 holds for run-once targets too: a call whose arguments
			// cannot be derived is refused, whatever an earlier call memoized
			// (a run-once converter that has already run still needs its
			// inputs: the library itself refuses the call when NONE of them is
			// there; with only some of them missing it used to answer from the
			// memo -- defect D43)
			underivable := !engine.Analyze(stepSc, engine.RPlus).Derivable
			if o.Err == nil && o.Panic == "" && underivable {
				v.Failf("step %d: the call succeeded although a parameter of the target cannot be derived from what this call was given (the target's own memoized result?)", si)
				return v
			}
			if sc.Target.Once && underivable {
				v.Class("underivable-call-on-run-once-target")
			}
		case "redefine":
			before := w.NumEvents()
			var o engine.Outcome
			engine.Protect(&o, func() { target.Redefine(args...) })
			if o.Panic != "" {
				v.Class("panic")
				return v
			}
			if w.NumEvents() != before {
				v.Failf("step %d: Redefine executed a function body", si)
				return v
			}
		case "burst":
			bursts++
			k := st.K
			outs := make([]engine.Outcome, k)
			var wg sync.WaitGroup
			start := make(chan struct{})
			for i := 0; i < k; i++ {
				wg.Add(1)
				go func(i int) {
					defer wg.Done()
					<-start
					outs[i] = w.Call(target, args)
				}(i)
			}
			close(start)
			if msg := waitOrDeadlock(&wg, "evalC11"); msg != "" {
				v.Failf("step %d: %s", si, msg)
				return v
			}
			// per-goroutine events cannot be attributed; the global log is checked
			for i := range outs {
				outs[i].Events = nil
			}
			if !check(si, outs) {
				return v
			}
			needs += k - 1
		}
	}
	if msg := w.RetainedMismatch(); msg != "" {
		v.Failf("%s", msg)
		return v
	}
	if bursts > 0 {
		v.Class("has-burst")
	}
	executed := 0
	for id := range onceIDs {
		if w.Execs[id] > 0 {
			executed++
		}
	}
	if executed > 0 {
		v.Class("once-function-executed")
	}
	if len(failedErr) > 0 {
		v.Class("once-function-failed")
	}
	v.Class(fmt.Sprintf("steps=%d", min(len(x.Steps)/2*2, 8)))
	v.NonTrivial = executed > 0 && (needs >= 2 || targetUses >= 2)
	if v.NonTrivial {
		v.Class("once-needed>=2")
	}
	return v
}

func genC11(g engine.G) *engine.Case {
	o := engine.DefaultFuncOpts()
	o.AllowBuilt = false
	o.ErrP = 40
	o.FailP = 8
	pal := engine.GenPalette(g, g.Pct(30), g.Pct(40))
	b := engine.NewBuilder(g, pal, o)
	o.MinOut = 0
	b.Sc.Target = engine.GenTarget(g, pal, 3, o)
	b.Sc.Target.Built = false
	o.MinOut = 1
	b.Opts = o
	for _, p := range b.Sc.Target.In {
		b.Produce(p, g.Int(1, 3), 2)
	}
	sc := b.Sc
	for i := range sc.Convs {
		sc.Convs[i].Built = false
		sc.Convs[i].Once = false
	}
	if g.Pct(30) {
		// the run-once function is the target itself (results positional so
		// that returned tokens are comparable; possibly no results at all)
		sc.Target.Once = true
		if g.Pct(30) {
			sc.Target.HasErr, sc.Target.Fail = true, true
		}
		sc.Target.OutForm = engine.FormPos
		for i := range sc.Target.Out {
			sc.Target.Out[i].Name, sc.Target.Out[i].Sub, sc.Target.Out[i].Tag = "", "", false
		}
		if g.Pct(40) {
			sc.Target.Out = nil
		}
	}
	// 1-2 run-once converters at random chain positions
	if len(sc.Convs) > 0 {
		for k, n := 0, g.Int(1, 2); k < n; k++ {
			i := g.Int(0, len(sc.Convs)-1)
			sc.Convs[i].Once = true
			if sc.Convs[i].OutForm != engine.FormPos && g.Pct(40) {
				sc.Convs[i].OutForm = engine.FormPtr // cached pointer results
			}
		}
	}
	var x C11Case
	x.YieldUS = engine.Pick(g, []int{0, 0, 20, 100, 200})
	n := g.Int(1, 6)
	for i := 0; i < n; i++ {
		st := C11Step{Op: engine.Pick(g, []string{"call", "call", "redefine", "burst", "burst"})}
		if st.Op == "burst" {
			st.K = g.Int(2, 8)
		}
		if g.Pct(25) {
			st.Drop = []int{g.Int(0, 5)}
		}
		x.Steps = append(x.Steps, st)
	}
	if g.Pct(60) {
		// first use of the run-once function happens inside a burst
		x.Steps[0] = C11Step{Op: "burst", K: g.Int(2, 8)}
	}
	c := &engine.Case{Sc: sc}
	c.SetX(&x)
	return c
}

func TestC11(t *testing.T) { runProp(t, "C11", genC11) }

// ---------------------------------------------------------------------------

// C12Case: goroutines sharing target, converters and one option slice.
type C12Case struct {
	Ops      [][]string `json:"ops"`      // per goroutine: call | convert | redefcall
	Defaults int        `json:"defaults"` // the first Defaults inputs are NewFunc defaults of the target
	// Yield: every function body yields the processor (and, for values > 1,
	// sleeps that many microseconds on every other execution) to vary the
	// interleaving of the library's own steps between goroutines.
	Yield int `json:"yield,omitempty"`
}

func evalC12(c *engine.Case) engine.Verdict {
	var v engine.Verdict
	var x C12Case
	if err := c.GetX(&x); err != nil {
		v.Failf("bad case: %v", err)
		return v
	}
	sc := c.Sc
	engine.ScenarioClasses(&v, sc)
	well := engine.SingleInput(sc) || (!engine.DepCyclic(sc, engine.RPlus) && engine.AllConvsSatisfiable(sc, engine.RMinus))
	// number of supplied values among the call-time options (they come first)
	nWithheld := len(sc.Inputs) - x.Defaults
	if x.Defaults > len(sc.Inputs) {
		nWithheld = 0
	}
	if sc.JoinTyped {
		nWithheld = 0
	}
	wantShared := false
	for _, ops := range x.Ops {
		for _, op := range ops {
			wantShared = wantShared || op == "sharedrf"
		}
	}
	// one redefined function per world, made before the goroutines start and
	// CALLED by all of them (op "sharedrf"), each with a value of its own
	sharedRF := map[*engine.World]*argmapper.Func{}
	build := func() (*engine.World, *argmapper.Func, []argmapper.Arg) {
		w := engine.NewWorld()
		if x.Yield > 0 {
			var n int64
			w.BodyHook = func(fs *engine.FuncSpec) {
				runtime.Gosched()
				if x.Yield > 1 && atomic.AddInt64(&n, 1)%2 == 0 {
					time.Sleep(time.Duration(x.Yield) * time.Microsecond)
				}
			}
		}
		nd := x.Defaults
		if nd > len(sc.Inputs) {
			nd = len(sc.Inputs)
		}
		var dargs []argmapper.Arg
		for _, in := range sc.Inputs[:nd] {
			dargs = append(dargs, engine.InputArg(in))
		}
		tgt := sc.Target
		f, err := w.Realize(&tgt, dargs...)
		if err != nil {
			panic(err)
		}
		args, err := w.Args(sc) // registers all inputs in the ledger, realizes converters
		if err != nil {
			panic(err)
		}
		// drop the options that are defaults (they stay in the ledger); the
		// shared slice gets spare capacity on purpose
		shared := make([]argmapper.Arg, 0, len(args)+8)
		shared = append(shared, args[nd:]...)
		if wantShared && nWithheld > 0 {
			var o engine.Outcome
			engine.Protect(&o, func() {
				if rf, rerr := f.Redefine(shared[1:]...); rerr == nil {
					sharedRF[w] = rf
				}
			})
		}
		return w, f, shared
	}
	typ := sc.Target.In[0].Type
	ownTok := func(tag int) int { return 10000 + tag }
	// op "nilptr": a shared converter whose result is a POINTER to a result
	// struct and which returns nil (the library substitutes the zero struct),
	// used for the first time by several goroutines at once; outside the token
	// world, judged by the race detector and by "succeeds, no panic"
	type nilOut struct {
		argmapper.Struct
		X engine.T1
	}
	nilConv := map[*engine.World]*argmapper.Func{}
	nilTarget := map[*engine.World]*argmapper.Func{}
	mkNil := func(w *engine.World) {
		c, err1 := argmapper.NewFunc(func(engine.T0) *nilOut { return nil })
		t, err2 := argmapper.NewFunc(func(in struct {
			argmapper.Struct
			X engine.T1
		}) int {
			return in.X.K
		})
		if err1 == nil && err2 == nil {
			nilConv[w], nilTarget[w] = c, t
		}
	}
	doOp := func(w *engine.World, f *argmapper.Func, args []argmapper.Arg, op string, tag int) string {
		switch op {
		case "call":
			return outcomeClass(w.Call(f, args))
		case "convert":
			return outcomeClass(w.Convert(typ, args))
		case "nilptr":
			if nilTarget[w] == nil {
				return "nilptr:none"
			}
			var o engine.Outcome
			var res argmapper.Result
			engine.Protect(&o, func() {
				res = nilTarget[w].Call(argmapper.Named("x0", engine.T0{K: tag}), argmapper.ConverterFunc(nilConv[w]), engine.Quiet())
			})
			if o.Panic != "" {
				return "panic"
			}
			if res.Err() != nil || res.Out(0).(int) != 0 {
				return "nilptr:wrong"
			}
			return "nilptr:ok"
		case "sharedrf":
			rf := sharedRF[w]
			if rf == nil {
				return outcomeClass(w.Call(f, args))
			}
			nd := x.Defaults
			if nd > len(sc.Inputs) {
				nd = len(sc.Inputs)
			}
			own := sc.Inputs[nd]
			own.Tok = ownTok(tag)
			w.RegisterInput(own)
			w.AddAltLabels(own.Tok, rf)
			return "rf:" + outcomeClass(w.Call(rf, []argmapper.Arg{engine.InputArg(own), engine.Quiet()}))
		default:
			var rf *argmapper.Func
			var rerr error
			var o engine.Outcome
			// Redefine with the first call-time input withheld (so that the
			// redefined function has an input of its own) and hand that value
			// to the redefined function instead. The option slice passed to
			// Redefine is the shared one (spare capacity, passed as is): a
			// redefined function that appended its per-call values to it would
			// write into memory other goroutines read.
			rargs, extra := args, []argmapper.Arg(nil)
			if nWithheld > 0 {
				rargs, extra = args[1:], args[:1]
			}
			engine.Protect(&o, func() { rf, rerr = f.Redefine(rargs...) })
			if o.Panic != "" {
				return "redefine-panic"
			}
			if rerr != nil {
				// Whether planning succeeds can itself depend on an equal-cost
				// tie (a plan needing one name under two types is refused), so
				// an error is an outcome a sequential execution can return too.
				return "redefined"
			}
			// Which inputs planning picks depends on equal-cost ties, so the
			// shape of rf (and hence the outcome of calling it without
			// arguments) is not a function of the call alone: every variant
			// is an outcome a sequential execution can return. Only the
			// success of Redefine and the absence of a panic are compared.
			if len(extra) > 0 {
				nd := x.Defaults
				if nd > len(sc.Inputs) {
					nd = len(sc.Inputs)
				}
				w.AddAltLabels(sc.Inputs[nd].Tok, rf)
			}
			if o2 := w.Call(rf, append(append([]argmapper.Arg(nil), extra...), engine.Quiet())); o2.Panic != "" {
				return "panic"
			}
			return "redefined"
		}
	}
	// sequential twin first
	tw, tf, targs := build()
	mkNil(tw)
	want := make([][]string, len(x.Ops))
	for gi, ops := range x.Ops {
		for oi, op := range ops {
			want[gi] = append(want[gi], doOp(tw, tf, targs, op, gi*100+oi))
		}
	}
	// concurrent world
	w, f, args := build()
	mkNil(w)
	got := make([][]string, len(x.Ops))
	var wg sync.WaitGroup
	start := make(chan struct{})
	for gi, ops := range x.Ops {
		wg.Add(1)
		go func(gi int, ops []string) {
			defer wg.Done()
			<-start
			for oi, op := range ops {
				got[gi] = append(got[gi], doOp(w, f, args, op, gi*100+oi))
			}
		}(gi, ops)
	}
	close(start)
	if msg := waitOrDeadlock(&wg, "evalC12"); msg != "" {
		v.Failf("%s", msg)
		return v
	}
	evs := w.EventsSince(0)
	if msg := engine.CheckBindings(w, evs); msg != "" {
		v.Failf("concurrent world: %s", msg)
		return v
	}
	if msg := w.RetainedMismatch(); msg != "" {
		v.Failf("concurrent world: %s", msg)
		return v
	}
	shared := engine.ConvExecs(evs) > 0
	if rf := sharedRF[w]; rf != nil {
		v.Class("one-redefined-function-called-by-several-goroutines")
		// every goroutine handed the shared redefined function a value of its
		// own: where the route is determined by the call alone, either every
		// such call used its value or none did -- a call that ran with another
		// goroutine's value shows up as one value used twice and one not at all
		// (the goroutine's own value reaches the inner call next to what
		// Redefine was given, never in the same option list: no supplied value
		// shadows another one here, all of them count as candidates)
		unique := true
		var srcs []engine.Label
		for i := range sc.Convs {
			srcs = append(srcs, sc.Convs[i].Out...)
		}
		for _, gc := range engine.GeneratedConvs(sc) {
			srcs = append(srcs, gc.Out...)
		}
		for _, in := range sc.Inputs {
			l := in.L
			l.Dyn = l.Type
			srcs = append(srcs, l)
		}
		fs := append(append([]engine.FuncSpec{sc.Target}, sc.Convs...), engine.GeneratedConvs(sc)...)
		for i := range fs {
			for _, p := range fs[i].In {
				if engine.Candidates(p, srcs, engine.RPlus) > 1 {
					unique = false
				}
			}
		}
		if unique && well && !hasFailing(sc) {
			uses := map[int]int{}
			for _, ev := range evs {
				for _, a := range ev.Args {
					if a.Tok >= 10000 {
						uses[a.Tok]++
					}
				}
			}
			first, have := 0, false
			for gi, ops := range x.Ops {
				for oi, op := range ops {
					if op != "sharedrf" || !strings.HasPrefix(got[gi][oi], "rf:ok") {
						continue
					}
					// (used or not -- how OFTEN a converter runs within one call
					// depends on the order in which the paths are walked, §11.3/8)
					n := 0
					if uses[ownTok(gi*100+oi)] > 0 {
						n = 1
					}
					if !have {
						first, have = n, true
					} else if n != first {
						v.Failf("goroutine %d op %d: the value handed to the shared redefined function was received by %d function(s), another goroutine's value by %d -- calls ran with each other's arguments", gi, oi, uses[ownTok(gi*100+oi)], first)
						return v
					}
				}
			}
			if have {
				v.Class("shared-redefined-function-route-determined")
			}
		}
	}
	rfFirst := ""
	nilOps := 0
	for gi := range got {
		for oi := range got[gi] {
			if got[gi][oi] == "nilptr:wrong" {
				v.Failf("goroutine %d op %d: the call through the shared converter that returns a nil result pointer failed or delivered a non-zero value", gi, oi)
				return v
			}
			if got[gi][oi] == "nilptr:ok" {
				nilOps++
			}
			if got[gi][oi] == "panic" || got[gi][oi] == "redefine-panic" || got[gi][oi] == "rf:panic" {
				v.Failf("goroutine %d op %d (%s) panicked", gi, oi, x.Ops[gi][oi])
				return v
			}
			wellOp := well
			if x.Ops[gi][oi] == "convert" && wellOp {
				// Convert does not see the inputs that are default options of
				// the target Func: judge the premise on what it really gets
				nd := x.Defaults
				if nd > len(sc.Inputs) {
					nd = len(sc.Inputs)
				}
				s2 := *sc
				s2.Inputs = sc.Inputs[nd:]
				wellOp = engine.SingleInput(&s2) || (!engine.DepCyclic(&s2, engine.RPlus) && engine.AllConvsSatisfiable(&s2, engine.RMinus))
			}
			if x.Ops[gi][oi] == "sharedrf" && sharedRF[w] != nil {
				// the twin world made a redefined function of its own, whose
				// inputs depend on equal-cost ties at planning time: calls of
				// the SAME redefined function are compared with each other
				if wellOp && !hasFailing(sc) {
					if rfFirst == "" {
						rfFirst = got[gi][oi]
					} else if got[gi][oi] != rfFirst {
						v.Failf("goroutine %d op %d: the shared redefined function gave outcome %q, the same call in another goroutine %q", gi, oi, got[gi][oi], rfFirst)
						return v
					}
				}
				continue
			}
			if wellOp && !hasFailing(sc) && got[gi][oi] != want[gi][oi] {
				v.Failf("goroutine %d op %d (%s): outcome %q, sequential execution gives %q", gi, oi, x.Ops[gi][oi], got[gi][oi], want[gi][oi])
				return v
			}
		}
	}
	if well {
		v.Class("well-behaved")
	}
	if nilOps >= 2 {
		v.Class("shared-converter-returning-a-nil-result-pointer")
	}
	if shared {
		v.Class("shared-converter-executed")
	}
	if x.Defaults > 0 {
		v.Class("default-options-on-func")
	}
	if sc.RawConverters {
		v.Class("shared-raw-Converter-option")
	}
	v.Class(fmt.Sprintf("goroutines=%d", len(x.Ops)))
	v.NonTrivial = len(x.Ops) >= 2 && shared
	return v
}

func genC12(g engine.G) *engine.Case {
	o := engine.DefaultFuncOpts()
	o.AllowBuilt = false
	o.AllowOnce = false
	o.FailP = 0
	pal := engine.GenPalette(g, g.Pct(30), true)
	pal.Subs, pal.SubP = engine.AllSubs, 40
	b := engine.NewBuilder(g, pal, o)
	b.Sc.Target = engine.GenTarget(g, pal, 3, o)
	b.Sc.Target.Built = false
	maxIn := 1
	if g.Pct(40) {
		maxIn = 2
	}
	for _, p := range b.Sc.Target.In {
		b.Produce(p, g.Int(0, 3), maxIn)
	}
	if g.Pct(30) {
		b.AddReverse(40)
	}
	if g.Pct(40) {
		b.Distract(2, 1)
	}
	sc := b.Sc
	for i := range sc.Convs {
		sc.Convs[i].Built, sc.Convs[i].Once = false, false
	}
	var x C12Case
	ng := g.Int(2, 8)
	for i := 0; i < ng; i++ {
		var ops []string
		for k, n := 0, g.Int(1, 5); k < n; k++ {
			ops = append(ops, engine.Pick(g, []string{"call", "call", "call", "call", "convert", "redefcall", "sharedrf", "nilptr"}))
		}
		x.Ops = append(x.Ops, ops)
	}
	if g.Pct(50) {
		x.Defaults = g.Int(1, 3)
	}
	x.Yield = engine.Pick(g, []int{0, 1, 1, 20, 100})
	sc.RawConverters = g.Pct(50)
	c := &engine.Case{Sc: sc}
	c.SetX(&x)
	return c
}

func TestC12(t *testing.T) { runProp(t, "C12", genC12) }

// waitOrDeadlock waits for the worker goroutines of a concurrent case. The
// operations take microseconds; if the workers have not finished after several
// seconds, the goroutine dump decides: when EVERY unfinished worker (a
// goroutine with a frame of the evaluator named by marker) is blocked
// acquiring a mutex inside the library, none of them can ever release one --
// a deadlock, reported as such. Anything else (a slow, busy machine) keeps
// waiting; a wall-clock limit alone is never taken for a verdict.
func waitOrDeadlock(wg *sync.WaitGroup, marker string) string {
	done := make(chan struct{})
	go func() { wg.Wait(); close(done) }()
	for {
		select {
		case <-done:
			return ""
		case <-time.After(6 * time.Second):
		}
		buf := make([]byte, 4<<20)
		dump := string(buf[:runtime.Stack(buf, true)])
		workers, stuck := 0, 0
		sample := ""
		for _, blk := range strings.Split(dump, "\n\n") {
			if !strings.Contains(blk, marker+".func") || strings.Contains(blk, "waitOrDeadlock") {
				continue
			}
			workers++
			head := blk
			if i := strings.Index(blk, "\n"); i >= 0 {
				head = blk[:i]
			}
			inLock := strings.Contains(head, "sync.Mutex.Lock") || strings.Contains(head, "semacquire")
			if inLock && strings.Contains(blk, "sync.(*Mutex).Lock") && strings.Contains(blk, "go-argmapper.(*Func).") {
				stuck++
				if sample == "" {
					sample = blk
				}
			}
		}
		if workers >= 2 && stuck == workers {
			if len(sample) > 1500 {
				sample = sample[:1500]
			}
			return fmt.Sprintf("deadlock: all %d unfinished goroutines are blocked acquiring a mutex inside the library (none can release one); one of them:\n%s", workers, sample)
		}
	}
}
