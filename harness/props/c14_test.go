package props

import (
	"fmt"
	"reflect"
	"strings"
	"testing"

	"github.com/hashicorp/go-argmapper"
	"github.com/hashicorp/go-argmapper/verifharness/engine"
)

func init() { evaluators["C14"] = evalC14 }

// SigField is one field (struct forms) or one positional parameter/result.
type SigField struct {
	Go         string `json:"go,omitempty"`  // Go field name (struct forms)
	TagName    string `json:"tag,omitempty"` // name given in the argmapper tag
	TypeOnly   bool   `json:"typeOnly,omitempty"`
	Sub        string `json:"sub,omitempty"`
	Other      bool   `json:"other,omitempty"` // unrelated tag keys present
	Unexported bool   `json:"unexp,omitempty"`
	Type       int    `json:"type"` // 0..7 universe, 8 int, 9 string, 10 error (interface), 11.. exotic kinds (exoticTypes)
}

type SigSide struct {
	Form   string     `json:"form"` // pos | struct | ptr | pptr (invalid) | mixed (invalid)
	Fields []SigField `json:"fields"`
	// Depth: pointer depth of the "pptr" form (0 = 2): every depth above one
	// is a multiply indirected struct and must be rejected.
	Depth int `json:"depth,omitempty"`
}

type C14Case struct {
	In       SigSide `json:"in"`
	Out      SigSide `json:"out"`
	FinalErr bool    `json:"finalErr,omitempty"`
	Static   int     `json:"static"`            // -1, or index into the static catalogue
	NonFunc  int     `json:"nonFunc,omitempty"` // 1 int, 2 string, 3 struct value, 4 nil
}

func sigType(t int) reflect.Type {
	switch {
	case t < 8: // the original universe T0..t5, I0, I1 (numbering kept stable for the corpus)
		return engine.Types[t]
	case t == 8:
		return reflect.TypeOf(0)
	case t == 9:
		return reflect.TypeOf("")
	case t == 10:
		return errIface
	default:
		return exoticTypes[(t-11)%len(exoticTypes)]
	}
}

// exoticTypes are reflect kinds and shapes outside the struct/interface
// universe: the signature walk must report every one of them as it is
// declared, without looking inside.
var exoticTypes = []reflect.Type{
	reflect.TypeOf([]engine.T0(nil)),
	reflect.TypeOf(map[string]engine.T1(nil)),
	reflect.TypeOf((chan int)(nil)),
	reflect.TypeOf((func(engine.T0) engine.T1)(nil)),
	reflect.TypeOf([3]engine.T2{}),
	reflect.TypeOf((*engine.T0)(nil)),
	reflect.TypeOf(struct{ X int }{}),
	reflect.TypeOf(struct{}{}),
	reflect.TypeOf((*interface{})(nil)).Elem(),
	reflect.TypeOf((**int)(nil)),
	reflect.TypeOf([0]int{}),
	reflect.TypeOf(stInner{}),               // a marker struct used as a FIELD / beside nothing else is handled by the forms; as a field type it is an ordinary value
	reflect.TypeOf((*stPlain)(nil)),         // pointer to a plain struct
	reflect.TypeOf((<-chan engine.I0)(nil)), // directional channel of an interface
	reflect.TypeOf(uintptr(0)),
	reflect.TypeOf(complex64(0)),
}

func (f SigField) tag() reflect.StructTag {
	var opts []string
	if f.TypeOnly {
		opts = append(opts, "typeOnly")
	}
	if f.Sub != "" {
		opts = append(opts, "subtype="+f.Sub)
	}
	am := ""
	if f.TagName != "" || len(opts) > 0 {
		am = fmt.Sprintf(`argmapper:"%s"`, strings.Join(append([]string{f.TagName}, opts...), ","))
	}
	if f.Other {
		if am == "" {
			return `json:"zz,omitempty" yaml:"q"`
		}
		return reflect.StructTag(`json:"zz,omitempty" ` + am + ` yaml:"q"`)
	}
	return reflect.StructTag(am)
}

type expVal struct {
	Name string
	Type reflect.Type
	Sub  string
}

func (s SigSide) structType() reflect.Type {
	sf := []reflect.StructField{{Name: "Struct", Type: reflect.TypeOf(argmapper.Struct{}), Anonymous: true}}
	for _, f := range s.Fields {
		fld := reflect.StructField{Name: f.Go, Type: sigType(f.Type), Tag: f.tag()}
		if f.Unexported {
			fld.PkgPath = "example.com/verif"
		}
		sf = append(sf, fld)
	}
	return reflect.StructOf(sf)
}

// goTypes returns the Go parameter/result types of one side.
func (s SigSide) goTypes() []reflect.Type {
	switch s.Form {
	case "pos":
		var ts []reflect.Type
		for _, f := range s.Fields {
			ts = append(ts, sigType(f.Type))
		}
		return ts
	case "struct":
		return []reflect.Type{s.structType()}
	case "ptr":
		return []reflect.Type{reflect.PtrTo(s.structType())}
	case "pptr":
		d := s.Depth
		if d < 2 {
			d = 2
		}
		t := s.structType()
		for i := 0; i < d; i++ {
			t = reflect.PtrTo(t)
		}
		return []reflect.Type{t}
	case "mixed":
		ts := []reflect.Type{s.structType()}
		if len(s.Fields) > 0 && s.Fields[0].Type%2 == 0 {
			ts[0] = reflect.PtrTo(ts[0])
		}
		return append(ts, reflect.TypeOf(0))
	}
	panic("bad form")
}

// expected computes the value list from the spec (not from reflect data).
func (s SigSide) expected() []expVal {
	var out []expVal
	for _, f := range s.Fields {
		if s.Form == "pos" {
			out = append(out, expVal{Type: sigType(f.Type)})
			continue
		}
		if f.Unexported {
			continue
		}
		name := f.Go
		if f.TagName != "" {
			name = f.TagName
		}
		name = strings.ToLower(name)
		if f.TypeOnly {
			name = ""
		}
		out = append(out, expVal{Name: name, Type: sigType(f.Type), Sub: f.Sub})
	}
	return out
}

// ---- static catalogue: shapes reflect.StructOf cannot build (marker not first)
type stMid struct {
	A int
	argmapper.Struct
	B string `argmapper:"Bee,subtype=q"`
}
type stLast struct {
	A engine.T0 `argmapper:",typeOnly"`
	argmapper.Struct
}
type stUnexp struct {
	a int
	argmapper.Struct
	B engine.T1 `argmapper:",typeOnly,subtype=s"`
	c string
	D engine.I0 `json:"d" argmapper:"dee"`
}
type stInner struct {
	argmapper.Struct
	A int
}
type stNested struct{ stInner } // embeds a struct that embeds the marker: not a marker struct itself
type stPlain struct{ A, B int } // no marker: a plain typed value
// StExp is exported, so embedding it yields an exported (anonymous) field.
type StExp struct{ A int }

type stEmbeds struct {
	argmapper.Struct
	StExp
	stPlain        // embedded unexported type: an unexported field, skipped
	X       int    `argmapper:",subtype=k=v"`
	Y       string `argmapper:"Two Words"`
}

type staticSig struct {
	fn      interface{}
	in, out []expVal
	invalid bool
}

var staticCatalogue = []staticSig{
	{fn: func(stMid) {}, in: []expVal{{"a", reflect.TypeOf(0), ""}, {"bee", reflect.TypeOf(""), "q"}}},
	{fn: func(*stMid) int { return 0 }, in: []expVal{{"a", reflect.TypeOf(0), ""}, {"bee", reflect.TypeOf(""), "q"}}, out: []expVal{{"", reflect.TypeOf(0), ""}}},
	{fn: func(stLast) error { return nil }, in: []expVal{{"", reflect.TypeOf(engine.T0{}), ""}}},
	{fn: func(stUnexp) stMid { return stMid{} },
		in:  []expVal{{"", reflect.TypeOf(engine.T1{}), "s"}, {"dee", engine.Types[engine.TypeI0], ""}},
		out: []expVal{{"a", reflect.TypeOf(0), ""}, {"bee", reflect.TypeOf(""), "q"}}},
	{fn: func() (*stLast, error) { return nil, nil }, out: []expVal{{"", reflect.TypeOf(engine.T0{}), ""}}},
	{fn: func(stNested) {}, in: []expVal{{"", reflect.TypeOf(stNested{}), ""}}},
	{fn: func(stPlain, *stPlain) stPlain { return stPlain{} },
		in:  []expVal{{"", reflect.TypeOf(stPlain{}), ""}, {"", reflect.TypeOf(&stPlain{}), ""}},
		out: []expVal{{"", reflect.TypeOf(stPlain{}), ""}}},
	{fn: func(stMid, int) {}, invalid: true},
	{fn: func(int, *stLast) {}, invalid: true},
	{fn: func(**stMid) {}, invalid: true},
	{fn: func() (stMid, int) { return stMid{}, 0 }, invalid: true},
	{fn: func() (stMid, stLast, error) { return stMid{}, stLast{}, nil }, invalid: true},
	{fn: func() (error, int) { return nil, 0 }, out: []expVal{{"", errIface, ""}, {"", reflect.TypeOf(0), ""}}},
	{fn: func() (error, error) { return nil, nil }, out: []expVal{{"", errIface, ""}}},
	{fn: func() error { return nil }},
	{fn: func() {}},
	// an embedded (anonymous) non-marker struct field is an ordinary named value;
	// a subtype may contain '='; tag names keep inner spaces
	{fn: func(stEmbeds) {}, in: []expVal{{"stexp", reflect.TypeOf(StExp{}), ""}, {"x", reflect.TypeOf(0), "k=v"}, {"two words", reflect.TypeOf(""), ""}}},
	// a variadic parameter is one positional value of slice type
	{fn: func(a int, rest ...string) {}, in: []expVal{{"", reflect.TypeOf(0), ""}, {"", reflect.TypeOf([]string(nil)), ""}}},
	// a pointer to a plain (marker-less) struct and an interface parameter
	{fn: func(p *stPlain, s fmt.Stringer) {}, in: []expVal{{"", reflect.TypeOf(&stPlain{}), ""}, {"", reflect.TypeOf((*fmt.Stringer)(nil)).Elem(), ""}}},
}

func checkSet(v *engine.Verdict, what string, vs *argmapper.ValueSet, want []expVal) {
	if vs == nil {
		v.Failf("%s: nil value set", what)
		return
	}
	got := vs.Values()
	if len(got) != len(want) {
		v.Failf("%s: %d values reported, want %d (%v)", what, len(got), len(want), want)
		return
	}
	for i, w := range want {
		g := got[i]
		if g.Name != w.Name || g.Type != w.Type || g.Subtype != w.Sub {
			v.Failf("%s: value %d is {name %q, type %v, subtype %q}, want {%q, %v, %q}", what, i, g.Name, g.Type, g.Subtype, w.Name, w.Type, w.Sub)
			return
		}
		if g.Value.IsValid() {
			v.Failf("%s: value %d carries a value in a pure signature", what, i)
		}
		wantKind := argmapper.ValueTyped
		if w.Name != "" {
			wantKind = argmapper.ValueNamed
		}
		if g.Kind() != wantKind {
			v.Failf("%s: value %d has kind %v", what, i, g.Kind())
		}
		// lookups agree
		if w.Name != "" {
			n := vs.Named(w.Name)
			if n == nil || n.Name != w.Name || n.Type != w.Type || n.Subtype != w.Sub {
				v.Failf("%s: Named(%q) does not find the declared value", what, w.Name)
			}
		} else {
			tv := vs.Typed(w.Type)
			if tv == nil || tv.Type != w.Type || tv.Name != "" {
				v.Failf("%s: Typed(%v) does not find a type-only value of that type", what, w.Type)
			}
		}
		ts := vs.TypedSubtype(w.Type, w.Sub)
		if ts == nil || ts.Type != w.Type || ts.Subtype != w.Sub {
			v.Failf("%s: TypedSubtype(%v, %q) does not find a value with that type and subtype", what, w.Type, w.Sub)
		}
	}
}

func evalC14(c *engine.Case) engine.Verdict {
	var v engine.Verdict
	var x C14Case
	if err := c.GetX(&x); err != nil {
		v.Failf("bad case: %v", err)
		return v
	}
	var fn interface{}
	var wantIn, wantOut []expVal
	invalid := false
	switch {
	case x.NonFunc > 0:
		v.Class("non-function")
		invalid = true
		switch x.NonFunc {
		case 1:
			fn = 42
		case 2:
			fn = "func"
		case 3:
			fn = stMid{}
		default:
			fn = nil
		}
	case x.Static >= 0:
		s := staticCatalogue[x.Static%len(staticCatalogue)]
		v.Class("static-catalogue")
		fn, wantIn, wantOut, invalid = s.fn, s.in, s.out, s.invalid
	default:
		in := x.In.goTypes()
		out := x.Out.goTypes()
		if x.FinalErr {
			out = append(out, errIface)
		}
		ft := reflect.FuncOf(in, out, false)
		fn = reflect.MakeFunc(ft, func([]reflect.Value) []reflect.Value { return nil }).Interface()
		wantIn, wantOut = x.In.expected(), x.Out.expected()
		// a final result of type error is the error, not an output
		if n := len(out); n > 0 && out[n-1] == errIface && !x.FinalErr {
			wantOut = wantOut[:len(wantOut)-1]
		}
		for _, s := range []SigSide{x.In, x.Out} {
			if s.Form == "pptr" || s.Form == "mixed" {
				invalid = true
			}
			v.Class("form-" + s.Form)
		}
		// a lone positional marker struct... cannot be generated here (pos fields are never marker structs)
	}
	var f *argmapper.Func
	var err error
	var o engine.Outcome
	engine.Protect(&o, func() { f, err = argmapper.NewFunc(fn) })
	if o.Panic != "" {
		v.Failf("NewFunc panicked: %s", o.Panic)
		return v
	}
	if invalid {
		v.Class("invalid-shape")
		if err == nil {
			v.Failf("NewFunc accepted a signature the library cannot honour (%T)", fn)
		}
		v.NonTrivial = true
		return v
	}
	if err != nil {
		v.Failf("NewFunc rejected a valid signature %T: %v", fn, err)
		return v
	}
	checkSet(&v, "Input()", f.Input(), wantIn)
	checkSet(&v, "Output()", f.Output(), wantOut)
	if v.Fail == "" {
		// what a Func reports does not depend on what it has been used for:
		// as a converter of a call, as the target of a call and of a
		// Redefine (outcomes irrelevant), then inspected again
		engine.Protect(&o, func() {
			other, oerr := argmapper.NewFunc(func() {})
			if oerr == nil {
				other.Call(argmapper.ConverterFunc(f), engine.Quiet())
			}
			f.Call(engine.Quiet())
			f.Redefine(engine.Quiet())
		})
		if o.Panic == "" {
			checkSet(&v, "after the function was used, Input()", f.Input(), wantIn)
			checkSet(&v, "after the function was used, Output()", f.Output(), wantOut)
			v.Class("inspected-again-after-use")
		}
	}

	nt := x.Static >= 0
	for _, s := range []SigSide{x.In, x.Out} {
		for i, fl := range s.Fields {
			if s.Form != "pos" && (fl.TagName != "" || fl.TypeOnly || fl.Unexported) {
				nt = true
			}
			if fl.TagName != "" {
				v.Class("tag-renamed")
			}
			if fl.TypeOnly {
				v.Class("type-only-tag")
			}
			if fl.Unexported {
				v.Class("unexported-field")
			}
			if fl.Sub != "" {
				v.Class("subtype-tag")
			}
			if fl.Other {
				v.Class("unrelated-tag-keys")
			}
			if fl.Type > 10 {
				v.Class("exotic-kind")
			}
			if fl.Type == 10 && s.Form == "pos" && (i < len(s.Fields)-1 || x.FinalErr) && &s == &s {
				v.Class("error-result-not-final")
				nt = true
			}
		}
	}
	if x.FinalErr {
		v.Class("final-error")
	}
	v.NonTrivial = nt
	return v
}

func genSigSide(g engine.G, output bool) SigSide {
	s := SigSide{Form: engine.Pick(g, []string{"pos", "struct", "struct", "ptr"})}
	n := g.Int(0, 4)
	goNames := []string{"A", "Bc", "XyZ", "Delta", "E1"}
	tagNames := []string{"foo", "Bar", "bAZ", "q_1"}
	usedName := map[string]bool{}
	usedTyped := map[string]bool{}
	for i := 0; i < n; i++ {
		f := SigField{Type: g.Int(0, 9)}
		if g.Pct(25) {
			f.Type = 11 + g.Int(0, len(exoticTypes)-1)
			// a marker struct as a positional parameter is a FORM, not a value
			if s.Form == "pos" && sigType(f.Type) == reflect.TypeOf(stInner{}) {
				f.Type = 11
			}
		}
		if s.Form == "pos" {
			if output && g.Pct(20) {
				f.Type = 10
			}
			s.Fields = append(s.Fields, f)
			continue
		}
		f.Go = goNames[i]
		if g.Pct(15) {
			f.Unexported = true
			f.Go = strings.ToLower(f.Go[:1]) + f.Go[1:]
		}
		if g.Pct(35) {
			f.TagName = engine.Pick(g, tagNames)
		}
		f.TypeOnly = g.Pct(30)
		if g.Pct(30) {
			f.Sub = engine.Pick(g, []string{"s", "t", "a.b/c", "X"})
		}
		f.Other = g.Pct(20)
		if !f.Unexported {
			name := f.Go
			if f.TagName != "" {
				name = f.TagName
			}
			name = strings.ToLower(name)
			if f.TypeOnly {
				k := fmt.Sprint(f.Type)
				if !output {
					k += "/" + f.Sub
				}
				if usedTyped[k] {
					continue
				}
				usedTyped[k] = true
			} else {
				if usedName[name] {
					continue
				}
				usedName[name] = true
			}
		}
		s.Fields = append(s.Fields, f)
	}
	return s
}

func genC14(g engine.G) *engine.Case {
	x := C14Case{Static: -1}
	switch k := g.Int(0, 19); {
	case k == 0:
		x.NonFunc = g.Int(1, 4)
	case k <= 3:
		x.Static = g.Int(0, len(staticCatalogue)-1)
	default:
		x.In = genSigSide(g, false)
		x.Out = genSigSide(g, true)
		x.FinalErr = g.Pct(40)
		if g.Pct(8) {
			side := &x.In
			if g.Bool() {
				side = &x.Out
			}
			if side.Form == "pos" {
				for i := range side.Fields {
					side.Fields[i].Go = fmt.Sprintf("P%d", i)
					if side.Fields[i].Type == 10 {
						side.Fields[i].Type = 8
					}
				}
			}
			side.Form = engine.Pick(g, []string{"pptr", "mixed"})
			if side.Form == "pptr" {
				side.Depth = engine.Pick(g, []int{2, 2, 3, 4, 255, 256, 257, 258, 512, 513})
			}
		}
	}
	c := &engine.Case{}
	c.SetX(&x)
	return c
}

func TestC14(t *testing.T) { runProp(t, "C14", genC14) }
