package props

import (
	"fmt"
	"reflect"
	"sort"
	"strings"
	"testing"

	"github.com/hashicorp/go-argmapper"
	"github.com/hashicorp/go-argmapper/verifharness/engine"
)

func init() { evaluators["C15"] = evalC15 }

// VSVal is one value of a generated value list.
type VSVal struct {
	Name string `json:"n,omitempty"` // spelling as given (case preserved)
	Type int    `json:"t"`
	Sub  string `json:"s,omitempty"`
	Tok  int    `json:"tok"`
	Dyn  int    `json:"d"`             // concrete type carrying the token (== Type unless Type is an interface)
	Raw  bool   `json:"raw,omitempty"` // interface-typed: store the concrete reflect.Value (not one of interface type)
	// Via (+1; 0 = none), interface-typed and not Raw: the stored reflect.Value
	// is of ANOTHER interface type that is assignable to the declared one (a
	// wider interface, a twin) -- the shape of a value copied over from the
	// result set of another function.
	Via int `json:"via,omitempty"`
}

// C15Case: Mode "set" = NewValueSet round-trips; "lifted" = value sets of a
// positional function; "built" = differential built vs. ordinary function.
type C15Case struct {
	Mode   string  `json:"mode"`
	Vals   []VSVal `json:"vals,omitempty"`
	Pos    []int   `json:"pos,omitempty"`    // lifted: positional types (may repeat)
	PosDyn []int   `json:"posDyn,omitempty"` // liftedi: concrete type of the value given for each position
	Calls  int     `json:"calls,omitempty"`  // built: number of sequential calls
	FailAt int     `json:"failAt,omitempty"`
	// objects: a history over several Funcs, some of them of one and the same
	// Go function type, whose value sets are loaded and re-read in turn
	Shapes [][]int `json:"shapes,omitempty"` // positional types (distinct within a shape) per shape
	Named  []bool  `json:"namedShape,omitempty"`
	Ptr    []bool  `json:"ptrShape,omitempty"` // struct-form shapes taking/returning a POINTER to the struct
	Hs     []int   `json:"hs,omitempty"`       // handle -> shape
	Ops    []ObjOp `json:"ops,omitempty"`
}

// ObjOp is one step of an "objects" history.
type ObjOp struct {
	Op   string `json:"op"` // loadIn | loadOut | result | poke | renew
	H    int    `json:"h"`
	Base int    `json:"base,omitempty"`
	I    int    `json:"i,omitempty"`
	Out  bool   `json:"out,omitempty"`
}

func vsValues(vals []VSVal) []argmapper.Value {
	out := make([]argmapper.Value, len(vals))
	for i, x := range vals {
		out[i] = argmapper.Value{Name: x.Name, Type: engine.Types[x.Type], Subtype: x.Sub}
	}
	return out
}

func evalC15(c *engine.Case) engine.Verdict {
	var v engine.Verdict
	var x C15Case
	if err := c.GetX(&x); err != nil {
		v.Failf("bad case: %v", err)
		return v
	}
	v.Class("mode-" + x.Mode)
	var o engine.Outcome
	engine.Protect(&o, func() {
		switch x.Mode {
		case "set":
			evalC15Set(&v, &x)
		case "lifted":
			evalC15Lifted(&v, &x)
		case "liftedi":
			evalC15LiftedIface(&v, &x)
		case "built":
			evalC15Built(&v, c, &x)
		case "objects":
			evalC15Objects(&v, &x)
		}
	})
	if o.Panic != "" {
		v.Failf("panic: %s", o.Panic)
	}
	return v
}

func inInts(xs []int, x int) bool {
	for _, y := range xs {
		if y == x {
			return true
		}
	}
	return false
}

func evalC15Set(v *engine.Verdict, x *C15Case) {
	vs, err := argmapper.NewValueSet(vsValues(x.Vals))
	if err != nil {
		v.Failf("NewValueSet rejected a list of distinct values: %v", err)
		return
	}
	got := vs.Values()
	if len(got) != len(x.Vals) {
		v.Failf("Values() has %d entries, the list had %d", len(got), len(x.Vals))
		return
	}
	subs, typed := 0, 0
	for i, w := range x.Vals {
		g := got[i]
		if g.Name != strings.ToLower(w.Name) || g.Type != engine.Types[w.Type] || g.Subtype != w.Sub {
			v.Failf("Values()[%d] = {%q %v %q}, want {%q %v %q}", i, g.Name, g.Type, g.Subtype, strings.ToLower(w.Name), engine.Types[w.Type], w.Sub)
			return
		}
		if w.Sub != "" {
			subs++
		}
		if w.Name == "" {
			typed++
		}
	}
	// lookups
	for i, w := range x.Vals {
		if w.Name != "" {
			p := vs.Named(strings.ToLower(w.Name))
			if p == nil || p.Type != engine.Types[w.Type] || p.Subtype != w.Sub {
				v.Failf("Named(%q) does not find value %d", strings.ToLower(w.Name), i)
				return
			}
		} else {
			p := vs.Typed(engine.Types[w.Type])
			if p == nil || p.Name != "" || p.Type != engine.Types[w.Type] || p.Subtype != w.Sub {
				v.Failf("Typed(%v) does not find type-only value %d", engine.Types[w.Type], i)
				return
			}
		}
		shared := 0
		for _, o := range x.Vals {
			if o.Type == w.Type && o.Sub == w.Sub {
				shared++
			}
		}
		p := vs.TypedSubtype(engine.Types[w.Type], w.Sub)
		if p == nil || p.Type != engine.Types[w.Type] || p.Subtype != w.Sub {
			v.Failf("TypedSubtype(%v, %q) finds nothing matching", engine.Types[w.Type], w.Sub)
			return
		}
		if shared == 1 && p.Name != strings.ToLower(w.Name) {
			v.Failf("TypedSubtype(%v, %q) found %q, the only value with that type and subtype is %q", engine.Types[w.Type], w.Sub, p.Name, w.Name)
			return
		}
	}
	// set tokens through the lookup pointers, render as a signature, load into a fresh set
	for _, w := range x.Vals {
		var p *argmapper.Value
		if w.Name != "" {
			p = vs.Named(strings.ToLower(w.Name))
		} else {
			p = vs.Typed(engine.Types[w.Type])
		}
		val := engine.MakeValue(w.Dyn, w.Tok)
		if !engine.IsIface(w.Type) && w.Via > 0 {
			// a value of ANOTHER concrete type that is assignable to the
			// declared one (an unnamed struct type for a defined one)
			val = engine.MakeValue(w.Via-1, w.Tok)
		}
		if engine.IsIface(w.Type) && !w.Raw {
			st := w.Type
			if w.Via > 0 {
				st = w.Via - 1
			}
			slot := reflect.New(engine.Types[st]).Elem()
			slot.Set(val)
			val = slot
		}
		p.Value = val
	}
	sig := vs.Signature()
	sv := vs.SignatureValues()
	if len(sig) != len(sv) {
		v.Failf("Signature() has %d types but SignatureValues() %d values", len(sig), len(sv))
		return
	}
	for i := range sig {
		if sv[i].Type() != sig[i] {
			v.Failf("SignatureValues()[%d] has type %v, Signature() says %v", i, sv[i].Type(), sig[i])
			return
		}
	}
	fresh, err := argmapper.NewValueSet(vsValues(x.Vals))
	if err != nil {
		v.Failf("NewValueSet: %v", err)
		return
	}
	if err := fresh.FromSignature(sv); err != nil {
		v.Failf("FromSignature: %v", err)
		return
	}
	for i, g := range fresh.Values() {
		if ob := engine.Observe(g.Value); !ob.Valid || ob.Tok != x.Vals[i].Tok || ob.Dyn != x.Vals[i].Dyn {
			v.Failf("after SignatureValues -> FromSignature value %d holds #%d (valid=%v), want #%d", i, ob.Tok, ob.Valid, x.Vals[i].Tok)
			return
		}
	}
	// Args(): the values rendered as options satisfy a function over the same
	// set, which receives exactly these values (another rendering of the set
	// that must restore every value). Names must be unique per type for the
	// expected token to be unique: only when no two values share a type.
	typeSeen := map[int]bool{}
	uniqTypes := true
	hasIface, rawIface, viaIface := false, false, false
	viaConcrete := false
	for i, w := range x.Vals {
		if typeSeen[w.Type] {
			uniqTypes = false
		}
		typeSeen[w.Type] = true
		if !engine.IsIface(w.Type) && w.Via > 0 {
			viaConcrete = true
		}
		if engine.IsIface(w.Type) {
			// an interface-typed value travels under its interface type
			// (stored as such, not as a bare concrete value), and no other
			// value of the set may implement that interface: the route to
			// each parameter of the consumer stays unique
			hasIface = true
			if w.Raw {
				rawIface = true
			}
			if w.Via > 0 && !w.Raw {
				viaIface = true
			}
			for j, o := range x.Vals {
				if j != i && (engine.Implements(o.Type, w.Type) || engine.Implements(o.Dyn, w.Type)) {
					uniqTypes = false
				}
			}
		}
	}
	if uniqTypes && hasIface {
		v.Class("args-round-trip-with-interface-typed-value")
	}
	if uniqTypes && rawIface {
		// an interface-typed entry filled with a bare concrete value
		// (v.Value = reflect.ValueOf(impl)): it still travels under the
		// entry's declared type
		v.Class("args-round-trip-with-concrete-value-in-interface-entry")
	}
	if uniqTypes && viaConcrete {
		v.Class("args-round-trip-with-value-of-another-assignable-type")
	}
	if uniqTypes && viaIface {
		v.Class("args-round-trip-with-value-of-another-interface-type-in-interface-entry")
	}
	if uniqTypes && len(x.Vals) > 0 {
		inSet, err := argmapper.NewValueSet(vsValues(x.Vals))
		if err != nil {
			v.Failf("NewValueSet: %v", err)
			return
		}
		var seen []int
		consumer, err := argmapper.BuildFunc(inSet, nil, func(in, out *argmapper.ValueSet) error {
			seen = nil
			for _, g := range in.Values() {
				seen = append(seen, engine.Observe(g.Value).Tok)
			}
			return nil
		})
		if err != nil {
			v.Failf("BuildFunc: %v", err)
			return
		}
		res := consumer.Call(append(vs.Args(), engine.Quiet())...)
		if res.Err() != nil {
			v.Failf("a function over the same value set, called with vs.Args(), failed: %.200s", res.Err())
			return
		}
		for i, w := range x.Vals {
			if i >= len(seen) || seen[i] != w.Tok {
				v.Failf("called with vs.Args(): value %d arrived as #%v, want #%d", i, seen, w.Tok)
				return
			}
		}
		v.Class("args-round-trip")
	}
	v.NonTrivial = len(x.Vals) >= 2 && (subs > 0 || typed > 0)
	if subs > 0 {
		v.Class("has-subtype")
	}
	if typed > 0 {
		v.Class("has-type-only")
	}
	for _, w := range x.Vals {
		if engine.IsIface(w.Type) {
			v.Class("interface-typed-value")
			break
		}
	}
	v.Class(fmt.Sprintf("values=%d", len(x.Vals)))
}

func evalC15Lifted(v *engine.Verdict, x *C15Case) {
	var ts []reflect.Type
	for _, t := range x.Pos {
		ts = append(ts, engine.Types[t])
	}
	var seenIn []int
	ft := reflect.FuncOf(ts, ts, false)
	fn := reflect.MakeFunc(ft, func(args []reflect.Value) []reflect.Value {
		seenIn = nil
		for _, a := range args {
			seenIn = append(seenIn, engine.Observe(a).Tok)
		}
		return args
	})
	f, err := argmapper.NewFunc(fn.Interface())
	if err != nil {
		v.Failf("NewFunc: %v", err)
		return
	}
	repeat := false
	seen := map[int]bool{}
	for _, t := range x.Pos {
		if seen[t] {
			repeat = true
		}
		seen[t] = true
	}
	if repeat {
		v.Class("repeated-positional-type")
	}
	v.NonTrivial = len(x.Pos) >= 2
	for _, set := range []*argmapper.ValueSet{f.Input(), f.Output()} {
		sig := set.Signature()
		if len(sig) != len(ts) {
			v.Failf("lifted Signature() has %d types, the function has %d", len(sig), len(ts))
			return
		}
		for i := range ts {
			if sig[i] != ts[i] {
				v.Failf("lifted Signature()[%d] = %v, want %v", i, sig[i], ts[i])
				return
			}
		}
		vals := make([]reflect.Value, len(ts))
		for i, t := range x.Pos {
			vals[i] = engine.MakeValue(t, 10+i)
		}
		if err := set.FromSignature(vals); err != nil {
			v.Failf("FromSignature: %v", err)
			return
		}
		got := set.Values()
		if len(got) != len(ts) {
			v.Failf("lifted set has %d values for %d positional entries", len(got), len(ts))
			return
		}
		for i, g := range got {
			if ob := engine.Observe(g.Value); ob.Tok != 10+i {
				v.Failf("lifted FromSignature: value %d holds #%d, want #%d", i, ob.Tok, 10+i)
				return
			}
		}
		sv := set.SignatureValues()
		if len(sv) != len(ts) {
			v.Failf("lifted SignatureValues() has %d values, want %d", len(sv), len(ts))
			return
		}
		for i := range sv {
			if ob := engine.Observe(sv[i]); ob.Tok != 10+i {
				v.Failf("lifted SignatureValues()[%d] holds #%d, want #%d", i, ob.Tok, 10+i)
				return
			}
		}
	}
	// call it with one value per distinct type: every positional parameter of a
	// type receives the supplied value of that type; results come back in order
	var args []argmapper.Arg
	tokOf := map[int]int{}
	for t := range seen {
		tokOf[t] = 50 + t
		args = append(args, argmapper.Typed(engine.MakeValue(t, 50+t).Interface()))
	}
	args = append(args, engine.Quiet())
	res := f.Call(args...)
	if res.Err() != nil {
		v.Failf("Call: %v", res.Err())
		return
	}
	if res.Len() != len(ts) {
		v.Failf("Len() = %d, want %d", res.Len(), len(ts))
		return
	}
	for i, t := range x.Pos {
		if seenIn[i] != tokOf[t] {
			v.Failf("positional parameter %d (%s) received #%d, want #%d", i, engine.TypeName(t), seenIn[i], tokOf[t])
		}
		if ob := engine.ObserveIface(res.Out(i)); ob.Tok != tokOf[t] || ob.Dyn != t {
			v.Failf("Out(%d) holds #%d, want #%d", i, ob.Tok, tokOf[t])
		}
	}
	// FromResult
	if err := f.Output().FromResult(res); err != nil {
		v.Failf("FromResult on a successful result: %v", err)
	}
	for i, g := range f.Output().Values() {
		if ob := engine.Observe(g.Value); ob.Tok != tokOf[x.Pos[i]] {
			v.Failf("FromResult: value %d holds #%d", i, ob.Tok)
		}
	}
}

// evalC15Objects: every Func owns its input and output value set. Loading
// values into the sets of one Func (FromSignature, FromResult, or through a
// lookup pointer) is reported back by THAT Func's sets and by no other Func's,
// a freshly created Func reports no values at all, and calling a Func does not
// change what its sets hold -- whatever other Funcs of the same Go function
// type exist. The model is a plain table handle -> side -> index -> token.
func evalC15Objects(v *engine.Verdict, x *C15Case) {
	type shape struct {
		fn    interface{}
		types []int
		named bool
	}
	shapes := make([]shape, len(x.Shapes))
	for si, ts := range x.Shapes {
		ts := ts
		sh := shape{types: ts, named: si < len(x.Named) && x.Named[si]}
		if sh.named {
			// struct form: fields F0.. of the listed types, in and out alike
			sf := []reflect.StructField{{Name: "Struct", Type: reflect.TypeOf(argmapper.Struct{}), Anonymous: true}}
			for i, t := range ts {
				sf = append(sf, reflect.StructField{Name: fmt.Sprintf("F%d", i), Type: engine.Types[t]})
			}
			st := reflect.StructOf(sf)
			if si < len(x.Ptr) && x.Ptr[si] {
				st = reflect.PtrTo(st)
			}
			ft := reflect.FuncOf([]reflect.Type{st}, []reflect.Type{st}, false)
			sh.fn = reflect.MakeFunc(ft, func(a []reflect.Value) []reflect.Value { return a }).Interface()
		} else {
			var rt []reflect.Type
			for _, t := range ts {
				rt = append(rt, engine.Types[t])
			}
			ft := reflect.FuncOf(rt, rt, false)
			sh.fn = reflect.MakeFunc(ft, func(a []reflect.Value) []reflect.Value { return a }).Interface()
		}
		shapes[si] = sh
	}
	type sideModel []int // token per value, 0 = nothing loaded
	type handle struct {
		f     *argmapper.Func
		sh    shape
		model [2]sideModel
	}
	mk := func(sh shape) *handle {
		f, err := argmapper.NewFunc(sh.fn)
		if err != nil {
			v.Failf("NewFunc: %v", err)
			return nil
		}
		return &handle{f: f, sh: sh, model: [2]sideModel{make(sideModel, len(sh.types)), make(sideModel, len(sh.types))}}
	}
	var hs []*handle
	sameType := false
	seenShape := map[int]bool{}
	for _, si := range x.Hs {
		h := mk(shapes[si%len(shapes)])
		if h == nil {
			return
		}
		if seenShape[si%len(shapes)] {
			sameType = true
		}
		seenShape[si%len(shapes)] = true
		hs = append(hs, h)
	}
	set := func(h *handle, out bool) *argmapper.ValueSet {
		if out {
			return h.f.Output()
		}
		return h.f.Input()
	}
	side := func(out bool) int {
		if out {
			return 1
		}
		return 0
	}
	verify := func(step int, op ObjOp) bool {
		for hi, h := range hs {
			for _, out := range []bool{false, true} {
				got := set(h, out).Values()
				m := h.model[side(out)]
				if len(got) != len(m) {
					v.Failf("after step %d (%+v): handle %d has %d values, want %d", step, op, hi, len(got), len(m))
					return false
				}
				for i, g := range got {
					ob := engine.Observe(g.Value)
					if m[i] == 0 {
						if g.Value.IsValid() {
							v.Failf("after step %d (%+v): handle %d (out=%v) value %d holds #%d although nothing was ever loaded into this Func's set", step, op, hi, out, i, ob.Tok)
							return false
						}
						continue
					}
					if !ob.Valid || ob.Tok != m[i] {
						v.Failf("after step %d (%+v): handle %d (out=%v) value %d holds #%d (valid=%v), this Func's set was loaded with #%d", step, op, hi, out, i, ob.Tok, ob.Valid, m[i])
						return false
					}
				}
			}
		}
		return true
	}
	// (no verification before the first step: state left behind by EARLIER
	// cases of the same process would make the shrunk case irreproducible when
	// replayed alone; after the first step the same leak shows within the case)
	crossLoads := 0
	lastLoaded := -1
	for step, op := range x.Ops {
		h := hs[op.H%len(hs)]
		n := len(h.sh.types)
		switch op.Op {
		case "loadIn", "loadOut":
			out := op.Op == "loadOut"
			if h.sh.named {
				// a struct-form signature is ONE value: the struct (also for
				// pointer forms: Signature() names the struct type itself)
				sig := set(h, out).Signature()
				if len(sig) != 1 || sig[0].Kind() != reflect.Struct {
					v.Failf("Signature() of a struct-form side is %v, want the one struct type", sig)
					return
				}
				st := reflect.New(sig[0]).Elem()
				for i, t := range h.sh.types {
					st.Field(i + 1).Set(engine.MakeValue(t, op.Base+i))
				}
				if err := set(h, out).FromSignature([]reflect.Value{st}); err != nil {
					v.Failf("FromSignature: %v", err)
					return
				}
			} else {
				vals := make([]reflect.Value, n)
				for i, t := range h.sh.types {
					vals[i] = engine.MakeValue(t, op.Base+i)
				}
				if err := set(h, out).FromSignature(vals); err != nil {
					v.Failf("FromSignature: %v", err)
					return
				}
			}
			for i := range h.sh.types {
				h.model[side(out)][i] = op.Base + i
			}
		case "result":
			var args []argmapper.Arg
			for i, t := range h.sh.types {
				if h.sh.named {
					args = append(args, argmapper.Named(fmt.Sprintf("f%d", i), engine.MakeValue(t, op.Base+i).Interface()))
				} else {
					args = append(args, argmapper.Typed(engine.MakeValue(t, op.Base+i).Interface()))
				}
			}
			res := h.f.Call(append(args, engine.Quiet())...)
			if res.Err() != nil {
				v.Failf("Call: %.200s", res.Err())
				return
			}
			if err := h.f.Output().FromResult(res); err != nil {
				v.Failf("FromResult: %v", err)
				return
			}
			for i := range h.sh.types {
				h.model[1][i] = op.Base + i
			}
		case "poke":
			if n == 0 {
				continue
			}
			i := op.I % n
			var p *argmapper.Value
			if h.sh.named {
				p = set(h, op.Out).Named(fmt.Sprintf("f%d", i))
			} else {
				p = set(h, op.Out).Typed(engine.Types[h.sh.types[i]])
			}
			if p == nil {
				v.Failf("lookup of value %d of handle %d finds nothing", i, op.H%len(hs))
				return
			}
			p.Value = engine.MakeValue(h.sh.types[i], op.Base)
			h.model[side(op.Out)][i] = op.Base
		case "renew":
			nh := mk(h.sh)
			if nh == nil {
				return
			}
			hs[op.H%len(hs)] = nh
		}
		if op.Op != "renew" {
			if lastLoaded >= 0 && lastLoaded != op.H%len(hs) {
				crossLoads++
			}
			lastLoaded = op.H % len(hs)
		}
		if !verify(step, op) {
			return
		}
	}
	if sameType {
		v.Class("objects-same-func-type")
	}
	v.Class(fmt.Sprintf("handles=%d", len(hs)))
	v.NonTrivial = sameType && crossLoads >= 1
}

// evalC15LiftedIface: a positional function with interface-typed positions.
// The caller loads its input set with hand-built reflect.Values (concrete
// values, as reflect.ValueOf(impl) yields them -- two positions may well be
// given values of ONE concrete type), renders the set with Args() and calls the
// function: every position must receive the value that was loaded into it.
func evalC15LiftedIface(v *engine.Verdict, x *C15Case) {
	var ts []reflect.Type
	for _, t := range x.Pos {
		ts = append(ts, engine.Types[t])
	}
	var seenIn []int
	fn := reflect.MakeFunc(reflect.FuncOf(ts, ts, false), func(args []reflect.Value) []reflect.Value {
		seenIn = nil
		for _, a := range args {
			seenIn = append(seenIn, engine.Observe(a).Tok)
		}
		return args
	})
	f, err := argmapper.NewFunc(fn.Interface())
	if err != nil {
		v.Failf("NewFunc: %v", err)
		return
	}
	vals := make([]reflect.Value, len(ts))
	sameDyn := false
	seen := map[int]bool{}
	for i := range x.Pos {
		vals[i] = engine.MakeValue(x.PosDyn[i], 10+i)
		if seen[x.PosDyn[i]] {
			sameDyn = true
		}
		seen[x.PosDyn[i]] = true
	}
	in := f.Input()
	if err := in.FromSignature(vals); err != nil {
		v.Failf("FromSignature: %v", err)
		return
	}
	for i, g := range in.Values() {
		if ob := engine.Observe(g.Value); ob.Tok != 10+i {
			v.Failf("lifted FromSignature: value %d holds #%d, want #%d", i, ob.Tok, 10+i)
			return
		}
	}
	res := f.Call(append(in.Args(), engine.Quiet())...)
	if res.Err() != nil {
		v.Failf("the function called with its own input set rendered by Args(): %.200s", res.Err())
		return
	}
	for i := range x.Pos {
		if i >= len(seenIn) || seenIn[i] != 10+i {
			v.Failf("called with Args() of its loaded input set: position %d (%s) received #%v, it was loaded with #%d", i, engine.TypeName(x.Pos[i]), seenIn, 10+i)
			return
		}
	}
	v.Class("lifted-interface-positions")
	if sameDyn {
		v.Class("two-positions-given-one-concrete-type")
	}
	v.NonTrivial = sameDyn
}

// normalize renders an event log with tokens replaced by their provenance, so
// that twin worlds are comparable.
func normalize(w *engine.World, evs []engine.Event) string {
	var lines []string
	for _, ev := range evs {
		var b strings.Builder
		fmt.Fprintf(&b, "f%d(", canonID(ev.Func))
		for _, a := range ev.Args {
			org, ok := w.Origin(a.Tok)
			if !ok {
				fmt.Fprintf(&b, "%s<-?%d valid=%v;", a.L, a.Tok, a.Valid)
				continue
			}
			if org.Input {
				fmt.Fprintf(&b, "%s<-in#%d;", a.L, a.Tok)
			} else {
				fmt.Fprintf(&b, "%s<-f%d:%s;", a.L, canonID(org.Func), org.L)
			}
		}
		fmt.Fprintf(&b, ")err=%v ", ev.Err != nil)
		lines = append(lines, b.String())
	}
	// a converter is executed once per path that needs it and map order
	// decides the interleaving: compare as a multiset
	sort.Strings(lines)
	return strings.Join(lines, "")
}

// normalizeSet is normalize with repeated identical lines collapsed.
func normalizeSet(w *engine.World, evs []engine.Event) string {
	seen := map[string]bool{}
	var kept []engine.Event
	for _, ev := range evs {
		k := normalize(w, []engine.Event{ev})
		if !seen[k] {
			seen[k] = true
			kept = append(kept, ev)
		}
	}
	return normalize(w, kept)
}

// evalC15Built: a pipeline in -> mid -> target where mid is assembled with
// BuildFunc in world A and is an ordinary function of the same signature in
// world B. Routes are unique by construction, so the logs must agree exactly.
func evalC15Built(v *engine.Verdict, c *engine.Case, x *C15Case) {
	sc := c.Sc
	runWorld := func(built bool) (string, []string) {
		s2 := *sc
		s2.Convs = append([]engine.FuncSpec(nil), sc.Convs...)
		for i := range s2.Convs {
			if i == 0 {
				s2.Convs[i].Built = built
			}
		}
		w := engine.NewWorld()
		target, args, err := w.Setup(&s2)
		if err != nil {
			v.Failf("setup (built=%v): %v", built, err)
			return "", nil
		}
		var results []string
		for k := 0; k < x.Calls; k++ {
			w.Specs[s2.Convs[0].ID].Fail = x.FailAt == k+1
			o := w.Call(target, args)
			if o.Panic != "" {
				v.Failf("call %d (built=%v) panicked: %s", k, built, o.Panic)
				return "", nil
			}
			// what the function produced must reach downstream consumers
			// under the label it was produced under
			if msg := engine.CheckBindings(w, o.Events); msg != "" {
				v.Failf("call %d (built=%v): %s", k, built, msg)
				return "", nil
			}
			r := fmt.Sprintf("len=%d err=%v", o.Len, o.Err != nil)
			if fe, ok := o.Err.(*engine.FailErr); ok {
				r += fmt.Sprintf(" failerr=f%d", fe.Func)
				var last *engine.Event
				for i := range o.Events {
					if o.Events[i].Err != nil {
						last = &o.Events[i]
					}
				}
				if last == nil || last.Err != o.Err {
					v.Failf("call %d (built=%v): the callback's error was not delivered verbatim", k, built)
				}
			} else if o.Err != nil {
				r += " " + fmt.Sprintf("%.60s", o.ErrS)
			}
			for _, ob := range o.Outs {
				org, _ := w.Origin(ob.Tok)
				r += fmt.Sprintf(" out<-f%d:%s", org.Func, org.L)
			}
			results = append(results, r)
		}
		return normalize(w, w.EventsSince(0)), results
	}
	logA, resA := runWorld(true)
	logB, resB := runWorld(false)
	if v.Fail != "" {
		return
	}
	if logA != logB {
		v.Failf("built and ordinary function are distinguishable:\n built:    %s\n ordinary: %s", logA, logB)
		return
	}
	if fmt.Sprint(resA) != fmt.Sprint(resB) {
		v.Failf("results differ: built %v, ordinary %v", resA, resB)
		return
	}
	if !strings.Contains(logA, fmt.Sprintf("f%d(", sc.Convs[0].ID)) {
		v.Class("built-function-not-executed")
	} else {
		v.Class("built-function-executed")
	}
	consumed := strings.Contains(logA, fmt.Sprintf("<-f%d:", sc.Convs[0].ID))
	if consumed {
		v.Class("built-output-consumed-downstream")
	}
	if x.FailAt > 0 && x.FailAt <= x.Calls {
		v.Class("error-path")
	}
	v.Class(fmt.Sprintf("calls=%d", x.Calls))
	v.NonTrivial = consumed
}

func genC15(g engine.G) *engine.Case {
	c := &engine.Case{}
	var x C15Case
	switch k := g.Int(0, 10); {
	case k < 4:
		x.Mode = "set"
		names := []string{"a", "B", "cD", "EF", "g1"}
		if g.Pct(25) {
			// value names need not be Go identifiers (a tag can declare any)
			names = []string{"a", "my-value", "9lives", "a/b", "ünï", "Two Words", "x.y"}
		}
		usedN, usedT, usedTS := map[string]bool{}, map[int]bool{}, map[string]bool{}
		n := g.Int(1, 5)
		for tries := 0; len(x.Vals) < n && tries < 30; tries++ {
			val := VSVal{Type: g.Int(0, engine.NumTypes-1), Tok: len(x.Vals) + 1}
			val.Dyn = val.Type
			if engine.IsIface(val.Type) {
				val.Dyn = engine.Pick(g, engine.Implementers(val.Type))
				val.Raw = g.Bool()
				if !val.Raw && g.Pct(40) {
					var cands []int
					for t2 := 0; t2 < engine.NumTypes; t2++ {
						if t2 != val.Type && engine.IsIface(t2) && engine.Types[t2].AssignableTo(engine.Types[val.Type]) && engine.Implements(val.Dyn, t2) {
							cands = append(cands, t2)
						}
					}
					if len(cands) > 0 {
						val.Via = engine.Pick(g, cands) + 1
					}
				}
			}
			if !engine.IsIface(val.Type) && g.Pct(30) {
				var cands []int
				for t2 := 0; t2 < engine.NumTypes; t2++ {
					if t2 != val.Type && !engine.IsIface(t2) && engine.Types[t2].AssignableTo(engine.Types[val.Type]) {
						cands = append(cands, t2)
					}
				}
				if len(cands) > 0 {
					val.Via = engine.Pick(g, cands) + 1
				}
			}
			if g.Pct(55) {
				val.Name = engine.Pick(g, names)
				if usedN[strings.ToLower(val.Name)] {
					continue
				}
			} else if usedT[val.Type] {
				continue
			}
			if g.Pct(40) {
				val.Sub = engine.Pick(g, engine.AllSubs)
				if g.Pct(20) {
					// subtype labels are free-form strings, reported back as given
					val.Sub = engine.Pick(g, []string{"v1 ", " x", "a b", "k=v", "S"})
				}
			}
			_ = usedTS
			if val.Name != "" {
				usedN[strings.ToLower(val.Name)] = true
			} else {
				usedT[val.Type] = true
			}
			x.Vals = append(x.Vals, val)
		}
	case k == 4:
		x.Mode = "objects"
		ns := g.Int(1, 2)
		for si := 0; si < ns; si++ {
			perm := rapidPerm(g, []int{0, 1, 2, 3, 4, 5})
			x.Shapes = append(x.Shapes, perm[:g.Int(1, 3)])
			x.Named = append(x.Named, g.Pct(50))
			x.Ptr = append(x.Ptr, g.Pct(40))
		}
		nh := g.Int(2, 4)
		for i := 0; i < nh; i++ {
			x.Hs = append(x.Hs, g.Int(0, ns-1))
		}
		nops := g.Int(2, 10)
		for i := 0; i < nops; i++ {
			op := ObjOp{H: g.Int(0, nh-1), Base: 100 + 10*i, I: g.Int(0, 2), Out: g.Bool()}
			op.Op = engine.Pick(g, []string{"loadIn", "loadOut", "result", "result", "poke", "poke", "renew"})
			x.Ops = append(x.Ops, op)
		}
	case k < 7:
		x.Mode = "lifted"
		n := g.Int(1, 4)
		for i := 0; i < n; i++ {
			x.Pos = append(x.Pos, g.Int(0, 3))
		}
		if g.Pct(30) {
			// distinct position types, one to three of them interfaces; the
			// concrete positions implement none of them
			x.Mode, x.Pos = "liftedi", nil
			cand := rapidPerm(g, []int{engine.TypeI0, engine.TypeI1, engine.TypeI0b, 3, 4})
			for _, t := range cand[:g.Int(2, 4)] {
				if t == engine.TypeI0b && inInts(x.Pos, engine.TypeI0) || t == engine.TypeI0 && inInts(x.Pos, engine.TypeI0b) {
					continue // twins implement each other
				}
				x.Pos = append(x.Pos, t)
				d := t
				if engine.IsIface(t) {
					d = engine.Pick(g, engine.Implementers(t))
					if g.Pct(60) && engine.Implements(1, t) {
						d = 1 // T1 implements I0, I0b and I1: the shared concrete type
					}
				}
				x.PosDyn = append(x.PosDyn, d)
			}
		}
	default:
		x.Mode = "built"
		x.Calls = g.Int(1, 3)
		if g.Pct(30) {
			x.FailAt = g.Int(1, x.Calls)
		}
		// pipeline with unique routes: distinct types per stage
		perm := rapidPerm(g, []int{0, 1, 2, 3, 4, 5})
		lab := func(t int, allowName bool) engine.Label {
			l := engine.Label{Type: t, Dyn: t}
			if allowName && g.Pct(50) {
				l.Name = engine.Pick(g, []string{"a", "b", "cd"})
			}
			if g.Pct(30) {
				l.Sub = engine.Pick(g, engine.AllSubs)
			}
			return l
		}
		nin := g.Int(0, 2)
		nout := g.Int(1, 2)
		// id 2: empty sides of the built variant are passed to BuildFunc as nil
		mid := engine.FuncSpec{ID: 1 + g.Int(0, 1), InForm: engine.FormStruct, OutForm: engine.FormStruct, HasErr: true}
		sc := &engine.Scenario{}
		names := map[string]bool{}
		for i := 0; i < nin; i++ {
			l := lab(perm[i], true)
			if l.Named() && names[l.Name] {
				l.Name = ""
			}
			names[l.Name] = true
			mid.In = append(mid.In, l)
			sc.Inputs = append(sc.Inputs, engine.Input{L: l, Tok: i + 1})
		}
		if nin == 0 {
			mid.InForm = engine.FormStruct
		}
		names = map[string]bool{}
		tgt := engine.FuncSpec{ID: engine.TargetID, InForm: engine.FormStruct, OutForm: engine.FormPos}
		for i := 0; i < nout; i++ {
			l := lab(perm[2+i], true)
			if i == 0 && g.Pct(35) {
				// interface-typed output produced by the (built) function; to
				// keep routes unique no directly supplied type may implement it
				it := engine.TypeI0 + g.Int(0, 1)
				clash := false
				for _, t := range []int{perm[0], perm[1], perm[4]} {
					clash = clash || engine.Implements(t, it)
				}
				if !clash {
					l.Type, l.Dyn = it, engine.Pick(g, engine.Implementers(it))
				}
			}
			if l.Named() && names[l.Name] {
				l.Name = ""
			}
			names[l.Name] = true
			mid.Out = append(mid.Out, l)
			if i == 0 || g.Bool() {
				tgt.In = append(tgt.In, l)
			}
		}
		if g.Pct(30) {
			// f1 produces a named AND a type-only value of the same type and
			// subtype (named one declared first or second); the target takes
			// the type-only one through a parameter with another name (the
			// only route: names differ, so the named output cannot feed it)
			t := perm[2]
			sub := ""
			if g.Pct(40) {
				sub = engine.Pick(g, engine.AllSubs)
			}
			named := engine.Label{Name: "a", Type: t, Dyn: t, Sub: sub}
			typed := engine.Label{Type: t, Dyn: t, Sub: sub}
			if g.Bool() {
				mid.Out = []engine.Label{named, typed}
			} else {
				mid.Out = []engine.Label{typed, named}
			}
			tgt.In = []engine.Label{{Name: "zz", Type: t, Dyn: t}}
			if sub != "" {
				// a named parameter without subtype cannot take a typed value that
				// carries one; use a type-only parameter of that subtype instead
				tgt.In = []engine.Label{{Type: t, Dyn: t, Sub: sub}}
				mid.Out = []engine.Label{{Name: "a", Type: t, Dyn: t, Sub: ""}, typed}
			}
			for i := range mid.In {
				if mid.In[i].Named() {
					mid.In[i].Name = fmt.Sprintf("q%d", i) // distinct, and neither "a" nor "zz"
				}
			}
			sc.Inputs = nil
			for i, l := range mid.In {
				sc.Inputs = append(sc.Inputs, engine.Input{L: l, Tok: i + 1})
			}
		}
		// an extra directly supplied parameter for the target
		if g.Bool() {
			l := lab(perm[4], false)
			tgt.In = append(tgt.In, l)
			sc.Inputs = append(sc.Inputs, engine.Input{L: l, Tok: 9})
		}
		tgt.Out = []engine.Label{{Type: perm[5], Dyn: perm[5]}}
		sc.Convs = []engine.FuncSpec{mid}
		sc.Target = tgt
		c.Sc = sc
	}
	c.SetX(&x)
	return c
}

func TestC15(t *testing.T) { runProp(t, "C15", genC15) }
