package props

import (
	"fmt"
	"strings"
	"testing"

	"github.com/hashicorp/go-argmapper"
	"github.com/hashicorp/go-argmapper/verifharness/engine"
)

func init() { evaluators["C16"] = evalC16 }

// OptEntry is one option of the list handed to NewFunc (defaults) / Call.
type OptEntry struct {
	L        engine.Label `json:"l"` // key; L.Spell is the spelling used for the name
	Tok      int          `json:"tok"`
	NilValue bool         `json:"nil,omitempty"` // Named(name, nil) / Typed(nil): must change nothing
	// Join: this type-only, subtype-less entry is passed in the same
	// Typed(v1, v2, ...) option as the previous entry (if that is one too).
	Join bool `json:"join,omitempty"`
}

type C16Case struct {
	Target  engine.FuncSpec `json:"target"`
	Opts    []OptEntry      `json:"opts"`
	Split   int             `json:"split"`             // Opts[:Split] are NewFunc defaults, the rest Call options
	NilOpt  int             `json:"nilOpt"`            // -1, or position in the call options of a nil Arg
	Perm    []int           `json:"perm,omitempty"`    // permutation applied to the de-duplicated list for the metamorphic check
	ViaList bool            `json:"viaList,omitempty"` // construct the target with NewFuncList instead of NewFunc
}

func optKey(l engine.Label) string {
	if l.Named() {
		return "n|" + l.Name + "|" + l.Sub
	}
	return fmt.Sprintf("t|%d|%s", l.Type, l.Sub)
}

func entryArg(e OptEntry) argmapper.Arg {
	name := e.L.Name
	if e.L.Spell != "" {
		name = e.L.Spell
	}
	var val interface{}
	if !e.NilValue {
		val = engine.MakeValue(e.L.Type, e.Tok).Interface()
	}
	return argmapper.NamedSubtype(name, val, e.L.Sub)
}

// entryArgs renders entries as options; joinable neighbours become one
// multi-value Typed(...) option. nilAt: position before which a nil Arg is
// inserted (-1: none).
func entryArgs(es []OptEntry, nilAt int) []argmapper.Arg {
	var out []argmapper.Arg
	for i := 0; i < len(es); i++ {
		if i == nilAt {
			out = append(out, nil)
		}
		e := es[i]
		plain := func(e OptEntry) bool { return !e.L.Named() && e.L.Sub == "" }
		if plain(e) {
			var vals []interface{}
			j := i
			for {
				if es[j].NilValue {
					vals = append(vals, nil)
				} else {
					vals = append(vals, engine.MakeValue(es[j].L.Type, es[j].Tok).Interface())
				}
				if j+1 < len(es) && plain(es[j+1]) && es[j+1].Join && j+1 != nilAt {
					j++
					continue
				}
				break
			}
			if j > i {
				out = append(out, argmapper.Typed(vals...))
				i = j
				continue
			}
		}
		out = append(out, entryArg(e))
	}
	return out
}

// runOpts builds the target with defaults, calls it with the call options and
// returns the per-parameter tokens.
func runOpts(x *C16Case, defaults, callOpts []OptEntry, nilAt int) (engine.Outcome, map[string]int, error) {
	o, got, _, err := runOptsSeq(x, defaults, callOpts, nilAt, false)
	return o, got, err
}

func tokensOf(o engine.Outcome) map[string]int {
	got := map[string]int{}
	for _, ev := range o.Events {
		if ev.Func == engine.TargetID {
			for _, a := range ev.Args {
				got[optKey(a.L)] = a.Tok
			}
		}
	}
	return got
}

// runOptsSeq: like runOpts, and with followUp two more calls on the SAME Func
// with the SAME option objects: first with only the logger (defaults must
// apply, nothing of the first call may linger), then the first call again.
// It returns a description of the first deviation in the follow-up calls.
func runOptsSeq(x *C16Case, defaults, callOpts []OptEntry, nilAt int, followUp bool) (engine.Outcome, map[string]int, string, error) {
	w := engine.NewWorld()
	dargs := entryArgs(defaults, -1)
	tgt := x.Target
	var f *argmapper.Func
	var err error
	if x.ViaList {
		f, err = w.RealizeViaList(&tgt, dargs...)
	} else {
		f, err = w.Realize(&tgt, dargs...)
	}
	if err != nil {
		return engine.Outcome{}, nil, "", err
	}
	cargs := entryArgs(callOpts, nilAt)
	if nilAt >= len(callOpts) {
		cargs = append(cargs, nil)
	}
	cargs = append(cargs, engine.Quiet())
	// the slice NewFunc was given belongs to the caller, spare capacity
	// included: the caller extends its list by one more value and will make a
	// sibling function from the longer list. Nothing a Call of f does may
	// show up in there.
	probeIn := engine.Input{L: engine.Label{Name: "probe", Type: 5, Dyn: 5}, Tok: 9999}
	var longer []argmapper.Arg
	if followUp && w.LastOpts != nil && cap(w.LastOpts) > len(w.LastOpts) {
		w.RegisterInput(probeIn)
		longer = append(w.LastOpts, engine.InputArg(probeIn))
	}
	o := w.Call(f, cargs)
	got := tokensOf(o)
	if longer != nil && o.Panic == "" {
		sib, serr := argmapper.NewFunc(w.MakeGoFunc(&engine.FuncSpec{ID: 901, In: []engine.Label{probeIn.L}, InForm: engine.FormStruct, OutForm: engine.FormPos}), longer...)
		if serr == nil {
			w.RegisterSpec(&engine.FuncSpec{ID: 901, In: []engine.Label{probeIn.L}, InForm: engine.FormStruct, OutForm: engine.FormPos})
			so := w.Call(sib, []argmapper.Arg{engine.Quiet()})
			tok := -1
			for _, ev := range so.Events {
				if ev.Func == 901 && len(ev.Args) == 1 {
					tok = ev.Args[0].Tok
				}
			}
			if so.Panic != "" || so.Err != nil || tok != probeIn.Tok {
				return o, got, fmt.Sprintf("a sibling function made from the caller's own (longer) default list did not receive the caller's value #%d (got #%d, err %.100s %s): a Call of the first function wrote into the caller's option slice", probeIn.Tok, tok, so.ErrS, so.Panic), nil
			}
		}
	}
	if !followUp || nilAt >= 0 || o.Panic != "" || o.Err != nil {
		return o, got, "", nil
	}
	// expected with defaults only
	wantD := map[string]int{}
	for _, e := range defaults {
		if !e.NilValue {
			wantD[optKey(e.L)] = e.Tok
		}
	}
	complete := true
	for _, p := range x.Target.In {
		if _, ok := wantD[optKey(p)]; !ok {
			complete = false
		}
	}
	o2 := w.Call(f, []argmapper.Arg{engine.Quiet()})
	if o2.Panic != "" {
		return o, got, "second call (defaults only) panicked: " + o2.Panic, nil
	}
	if complete {
		if o2.Err != nil {
			return o, got, fmt.Sprintf("second call on the same Func with defaults only failed although every parameter has a default: %.150s", o2.ErrS), nil
		}
		g2 := tokensOf(o2)
		for _, p := range x.Target.In {
			if k := optKey(p); g2[k] != wantD[k] {
				return o, got, fmt.Sprintf("second call on the same Func with defaults only: parameter %s received #%d, its default is #%d (a value of the first call lingered)", p, g2[k], wantD[k]), nil
			}
		}
	} else if o2.Err == nil {
		return o, got, "second call on the same Func without call options succeeded although some parameter has neither a default nor a call value (a value of the first call lingered)", nil
	}
	o3 := w.Call(f, cargs)
	if msg := w.RetainedMismatch(); msg != "" {
		return o, got, msg, nil
	}
	if o3.Panic != "" || o3.Err != nil {
		return o, got, fmt.Sprintf("third call (the first call's options again) failed: %s %.100s", o3.Panic, o3.ErrS), nil
	}
	g3 := tokensOf(o3)
	for _, p := range x.Target.In {
		if k := optKey(p); g3[k] != got[k] {
			return o, got, fmt.Sprintf("third call with the first call's option objects: parameter %s received #%d, the first call injected #%d", p, g3[k], got[k]), nil
		}
	}
	return o, got, "", nil
}

// ---------------------------------------------------------------------------
// Converters are options too: "Any conflicting arguments given on Call will
// override these args. This can be used to provide some initial values,
// converters, etc." (NewFunc). Two converters conflict when they have the same
// Go function type -- the call graph can hold only one function per type. A
// converter given at Call therefore takes the place of a default converter of
// the same type.

type C16ConvCase struct {
	From      int    `json:"from"`
	To        int    `json:"to"`
	InForm    string `json:"inForm"`
	OutForm   string `json:"outForm"`
	NamedOut  bool   `json:"namedOut,omitempty"`
	Defaults  int    `json:"defaults"`      // number of same-typed converters given to NewFunc
	AtCall    int    `json:"atCall"`        // number given to Call (>= 1)
	Raw       bool   `json:"raw,omitempty"` // hand the call-time converter over as a plain Go function
	OtherConv bool   `json:"otherConv,omitempty"`
	// Gen: every converter (defaults and call-time ones) is not supplied but
	// EMITTED by a converter generator of its own, for values of type From
	Gen bool `json:"gen,omitempty"`
	// GenByName (with Gen): two NAMED values of type From are supplied ("id",
	// "other"); the default generators react to any value of the type, the
	// call-time ones only to the value named "id" -- which generator's
	// converter enters the graph first must not depend on the order in which
	// the values are shown
	GenByName bool `json:"genByName,omitempty"`
	// Mixed (with Gen): only the call-time converters come out of generators,
	// the defaults are plain converters
	Mixed bool `json:"mixed,omitempty"`
}

func evalC16Conv(c *engine.Case) engine.Verdict {
	var v engine.Verdict
	var x C16ConvCase
	if err := c.GetX(&x); err != nil {
		v.Failf("bad case: %v", err)
		return v
	}
	v.Class("converter-override")
	v.NonTrivial = x.Defaults > 0
	out := engine.Label{Type: x.To, Dyn: x.To}
	if x.NamedOut {
		out.Name = "p"
	}
	mk := func(id int) *engine.FuncSpec {
		return &engine.FuncSpec{ID: id, In: []engine.Label{{Type: x.From, Dyn: x.From}}, InForm: x.InForm, Out: []engine.Label{out}, OutForm: x.OutForm}
	}
	w := engine.NewWorld()
	var dargs, cargs []argmapper.Arg
	asOption := func(f *argmapper.Func, atCall bool) argmapper.Arg {
		if !x.Gen || (x.Mixed && !atCall) {
			return argmapper.ConverterFunc(f)
		}
		return argmapper.ConverterGen(func(val argmapper.Value) (*argmapper.Func, error) {
			if val.Type != engine.Types[x.From] || (x.GenByName && atCall && val.Name != "id") {
				return nil, nil
			}
			return f, nil
		})
	}
	if x.Gen {
		v.Class("converter-override-through-generators")
	}
	if x.Gen && x.GenByName {
		v.Class("generators-reacting-to-different-values")
	}
	if x.Gen && x.Mixed {
		v.Class("call-time-generator-against-default-converter")
	}
	id := 0
	for i := 0; i < x.Defaults; i++ {
		id++
		f, err := w.Realize(mk(id))
		if err != nil {
			v.Failf("setup: %v", err)
			return v
		}
		dargs = append(dargs, asOption(f, false))
	}
	firstCall := id + 1
	for i := 0; i < x.AtCall; i++ {
		id++
		fs := mk(id)
		if x.Raw && !x.Gen {
			cargs = append(cargs, argmapper.Converter(w.MakeGoFunc(fs)))
			w.RegisterSpec(fs)
			continue
		}
		f, err := w.Realize(fs)
		if err != nil {
			v.Failf("setup: %v", err)
			return v
		}
		cargs = append(cargs, asOption(f, true))
	}
	if x.OtherConv {
		// an unrelated converter of another type, as a default
		id++
		o := &engine.FuncSpec{ID: id, In: []engine.Label{{Type: x.To, Dyn: x.To}}, InForm: engine.FormPos, Out: []engine.Label{{Type: x.From, Dyn: x.From}}, OutForm: engine.FormPos}
		if f, err := w.Realize(o); err == nil {
			dargs = append(dargs, argmapper.ConverterFunc(f))
		}
	}
	tgt := &engine.FuncSpec{ID: engine.TargetID, In: []engine.Label{out}, InForm: engine.FormStruct, OutForm: engine.FormPos}
	if !x.NamedOut {
		tgt.InForm = engine.FormPos
	}
	f, err := w.Realize(tgt, dargs...)
	if err != nil {
		v.Failf("setup: %v", err)
		return v
	}
	in := engine.Input{L: engine.Label{Type: x.From, Dyn: x.From}, Tok: 1}
	if x.Gen && x.GenByName {
		in.L.Name = "id"
		in2 := engine.Input{L: engine.Label{Name: "other", Type: x.From, Dyn: x.From}, Tok: 2}
		w.RegisterInput(in2)
		cargs = append(cargs, engine.InputArg(in2))
	}
	w.RegisterInput(in)
	cargs = append(cargs, engine.InputArg(in), engine.Quiet())
	o := w.Call(f, cargs)
	if o.Panic != "" || o.Err != nil {
		v.Failf("call failed: %s %.150s", o.Panic, o.ErrS)
		return v
	}
	ran := 0
	for _, ev := range o.Events {
		if ev.Func == engine.TargetID {
			continue
		}
		ran = ev.Func
	}
	if x.Defaults > 0 && ran < firstCall && x.Gen && x.Mixed {
		// open finding KF-C16-1 (known-findings.json): a plain converter of
		// the Func is not displaced by a generator given to Call
		v.Failf("the default converter f%d was executed although a generator given at Call emits a converter of the same function type (f%d)", ran, firstCall)
		v.Known = "KF-C16-1"
		return v
	}
	if x.Defaults > 0 && ran < firstCall {
		v.Failf("the default converter f%d was executed although a converter of the same function type (f%d) was given at Call: options given at Call override defaults", ran, firstCall)
	}
	if ran == 0 {
		v.Failf("no converter executed")
	}
	return v
}

func genC16Conv(g engine.G) *engine.Case {
	perm := rapidPerm(g, []int{0, 1, 2, 3, 4, 5})
	x := C16ConvCase{From: perm[0], To: perm[1], InForm: engine.GenForm(g), OutForm: engine.GenForm(g),
		Defaults: g.Int(0, 2), AtCall: g.Int(1, 2), Raw: g.Pct(30), OtherConv: g.Pct(30), Gen: g.Pct(40)}
	if x.Gen {
		switch g.Int(0, 3) {
		case 0:
			x.GenByName = true
		case 1:
			x.Mixed = true
		}
	}
	if g.Pct(40) {
		x.NamedOut = true
		x.OutForm = engine.Pick(g, []string{engine.FormStruct, engine.FormPtr})
	}
	c := &engine.Case{Note: "conv"}
	c.SetX(&x)
	return c
}

func evalC16(c *engine.Case) engine.Verdict {
	if c.Note == "conv" {
		return evalC16Conv(c)
	}
	var v engine.Verdict
	var x C16Case
	if err := c.GetX(&x); err != nil {
		v.Failf("bad case: %v", err)
		return v
	}
	// expected: last non-nil occurrence of each key in defaults ++ call options
	want := map[string]int{}
	count := map[string]int{}
	lastIdx := map[string]int{}
	for i, e := range x.Opts {
		if e.NilValue {
			continue
		}
		k := optKey(e.L)
		want[k] = e.Tok
		count[k]++
		lastIdx[k] = i
	}
	dup, override, casing, nilv := false, false, false, false
	for k, n := range count {
		if n > 1 {
			dup = true
		}
		// a default overridden at call time
		firstDefault := false
		for i, e := range x.Opts {
			if !e.NilValue && optKey(e.L) == k && i < x.Split {
				firstDefault = true
			}
		}
		if firstDefault && lastIdx[k] >= x.Split {
			override = true
		}
	}
	for _, e := range x.Opts {
		nilv = nilv || e.NilValue
		if e.L.Named() {
			for _, p := range x.Target.In {
				if p.Name == e.L.Name {
					ps := p.Spell
					if ps == "" {
						ps = p.Name
					}
					es := e.L.Spell
					if es == "" {
						es = e.L.Name
					}
					if !strings.EqualFold(ps, es) {
						v.Failf("bad case: spelling")
					}
					if ps != es && strings.ToUpper(ps[:1])+ps[1:] != strings.ToUpper(es[:1])+es[1:] {
						casing = true
					}
				}
			}
		}
	}
	for _, p := range x.Target.In {
		if _, ok := want[optKey(p)]; !ok {
			v.Class("domain-miss:parameter-without-value")
			return v
		}
	}
	if dup {
		v.Class("duplicate-key")
	}
	if override {
		v.Class("default-overridden-at-call")
	}
	if casing {
		v.Class("casing-differs")
	}
	if nilv {
		v.Class("nil-value-present")
	}
	if x.Split > 0 {
		v.Class("has-defaults")
	}
	if x.ViaList {
		v.Class("constructed-via-NewFuncList")
	}
	if x.NilOpt >= 0 {
		v.Class("nil-option")
	}
	for i := 1; i < len(x.Opts); i++ {
		a, b := x.Opts[i-1], x.Opts[i]
		if b.Join && !a.L.Named() && a.L.Sub == "" && !b.L.Named() && b.L.Sub == "" && i != x.Split {
			v.Class("multi-value-Typed")
			if a.NilValue {
				v.Class("nil-inside-multi-value-Typed")
			}
			break
		}
	}
	v.NonTrivial = dup || override || casing

	if x.NilOpt >= 0 && x.Split > 0 {
		// a nil option among the defaults: NewFunc must report an error, not panic
		var o2 engine.Outcome
		var nerr error
		engine.Protect(&o2, func() {
			w := engine.NewWorld()
			tgt := x.Target
			_, nerr = w.Realize(&tgt, append(entryArgs(x.Opts[:x.Split], -1), nil)...)
		})
		if o2.Panic != "" {
			v.Failf("NewFunc with a nil default option panicked: %s", o2.Panic)
			return v
		}
		if nerr == nil {
			v.Failf("NewFunc accepted a nil default option without an error")
			return v
		}
		v.Class("nil-default-option")
	}
	o, got, seqMsg, err := runOptsSeq(&x, x.Opts[:x.Split], x.Opts[x.Split:], x.NilOpt, true)
	if err != nil {
		v.Failf("NewFunc with non-nil default options failed: %v", err)
		return v
	}
	if seqMsg != "" {
		v.Failf("%s", seqMsg)
		return v
	}
	if x.NilOpt < 0 {
		v.Class("follow-up-calls-on-same-func")
	}
	if o.Panic != "" {
		v.Failf("Call panicked: %s", o.Panic)
		return v
	}
	if x.NilOpt >= 0 {
		if o.Err == nil {
			v.Failf("a nil option did not yield an error result")
		}
		if engine.TargetRan(o.Events) {
			v.Failf("target executed although a nil option was given")
		}
		return v
	}
	if o.Err != nil {
		v.Failf("every parameter has an exactly matching value but Call failed: %.200s", o.ErrS)
		return v
	}
	if len(o.Events) != 1 {
		v.Failf("expected only the target to run, got %d events", len(o.Events))
		return v
	}
	for _, p := range x.Target.In {
		k := optKey(p)
		if got[k] != want[k] {
			v.Failf("parameter %s received #%d; the last value supplied for that key (defaults then call options) is #%d", p, got[k], want[k])
		}
	}
	if v.Fail != "" {
		return v
	}
	// metamorphic: permuting options that set pairwise distinct keys changes nothing
	if len(x.Perm) > 0 {
		var dedup []OptEntry
		for i, e := range x.Opts {
			if !e.NilValue && lastIdx[optKey(e.L)] == i {
				dedup = append(dedup, e)
			}
		}
		if len(x.Perm) == len(dedup) {
			perm := make([]OptEntry, len(dedup))
			for i, j := range x.Perm {
				perm[i] = dedup[j]
			}
			o2, got2, err := runOpts(&x, nil, perm, -1)
			if err != nil || o2.Panic != "" || o2.Err != nil {
				v.Failf("permuted option list failed: %v %s %.100s", err, o2.Panic, o2.ErrS)
				return v
			}
			for _, p := range x.Target.In {
				k := optKey(p)
				if got2[k] != want[k] {
					v.Failf("after permuting distinct-key options parameter %s received #%d instead of #%d", p, got2[k], want[k])
				}
			}
			v.Class("permutation-checked")
		}
	}
	return v
}

func caseVariant(g engine.G, s string) string {
	b := []byte(s)
	for i := range b {
		if g.Bool() {
			b[i] = strings.ToUpper(string(b[i]))[0]
		}
	}
	return string(b)
}

func genC16(g engine.G) *engine.Case {
	if g.Pct(8) {
		return genC16Conv(g)
	}
	x := C16Case{NilOpt: -1}
	names := []string{"a", "b", "cd", "efg"}
	np := g.Int(1, 4)
	tgt := engine.FuncSpec{ID: engine.TargetID, InForm: engine.Pick(g, []string{engine.FormStruct, engine.FormPtr}), OutForm: engine.FormPos}
	usedTyped := map[string]bool{}
	usedName := map[string]bool{}
	// Named parameters draw their types from {0,1,2}, type-only ones from
	// {3,4,5}: a type-only parameter may legitimately be fed from a supplied
	// named value of the same type (C03 allows any supplied value of exactly
	// its type), which would make the expected token ambiguous.
	for tries := 0; len(tgt.In) < np && tries < 40; tries++ {
		l := engine.Label{Type: g.Int(3, 5)}
		if g.Pct(65) {
			l.Type = g.Int(0, 2)
			l.Name = engine.Pick(g, names)
			if usedName[l.Name] {
				continue
			}
			usedName[l.Name] = true
			l.Spell = caseVariant(g, l.Name)
			l.Tag = g.Pct(30)
		}
		if g.Pct(30) && (l.Named() || g.Pct(40)) {
			l.Sub = engine.Pick(g, engine.AllSubs)
		}
		if !l.Named() {
			k := fmt.Sprintf("%d|%s", l.Type, l.Sub)
			tk := fmt.Sprintf("%d", l.Type)
			if usedTyped[k] || usedTyped[tk] {
				continue
			}
			usedTyped[k], usedTyped[tk] = true, true
		}
		l.Dyn = l.Type
		tgt.In = append(tgt.In, l)
	}
	x.Target = tgt
	tok := 0
	for _, p := range tgt.In {
		for k, n := 0, g.Int(1, 4); k < n; k++ {
			tok++
			e := OptEntry{L: p, Tok: tok}
			e.L.Tag = false
			if p.Named() {
				e.L.Spell = caseVariant(g, p.Name)
			}
			x.Opts = append(x.Opts, e)
		}
		if g.Pct(35) {
			e := OptEntry{L: p, NilValue: true}
			if p.Named() {
				e.L.Spell = caseVariant(g, p.Name)
			}
			x.Opts = append(x.Opts, e)
		}
		if p.Named() && p.Sub != "" && g.Pct(40) {
			// a value under the SAME name and ANOTHER subtype label: a key of
			// its own, which nobody asks for and which must not disturb the
			// values stored under the parameter's key
			tok++
			e := OptEntry{L: p, Tok: tok}
			e.L.Tag = false
			e.L.Sub = engine.Pick(g, []string{"u", "v1", p.Sub + "2"})
			e.L.Spell = caseVariant(g, p.Name)
			x.Opts = append(x.Opts, e)
		}
	}
	x.Opts = rapidPerm(g, x.Opts)
	for i := range x.Opts {
		x.Opts[i].Join = g.Pct(60)
	}
	x.Split = g.Int(0, len(x.Opts))
	if g.Pct(40) {
		x.Split = 0
	}
	if g.Pct(12) {
		x.NilOpt = g.Int(0, len(x.Opts)-x.Split)
	}
	x.ViaList = g.Pct(25)
	// permutation of the de-duplicated list
	nkeys := map[string]bool{}
	for _, e := range x.Opts {
		if !e.NilValue {
			nkeys[optKey(e.L)] = true
		}
	}
	idx := make([]int, len(nkeys))
	for i := range idx {
		idx[i] = i
	}
	x.Perm = rapidPerm(g, idx)
	c := &engine.Case{}
	c.SetX(&x)
	return c
}

func TestC16(t *testing.T) { runProp(t, "C16", genC16) }
