package props

import (
	"fmt"
	"reflect"
	"testing"

	"github.com/hashicorp/go-argmapper"
	"github.com/hashicorp/go-argmapper/verifharness/engine"
)

func init() { evaluators["C17"] = evalC17 }

// MyErr is a concrete error type: a final result of this type is an ordinary
// output, not "the" error.
type MyErr struct{ N int }

func (e *MyErr) Error() string { return fmt.Sprintf("myerr %d", e.N) }

// ResSlot is one declared result.
type ResSlot struct {
	Kind string `json:"kind"` // "tok" (token type), "error" (interface error), "myerr" (*MyErr)
	Type int    `json:"type,omitempty"`
	Nil  bool   `json:"nil,omitempty"` // error kinds: return nil
	// TypedNil (kind "error" only): return a non-nil error interface whose
	// dynamic value is a nil *MyErr -- in Go that is an error, not "no error".
	TypedNil bool `json:"typedNil,omitempty"`
}

type C17Case struct {
	Slots       []ResSlot `json:"slots"`
	Unsatisfied bool      `json:"unsat,omitempty"` // the function has a parameter nothing can satisfy
	// Once / Calls: the function is created with FuncOnce and called Calls
	// times; every call must report the values of the single execution.
	Once  bool `json:"once,omitempty"`
	Calls int  `json:"calls,omitempty"`
	// Late: after the successful call(s), the SAME function is called once
	// more in a way that makes resolution fail: "missing" (no inputs),
	// "convfail" (its parameter has to come out of a converter that fails),
	// "convneeds" (... out of a converter whose second input nothing provides)
	Late string `json:"late,omitempty"`
}

var (
	errIface  = reflect.TypeOf((*error)(nil)).Elem()
	myErrType = reflect.TypeOf((*MyErr)(nil))
)

func evalC17(c *engine.Case) engine.Verdict {
	var v engine.Verdict
	var x C17Case
	if err := c.GetX(&x); err != nil {
		v.Failf("bad case: %v", err)
		return v
	}
	var outT []reflect.Type
	for _, s := range x.Slots {
		switch s.Kind {
		case "tok":
			outT = append(outT, engine.Types[s.Type])
		case "error":
			outT = append(outT, errIface)
		case "myerr":
			outT = append(outT, myErrType)
		}
	}
	inT := []reflect.Type{engine.Types[0]}
	ft := reflect.FuncOf(inT, outT, false)
	var returned []interface{}
	ran := 0
	fn := reflect.MakeFunc(ft, func(args []reflect.Value) []reflect.Value {
		ran++
		returned = nil
		res := make([]reflect.Value, len(x.Slots))
		for i, s := range x.Slots {
			slot := reflect.New(outT[i]).Elem()
			switch s.Kind {
			case "tok":
				slot.Set(engine.MakeValue(s.Type, 100+i))
				returned = append(returned, slot.Interface())
			case "error":
				if s.TypedNil {
					var e error = (*MyErr)(nil)
					slot.Set(reflect.ValueOf(e))
					returned = append(returned, e)
				} else if s.Nil {
					returned = append(returned, nil)
				} else {
					e := &engine.FailErr{Func: 1, Exec: i}
					slot.Set(reflect.ValueOf(e))
					returned = append(returned, error(e))
				}
			case "myerr":
				if s.Nil {
					returned = append(returned, (*MyErr)(nil))
				} else {
					e := &MyErr{N: i}
					slot.Set(reflect.ValueOf(e))
					returned = append(returned, e)
				}
			}
			res[i] = slot
		}
		return res
	})
	var fopts []argmapper.Arg
	if x.Once {
		fopts = append(fopts, argmapper.FuncOnce())
		v.Class("run-once-repeated-calls")
	}
	f, err := argmapper.NewFunc(fn.Interface(), fopts...)
	if err != nil {
		v.Failf("NewFunc rejected a plain positional function: %v", err)
		return v
	}
	args := []argmapper.Arg{engine.Quiet()}
	if !x.Unsatisfied {
		args = append(args, argmapper.Typed(engine.T0{K: 1}))
	}
	calls := 1
	if x.Once && x.Calls > 1 && !x.Unsatisfied {
		calls = x.Calls
	}
	var res argmapper.Result
	var o engine.Outcome
	for ci := 0; ci < calls; ci++ {
		engine.Protect(&o, func() { res = f.Call(args...) })
		if o.Panic != "" {
			v.Failf("Call %d panicked: %s", ci, o.Panic)
			return v
		}
		if ci < calls-1 {
			// intermediate calls of a memoized function: same accessors as the last
			// one, which is checked in full below
			if ran != 1 {
				v.Failf("run-once function executed %d times after %d calls", ran, ci+1)
				return v
			}
		}
	}
	n := len(x.Slots)
	finalErr := n > 0 && x.Slots[n-1].Kind == "error"
	nonFinalErr, finalConcrete := false, n > 0 && x.Slots[n-1].Kind == "myerr"
	for i, s := range x.Slots {
		if s.Kind != "tok" && i < n-1 {
			nonFinalErr = true
		}
	}
	if nonFinalErr {
		v.Class("error-result-not-final")
	}
	if finalConcrete {
		v.Class("final-concrete-error-type")
	}
	if finalErr {
		v.Class("final-error")
		if x.Slots[n-1].Nil {
			v.Class("final-error-nil")
		}
	}
	v.Class(fmt.Sprintf("results=%d", n))
	v.NonTrivial = n >= 2 || nonFinalErr || finalConcrete
	if x.Unsatisfied {
		v.Class("resolution-fails")
		if res.Err() == nil {
			v.Failf("resolution failed but Err() is nil")
		}
		if res.Len() != 0 {
			v.Failf("resolution failed but Len() = %d", res.Len())
		}
		if ran != 0 {
			v.Failf("function ran although its parameter is unsatisfiable")
		}
		return v
	}
	if ran != 1 {
		v.Failf("function executed %d times", ran)
		return v
	}
	wantLen := n
	if finalErr {
		wantLen--
	}
	if res.Len() != wantLen {
		v.Failf("Len() = %d, want %d for results %+v", res.Len(), wantLen, x.Slots)
		return v
	}
	for i := 0; i < wantLen; i++ {
		var got interface{}
		engine.Protect(&o, func() { got = res.Out(i) })
		if o.Panic != "" {
			v.Failf("Out(%d) panicked: %s", i, o.Panic)
			return v
		}
		if got != returned[i] {
			v.Failf("Out(%d) = %#v, the function's %d-th returned value is %#v", i, got, i, returned[i])
		}
	}
	var wantErr error
	if finalErr && (!x.Slots[n-1].Nil || x.Slots[n-1].TypedNil) {
		wantErr = returned[n-1].(error)
	}
	for _, sl := range x.Slots {
		if sl.Kind == "error" && sl.TypedNil {
			v.Class("typed-nil-error")
			break
		}
	}
	if got := res.Err(); got != wantErr {
		v.Failf("Err() = %v, want %v", got, wantErr)
	}
	if x.Late != "" && v.Fail == "" {
		// what an earlier (successful, possibly memoized) call returned has no
		// bearing on a call whose own resolution fails
		v.Class("resolution-fails-after-a-successful-call:" + x.Late)
		late := []argmapper.Arg{engine.Quiet()}
		convErr := &engine.FailErr{Func: 7, Exec: 1}
		switch x.Late {
		case "convfail":
			late = append(late, argmapper.Typed(engine.T1{K: 2}), argmapper.Converter(func(engine.T1) (engine.T0, error) { return engine.T0{}, convErr }))
		case "convneeds":
			late = append(late, argmapper.Typed(engine.T1{K: 2}), argmapper.Converter(func(engine.T1, engine.T2) engine.T0 { return engine.T0{K: 9} }))
		}
		before := ran
		var res2 argmapper.Result
		engine.Protect(&o, func() { res2 = f.Call(late...) })
		if o.Panic != "" {
			v.Failf("late call panicked: %s", o.Panic)
			return v
		}
		if res2.Err() == nil {
			v.Failf("late call (%s): resolution fails but Err() is nil", x.Late)
		} else if x.Late == "convfail" && res2.Err() != error(convErr) {
			v.Failf("late call: Err() = %v, want the failing converter's error", res2.Err())
		}
		if res2.Len() != 0 {
			v.Failf("late call (%s): resolution fails but Len() = %d", x.Late, res2.Len())
		}
		if ran != before {
			v.Failf("late call (%s): the function ran although its parameter could not be produced", x.Late)
		}
	}
	return v
}

func genC17(g engine.G) *engine.Case {
	var x C17Case
	n := g.Int(0, 4)
	for i := 0; i < n; i++ {
		s := ResSlot{Kind: engine.Pick(g, []string{"tok", "tok", "tok", "error", "myerr"}), Type: g.Int(0, 5), Nil: g.Bool()}
		s.TypedNil = g.Pct(20)
		x.Slots = append(x.Slots, s)
	}
	if n > 0 && g.Pct(50) {
		x.Slots[n-1].Kind = "error"
	}
	for i := range x.Slots {
		if x.Slots[i].Kind != "error" {
			x.Slots[i].TypedNil = false
		}
	}
	x.Unsatisfied = g.Pct(10)
	if g.Pct(30) {
		x.Once, x.Calls = true, g.Int(2, 3)
	}
	if !x.Unsatisfied && g.Pct(30) {
		x.Late = engine.Pick(g, []string{"missing", "convfail", "convneeds"})
	}
	c := &engine.Case{}
	c.SetX(&x)
	return c
}

func TestC17(t *testing.T) { runProp(t, "C17", genC17) }
