package props

import (
	"fmt"
	"testing"

	"github.com/hashicorp/go-argmapper/internal/graph"
	"github.com/hashicorp/go-argmapper/verifharness/engine"
	"pgregory.net/rapid"
)

func init() { evaluators["C18"] = evalC18 }

// chain follows the predecessor map from v; it returns the vertex ids visited
// (v first) and false if the chain does not terminate within n+1 steps.
func chain(edgeTo map[interface{}]graph.Vertex, vs []graph.Vertex, v, n int) ([]int, bool) {
	var ids []int
	cur := vs[v]
	for steps := 0; cur != nil; steps++ {
		if steps > n+1 {
			return ids, false
		}
		ids = append(ids, engine.VID(cur))
		cur = edgeTo[graph.VertexID(cur)]
	}
	return ids, true
}

// checkPaths validates dist/edgeTo (as returned by a single-source search from
// src) against the reference distance row ref. checkUnreachable: also apply
// the "never leads back to the source" clause.
func checkPaths(v *engine.Verdict, what string, g *graph.Graph, vs []graph.Vertex, w map[[2]int]int, src int, ref []int,
	dist map[interface{}]int, edgeTo map[interface{}]graph.Vertex, skipSrc bool) {
	n := len(vs)
	for t := 0; t < n && v.Fail == ""; t++ {
		if skipSrc && t == src {
			continue
		}
		ids, ok := chain(edgeTo, vs, t, n)
		if ref[t] == engine.Unreachable {
			if !ok {
				v.Failf("%s: predecessor chain of unreachable vertex %d does not terminate", what, t)
				return
			}
			for _, id := range ids {
				if id == src && t != src {
					v.Failf("%s: predecessor chain of unreachable vertex %d leads back to the source %d", what, t, src)
					return
				}
			}
			continue
		}
		got, present := dist[graph.VertexID(vs[t])]
		if !present {
			v.Failf("%s: no distance reported for reachable vertex %d", what, t)
			return
		}
		if got != ref[t] {
			v.Failf("%s: distance to %d is %d, true minimum is %d", what, t, got, ref[t])
			return
		}
		if !ok {
			v.Failf("%s: predecessor chain of %d does not terminate", what, t)
			return
		}
		path := g.EdgeToPath(vs[t], edgeTo)
		if len(path) != len(ids) {
			v.Failf("%s: EdgeToPath(%d) has %d vertices, predecessor chain has %d", what, t, len(path), len(ids))
			return
		}
		for i := range path {
			if engine.VID(path[i]) != ids[len(ids)-1-i] {
				v.Failf("%s: EdgeToPath(%d) is not the reversed predecessor chain", what, t)
				return
			}
		}
		if engine.VID(path[0]) != src || engine.VID(path[len(path)-1]) != t {
			v.Failf("%s: path to %d runs %d..%d, want %d..%d", what, t, engine.VID(path[0]), engine.VID(path[len(path)-1]), src, t)
			return
		}
		sum := 0
		for i := 0; i+1 < len(path); i++ {
			wt, exists := w[[2]int{engine.VID(path[i]), engine.VID(path[i+1])}]
			if !exists {
				v.Failf("%s: path to %d uses non-existent edge %d->%d", what, t, engine.VID(path[i]), engine.VID(path[i+1]))
				return
			}
			sum += wt
		}
		if sum != ref[t] {
			v.Failf("%s: path to %d has weight %d, distance is %d", what, t, sum, ref[t])
			return
		}
	}
}

func evalC18(c *engine.Case) engine.Verdict {
	var v engine.Verdict
	var gc engine.GraphCase
	if err := c.GetX(&gc); err != nil {
		v.Failf("bad case: %v", err)
		return v
	}
	reps := c.Reps
	if reps <= 0 {
		reps = 1
	}
	w := gc.Weights()
	ref, representable := engine.SingleSource(gc.N, w, gc.Src)
	if !representable {
		// the true distance of some reachable vertex does not fit an int
		v.Class("domain-miss:distance-not-representable")
		return v
	}
	for rep := 0; rep < reps && v.Fail == ""; rep++ {
		g, vs := gc.Build()
		var o engine.Outcome
		var dist map[interface{}]int
		var edgeTo map[interface{}]graph.Vertex
		engine.Protect(&o, func() { dist, edgeTo = g.Dijkstra(vs[gc.Src]) })
		if o.Panic != "" {
			v.Failf("Dijkstra panicked: %s", o.Panic)
			break
		}
		checkPaths(&v, "Dijkstra", g, vs, w, gc.Src, ref, dist, edgeTo, false)
	}
	// classification
	reach, multiPred, longer, unreachable := 0, false, false, 0
	for t := 0; t < gc.N; t++ {
		if ref[t] == engine.Unreachable {
			unreachable++
			continue
		}
		reach++
		preds := 0
		for e := range w {
			if e[1] == t && e[0] != t && ref[e[0]] != engine.Unreachable {
				preds++
			}
		}
		if preds >= 2 && t != gc.Src {
			multiPred = true
		}
		// a cheaper multi-edge route than the direct edge
		if wt, ok := w[[2]int{gc.Src, t}]; ok && ref[t] < wt {
			longer = true
		}
	}
	if multiPred {
		v.Class("relaxation-choice")
	}
	if longer {
		v.Class("detour-cheaper-than-direct-edge")
	}
	if unreachable > 0 {
		v.Class("has-unreachable")
	}
	if gc.Hash {
		v.Class("hashcode-vertices")
	}
	if gc.Uncmp {
		v.Class("non-comparable-vertex-values")
	}
	if gc.HashKey {
		v.Class("hash-codes-that-are-hashable-themselves")
	}
	for t := 0; t < gc.N; t++ {
		if ref[t] == int(^uint(0)>>1) {
			v.Class("distance-exactly-the-largest-int")
			break
		}
	}
	for e := range w {
		if e[0] == e[1] {
			v.Class("self-loop")
			break
		}
	}
	zero := false
	for _, wt := range w {
		if wt == 0 {
			zero = true
		}
	}
	if zero {
		v.Class("zero-weight")
	}
	for _, wt := range w {
		if wt >= 1<<31-1 {
			v.Class("weight-beyond-32-bits")
			break
		}
	}
	for _, wt := range w {
		if wt >= 1<<62 {
			v.Class("weight-near-the-largest-int")
			break
		}
	}
	if gc.N > 24 {
		v.Class("vertices>24")
	}
	if gc.CopyAt > 0 {
		v.Class("built-through-a-copy")
	}
	v.Class(fmt.Sprintf("reachable=%d", min(reach/4*4, 20)))
	v.NonTrivial = multiPred
	return v
}

func genC18(g engine.G) *engine.Case {
	gc := engine.GenGraphCase(g, "any", 24, 1000)
	if g.Pct(5) {
		// weights close to the largest int: most path sums do not fit an int
		// (they are farther than anything representable), the shortest ones do
		const maxInt = int(^uint(0) >> 1)
		pal := []int{0, 0, 1, 2, 5, maxInt, maxInt - 1, maxInt - 2, maxInt - 5, maxInt / 2, maxInt/2 + 1, maxInt / 3}
		for i := range gc.Edges {
			gc.Edges[i][2] = engine.Pick(g, pal)
		}
	}
	c := &engine.Case{Reps: 3}
	c.SetX(gc)
	return c
}

func TestC18(t *testing.T) { runProp(t, "C18", genC18) }

// FuzzC18 drives the same property through Go's coverage-guided fuzzer
// (thorough tier supplement).
func FuzzC18(f *testing.F) { fuzzProp(f, "C18", genC18) }

func fuzzProp(f *testing.F, prop string, gen func(g engine.G) *engine.Case) {
	eval := evaluators[prop]
	r := engine.NewRunner(prop + "fuzz")
	f.Cleanup(r.Flush)
	f.Fuzz(rapid.MakeFuzz(func(rt *rapid.T) {
		c := gen(engine.G{T: rt})
		c.Prop = prop
		v := r.Eval(c, eval)
		if v.Fail != "" {
			rt.Fatalf("property %s violated: %s", prop, v.Fail)
		}
	}))
}
