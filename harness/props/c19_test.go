package props

import (
	"fmt"
	"sort"
	"testing"

	"github.com/hashicorp/go-argmapper/internal/graph"
	"github.com/hashicorp/go-argmapper/verifharness/engine"
)

func init() { evaluators["C19"] = evalC19 }

// GOp is one step of a graph history. H selects a handle (mod the number of
// live handles); U, V select vertex ids in 0..MaxID-1.
type GOp struct {
	Op string `json:"op"` // add, addow, edge, edgew, rmedge, rm, copy, rev, zero
	H  int    `json:"h"`
	U  int    `json:"u,omitempty"`
	V  int    `json:"v,omitempty"`
	W  int    `json:"w,omitempty"`
}

type GHist struct {
	Hash bool `json:"hash"` // *HV vertices (payload identity observable) or plain ints
	// HashKey (with Hash): *HVK vertices, whose hash code is itself a value
	// that implements VertexHashable (code that hashes a hash code again ends
	// up somewhere else)
	HashKey bool  `json:"hashKey,omitempty"`
	MaxID   int   `json:"maxid"`
	Ops     []GOp `json:"ops"`
}

// model of one underlying store
type gstore struct {
	payload map[int]graph.Vertex // id -> representative object
	edges   map[[2]int]int       // (u,v) in store orientation -> weight
	hashKey bool                 // vertices are *HVK: their id is an HK value
}

type ghandle struct {
	g    *graph.Graph
	st   *gstore
	flip bool
}

func (s *gstore) clone() *gstore {
	c := &gstore{payload: map[int]graph.Vertex{}, edges: map[[2]int]int{}, hashKey: s.hashKey}
	for k, v := range s.payload {
		c.payload[k] = v
	}
	for k, v := range s.edges {
		c.edges[k] = v
	}
	return c
}

func (h *ghandle) key(u, v int) [2]int {
	if h.flip {
		return [2]int{v, u}
	}
	return [2]int{u, v}
}

func idsOf(vs []graph.Vertex) []int {
	out := make([]int, 0, len(vs))
	for _, v := range vs {
		out = append(out, engine.VID(v))
	}
	sort.Ints(out)
	return out
}

func eqInts(a, b []int) bool {
	if len(a) != len(b) {
		return false
	}
	for i := range a {
		if a[i] != b[i] {
			return false
		}
	}
	return true
}

// checkHandle compares every observation of one handle with its model.
func checkHandle(v *engine.Verdict, hi int, h *ghandle, maxID int, deep bool) {
	st := h.st
	var want []int
	for id := range st.payload {
		want = append(want, id)
	}
	sort.Ints(want)
	vsGot := h.g.Vertices()
	if got := idsOf(vsGot); !eqInts(got, want) {
		v.Failf("handle %d: Vertices() = %v, model has %v", hi, got, want)
		return
	}
	for _, x := range vsGot {
		if p := st.payload[engine.VID(x)]; p != x {
			v.Failf("handle %d: Vertices() returns object %v for id %d, model payload is %v", hi, x, engine.VID(x), p)
			return
		}
	}
	for id := 0; id < maxID; id++ {
		p, present := st.payload[id]
		var key interface{} = id
		if p != nil {
			// (the id of a vertex is its hash code, whatever that is)
			key = graph.VertexID(p)
		} else if st.hashKey {
			key = engine.HK{ID: id}
		}
		got := h.g.Vertex(key)
		if !present {
			if got != nil {
				v.Failf("handle %d: Vertex(%d) = %v for an absent vertex", hi, id, got)
				return
			}
			continue
		}
		if got != p {
			v.Failf("handle %d: Vertex(%d) returned %v, model payload is %v", hi, id, got, p)
			return
		}
		var wantOut, wantIn []int
		for e := range st.edges {
			a, b := e[0], e[1]
			if h.flip {
				a, b = b, a
			}
			if a == id {
				wantOut = append(wantOut, b)
			}
			if b == id {
				wantIn = append(wantIn, a)
			}
		}
		sort.Ints(wantOut)
		sort.Ints(wantIn)
		outs, ins := h.g.OutEdges(p), h.g.InEdges(p)
		if got := idsOf(outs); !eqInts(got, wantOut) {
			v.Failf("handle %d: OutEdges(%d) = %v, model says %v", hi, id, got, wantOut)
			return
		}
		if got := idsOf(ins); !eqInts(got, wantIn) {
			v.Failf("handle %d: InEdges(%d) = %v, model says %v", hi, id, got, wantIn)
			return
		}
		for _, x := range append(outs, ins...) {
			if x == nil || st.payload[engine.VID(x)] != x {
				v.Failf("handle %d: neighbour object %v of %d is not the representative payload", hi, x, id)
				return
			}
		}
	}
	if !deep {
		return
	}
	// weights: observed through the shortest-path search against the reference
	ids := want
	if len(ids) == 0 {
		return
	}
	idx := map[int]int{}
	for i, id := range ids {
		idx[id] = i
	}
	w := map[[2]int]int{}
	for e, wt := range st.edges {
		a, b := e[0], e[1]
		if h.flip {
			a, b = b, a
		}
		w[[2]int{idx[a], idx[b]}] = wt
	}
	d := engine.FloydWarshall(len(ids), w)
	for si, sid := range ids {
		var o engine.Outcome
		var dist map[interface{}]int
		engine.Protect(&o, func() { dist, _ = h.g.Dijkstra(st.payload[sid]) })
		if o.Panic != "" {
			v.Failf("handle %d: Dijkstra(%d) panicked: %s", hi, sid, o.Panic)
			return
		}
		for ti, tid := range ids {
			if d[si][ti] == engine.Inf {
				continue
			}
			if got := dist[graph.VertexID(st.payload[tid])]; got != d[si][ti] {
				v.Failf("handle %d: distance %d->%d is %d, model (last weight wins) says %d", hi, sid, tid, got, d[si][ti])
				return
			}
		}
		if si >= 2 {
			break // two sources per check are enough to observe every weight over time
		}
	}
}

func evalC19(c *engine.Case) engine.Verdict {
	var v engine.Verdict
	var gh GHist
	if err := c.GetX(&gh); err != nil {
		v.Failf("bad case: %v", err)
		return v
	}
	serial := 0
	mk := func(id int) graph.Vertex {
		if !gh.Hash {
			return id
		}
		serial++
		if gh.HashKey {
			return &engine.HVK{ID: id}
		}
		return &engine.HV{ID: id, Serial: serial}
	}
	h0 := &ghandle{g: &graph.Graph{}, st: &gstore{payload: map[int]graph.Vertex{}, edges: map[[2]int]int{}, hashKey: gh.Hash && gh.HashKey}}
	handles := []*ghandle{h0}
	rmWithEdges, mutAfterShare, overwrote, reAdded := false, false, false, false
	missingEndpoint := false
	shared := false
	for step, op := range gh.Ops {
		h := handles[op.H%len(handles)]
		st := h.st
		u, w2 := op.U%gh.MaxID, op.V%gh.MaxID
		var o engine.Outcome
		engine.Protect(&o, func() {
			switch op.Op {
			case "add":
				nv := mk(u)
				h.g.Add(nv)
				if _, ok := st.payload[u]; !ok {
					st.payload[u] = nv
				} else {
					reAdded = true
				}
			case "addow":
				nv := mk(u)
				h.g.AddOverwrite(nv)
				if _, ok := st.payload[u]; ok {
					overwrote = true
				}
				st.payload[u] = nv
			case "edge", "edgew":
				pu, ok1 := st.payload[u]
				pv, ok2 := st.payload[w2]
				if !ok1 || !ok2 {
					// an endpoint is not in the graph: documented to do
					// nothing ("Both v1 and v2 must already be in the Graph
					// via Add or this will do nothing")
					if op.Op == "edgew" {
						h.g.AddEdgeWeighted(mk(u), mk(w2), op.W)
					} else {
						h.g.AddEdge(mk(u), mk(w2))
					}
					missingEndpoint = true
					return
				}
				// address the vertices through fresh objects with the same
				// identity half of the time
				if gh.Hash && op.W%2 == 1 {
					pu, pv = &engine.HV{ID: u, Serial: -1}, &engine.HV{ID: w2, Serial: -1}
					if gh.HashKey {
						pu, pv = &engine.HVK{ID: u}, &engine.HVK{ID: w2}
					}
				}
				wt := 1
				if op.Op == "edgew" {
					wt = op.W
					h.g.AddEdgeWeighted(pu, pv, wt)
				} else {
					h.g.AddEdge(pu, pv)
				}
				st.edges[h.key(u, w2)] = wt
			case "rmedge":
				h.g.RemoveEdge(mk(u), mk(w2))
				delete(st.edges, h.key(u, w2))
			case "rm":
				in, out := false, false
				for e := range st.edges {
					if e[0] == u {
						out = true
					}
					if e[1] == u {
						in = true
					}
				}
				if in && out {
					rmWithEdges = true
				}
				h.g.Remove(mk(u))
				delete(st.payload, u)
				for e := range st.edges {
					if e[0] == u || e[1] == u {
						delete(st.edges, e)
					}
				}
			case "copy":
				if len(handles) < 6 {
					handles = append(handles, &ghandle{g: h.g.Copy(), st: st.clone(), flip: h.flip})
					shared = true
				}
			case "rev":
				if len(handles) < 6 {
					handles = append(handles, &ghandle{g: h.g.Reverse(), st: st, flip: !h.flip})
					shared = true
				}
			case "rev2":
				if len(handles) < 6 {
					handles = append(handles, &ghandle{g: h.g.Reverse().Reverse(), st: st, flip: h.flip})
					shared = true
				}
			case "zero":
				// a fresh zero-value graph, and (every other time) a reversed
				// view of it taken before anything was added
				if len(handles) < 5 {
					zs := &gstore{payload: map[int]graph.Vertex{}, edges: map[[2]int]int{}, hashKey: gh.Hash && gh.HashKey}
					zg := &graph.Graph{}
					handles = append(handles, &ghandle{g: zg, st: zs})
					if op.U%2 == 0 {
						handles = append(handles, &ghandle{g: zg.Reverse(), st: zs, flip: true})
						shared = true
					}
				}
			}
		})
		if o.Panic != "" {
			v.Failf("step %d (%+v) panicked: %s", step, op, o.Panic)
			break
		}
		if shared && op.Op != "copy" && op.Op != "rev" && op.Op != "rev2" && op.Op != "zero" {
			mutAfterShare = true
		}
		deep := step%4 == 3 || step == len(gh.Ops)-1
		for hi, hh := range handles {
			checkHandle(&v, hi, hh, gh.MaxID, deep)
			if v.Fail != "" {
				v.Fail = fmt.Sprintf("after step %d (%+v): %s", step, op, v.Fail)
				break
			}
		}
		if v.Fail != "" {
			break
		}
	}
	if rmWithEdges {
		v.Class("remove-vertex-with-in-and-out-edges")
	}
	if mutAfterShare {
		v.Class("mutation-after-copy-or-reverse")
	}
	if overwrote {
		v.Class("overwrite-existing")
	}
	if missingEndpoint {
		v.Class("edge-with-missing-endpoint")
	}
	if reAdded {
		v.Class("re-add-existing")
	}
	if gh.Hash {
		v.Class("hashcode-vertices")
	}
	if gh.Hash && gh.HashKey {
		v.Class("hash-codes-that-are-hashable-themselves")
	}
	v.Class(fmt.Sprintf("handles=%d", len(handles)))
	v.NonTrivial = rmWithEdges || mutAfterShare
	return v
}

func genC19(g engine.G) *engine.Case {
	gh := GHist{Hash: g.Pct(70), MaxID: g.Int(2, 7)}
	gh.HashKey = gh.Hash && g.Pct(25)
	n := g.Int(4, 40)
	early := g.Pct(25)
	ops := []string{"add", "add", "add", "addow", "edge", "edge", "edgew", "edgew", "edgew", "rmedge", "rm", "copy", "rev", "rev2", "zero"}
	for i := 0; i < n; i++ {
		op := GOp{Op: engine.Pick(g, ops), H: g.Int(0, 5), U: g.Int(0, gh.MaxID-1), V: g.Int(0, gh.MaxID-1)}
		if i < 3 {
			op.Op = "add"
		}
		if i == 0 && early {
			// take a view of the still untouched zero-value graph first
			op.Op, op.H = engine.Pick(g, []string{"rev", "rev2", "copy"}), 0
		}
		if i > 0 && i < 4 && early {
			op.H = g.Int(0, 1) // mutate through either the graph or the early view
		}
		if op.Op == "edgew" || op.Op == "edge" {
			op.W = g.Int(0, 9)
			if g.Pct(6) {
				op.W = engine.Pick(g, []int{1<<31 - 1, 1 << 31, 3000000000, 1 << 36})
			}
		}
		gh.Ops = append(gh.Ops, op)
	}
	c := &engine.Case{}
	c.SetX(&gh)
	return c
}

func TestC19(t *testing.T) { runProp(t, "C19", genC19) }
func FuzzC19(f *testing.F) { fuzzProp(f, "C19", genC19) }
