package props

import (
	"fmt"
	"sort"
	"testing"

	"github.com/hashicorp/go-argmapper/internal/graph"
	"github.com/hashicorp/go-argmapper/verifharness/engine"
)

func init() { evaluators["C20"] = evalC20 }

func evalC20(c *engine.Case) engine.Verdict {
	var v engine.Verdict
	var gc engine.GraphCase
	if err := c.GetX(&gc); err != nil {
		v.Failf("bad case: %v", err)
		return v
	}
	reps := c.Reps
	if reps <= 0 {
		reps = 1
	}
	n := gc.N
	w := gc.Weights()
	reach := engine.Reach(n, w)
	cyclic := false
	for i := 0; i < n; i++ {
		if reach[i][i] {
			cyclic = true
		}
	}
	decl := map[int]bool{}
	for _, d := range gc.Decline {
		decl[d%n] = true
	}

	// ---- expected DFS report set: vertices != src reachable through paths
	// whose interior vertices all descend.
	expect := map[int]bool{}
	{
		seen := map[int]bool{gc.Src: true}
		stack := []int{gc.Src}
		for len(stack) > 0 {
			u := stack[len(stack)-1]
			stack = stack[:len(stack)-1]
			for e := range w {
				if e[0] != u {
					continue
				}
				t := e[1]
				if t == gc.Src {
					continue
				}
				expect[t] = true
				if !seen[t] && !decl[t] {
					seen[t] = true
					stack = append(stack, t)
				}
			}
		}
	}
	// SCC reference classes
	sccOf := make([]int, n)
	for i := range sccOf {
		sccOf[i] = -1
	}
	nscc, bigSCC := 0, false
	for i := 0; i < n; i++ {
		if sccOf[i] >= 0 {
			continue
		}
		sccOf[i] = nscc
		size := 1
		for j := i + 1; j < n; j++ {
			if reach[i][j] && reach[j][i] {
				sccOf[j] = nscc
				size++
			}
		}
		if size >= 2 {
			bigSCC = true
		}
		nscc++
	}

	for rep := 0; rep < reps && v.Fail == ""; rep++ {
		g, vs := gc.Build()

		// ---- DFS
		reports := map[int]int{}
		var o engine.Outcome
		var dfsErr error
		engine.Protect(&o, func() {
			dfsErr = g.DFS(vs[gc.Src], func(x graph.Vertex, next func() error) error {
				id := engine.VID(x)
				reports[id]++
				if decl[id] {
					return nil
				}
				return next()
			})
		})
		if o.Panic != "" {
			v.Failf("DFS panicked: %s", o.Panic)
			break
		}
		if dfsErr != nil {
			v.Failf("DFS returned error %v although no callback failed", dfsErr)
			break
		}
		for id := range expect {
			if reports[id] == 0 {
				v.Failf("DFS from %d (decline %v) did not report reachable vertex %d", gc.Src, gc.Decline, id)
			}
		}
		for id, k := range reports {
			if !expect[id] {
				v.Failf("DFS from %d (decline %v) reported vertex %d which is not reachable without passing a declined vertex (or is the start)", gc.Src, gc.Decline, id)
			}
			if !decl[id] && k != 1 {
				v.Failf("DFS from %d reported descended vertex %d %d times", gc.Src, id, k)
			}
			if decl[id] {
				indeg := 0
				for e := range w {
					if e[1] == id {
						indeg++
					}
				}
				if k > indeg {
					v.Failf("DFS reported declined vertex %d %d times but it has only %d incoming edges", id, k, indeg)
				}
			}
		}
		if v.Fail != "" {
			break
		}

		// ---- KahnSort
		var order graph.TopoOrder
		o = engine.Outcome{}
		engine.Protect(&o, func() { order = g.KahnSort() })
		if cyclic {
			if o.Panic == "" {
				v.Failf("KahnSort returned %d vertices for a cyclic graph instead of refusing", len(order))
				break
			}
		} else {
			if o.Panic != "" {
				v.Failf("KahnSort panicked on an acyclic graph: %s", o.Panic)
				break
			}
			pos := map[int]int{}
			for i, x := range order {
				id := engine.VID(x)
				if _, dup := pos[id]; dup {
					v.Failf("KahnSort lists vertex %d twice", id)
				}
				pos[id] = i
			}
			if len(pos) != n || len(order) != n {
				v.Failf("KahnSort returned %d entries (%d distinct) for %d vertices", len(order), len(pos), n)
			}
			for e := range w {
				if pos[e[0]] >= pos[e[1]] {
					v.Failf("KahnSort places %d (pos %d) not before %d (pos %d) despite edge %d->%d", e[0], pos[e[0]], e[1], pos[e[1]], e[0], e[1])
				}
			}
			if v.Fail != "" {
				break
			}
			// the graph itself must be untouched by the sort (it works on a copy)
			for e := range w {
				found := false
				for _, x := range g.OutEdges(vs[e[0]]) {
					if engine.VID(x) == e[1] {
						found = true
					}
				}
				if !found {
					v.Failf("KahnSort removed edge %d->%d from the graph it sorted", e[0], e[1])
				}
			}
		}
		if v.Fail != "" {
			break
		}

		// ---- StronglyConnected
		var comps [][]graph.Vertex
		o = engine.Outcome{}
		engine.Protect(&o, func() { comps = g.StronglyConnected() })
		if o.Panic != "" {
			v.Failf("StronglyConnected panicked: %s", o.Panic)
			break
		}
		seen := map[int]int{}
		for ci, comp := range comps {
			if len(comp) == 0 {
				v.Failf("StronglyConnected returned an empty component")
			}
			for _, x := range comp {
				id := engine.VID(x)
				if _, dup := seen[id]; dup {
					v.Failf("StronglyConnected lists vertex %d in two components", id)
				}
				seen[id] = ci
			}
		}
		if len(seen) != n {
			v.Failf("StronglyConnected covers %d of %d vertices", len(seen), n)
		}
		if v.Fail == "" {
			for i := 0; i < n; i++ {
				for j := i + 1; j < n; j++ {
					same := seen[i] == seen[j]
					want := sccOf[i] == sccOf[j]
					if same != want {
						v.Failf("StronglyConnected: vertices %d and %d same-component=%v, mutual reachability=%v", i, j, same, want)
					}
				}
			}
		}
		if v.Fail != "" {
			break
		}

		// ---- TopoShortestPath on single-rooted DAGs
		if gc.Kind == "rooted" && !cyclic {
			o = engine.Outcome{}
			var dist map[interface{}]int
			var edgeTo map[interface{}]graph.Vertex
			var L graph.TopoOrder
			engine.Protect(&o, func() {
				L = g.KahnSort()
				dist, edgeTo = g.TopoShortestPath(L)
			})
			if o.Panic != "" {
				v.Failf("TopoShortestPath panicked: %s", o.Panic)
				break
			}
			root := engine.VID(L[0])
			tref, representable := engine.SingleSource(n, w, root)
			if !representable {
				// the true distance of some vertex does not fit an int
				v.Class("domain-miss:distance-not-representable")
				break
			}
			checkPaths(&v, "TopoShortestPath", g, vs, w, root, tref, dist, edgeTo, true)
			if v.Fail != "" {
				break
			}
			// agreement with the general search
			dd, _ := g.Dijkstra(vs[root])
			for t := 0; t < n; t++ {
				if t == root {
					continue
				}
				if dist[graph.VertexID(vs[t])] != dd[graph.VertexID(vs[t])] {
					v.Failf("TopoShortestPath distance to %d = %d, Dijkstra says %d", t, dist[graph.VertexID(vs[t])], dd[graph.VertexID(vs[t])])
				}
			}
		}
	}

	// classification
	if cyclic {
		v.Class("cyclic")
	} else {
		v.Class("acyclic")
	}
	if bigSCC {
		v.Class("scc>=2")
	}
	gate := false
	for id := range decl {
		if expect[id] {
			// declined and reported: does it hide something?
			for e := range w {
				if e[0] == id && e[1] != gc.Src && !expect[e[1]] {
					gate = true
				}
			}
		}
	}
	if gate {
		v.Class("declined-vertex-hides-descendant")
	}
	if len(decl) > 0 {
		v.Class("has-decline-set")
	}
	multiOrder := false
	if !cyclic && n >= 2 {
		// two incomparable vertices => >= 2 topological orders
		for i := 0; i < n && !multiOrder; i++ {
			for j := i + 1; j < n; j++ {
				if !reach[i][j] && !reach[j][i] {
					multiOrder = true
					break
				}
			}
		}
	}
	if multiOrder {
		v.Class("multiple-topological-orders")
	}
	v.Class("kind-" + gc.Kind)
	if gc.Hash {
		v.Class("hashcode-vertices")
	}
	if gc.Uncmp {
		v.Class("non-comparable-vertex-values")
	}
	if gc.HashKey {
		v.Class("hash-codes-that-are-hashable-themselves")
	}
	if n > 24 {
		v.Class("vertices>24")
	}
	v.Class(fmt.Sprintf("n=%d", min(n/4*4, 20)))
	v.NonTrivial = bigSCC || multiOrder || gate
	return v
}

func genC20(g engine.G) *engine.Case {
	kind := engine.Pick(g, []string{"any", "any", "dag", "rooted"})
	gc := engine.GenGraphCase(g, kind, 16, 50)
	if kind == "rooted" && g.Pct(12) {
		// weights close to the largest int (see C18)
		const maxInt = int(^uint(0) >> 1)
		pal := []int{0, 0, 1, 2, 5, maxInt, maxInt - 1, maxInt - 5, maxInt / 2, maxInt/2 + 1, maxInt / 3}
		for i := range gc.Edges {
			gc.Edges[i][2] = engine.Pick(g, pal)
		}
	}
	if g.Pct(60) {
		k := g.Int(1, 3)
		for i := 0; i < k; i++ {
			gc.Decline = append(gc.Decline, g.Int(0, gc.N-1))
		}
		sort.Ints(gc.Decline)
	}
	c := &engine.Case{Reps: 2}
	c.SetX(gc)
	return c
}

func TestC20(t *testing.T) { runProp(t, "C20", genC20) }
func FuzzC20(f *testing.F) { fuzzProp(f, "C20", genC20) }
