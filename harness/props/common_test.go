package props

import (
	"fmt"
	"os"
	"path/filepath"
	"runtime/debug"
	"sort"
	"strconv"
	"testing"
	"time"

	"github.com/hashicorp/go-argmapper/verifharness/engine"
	"pgregory.net/rapid"
)

type evalFunc func(*engine.Case) engine.Verdict

// evaluators maps a property id to its oracle. The rapid property, the corpus
// replay and the single-case replay all go through the same function.
var evaluators = map[string]evalFunc{}

func TestMain(m *testing.M) {
	// Runaway recursion must die quickly (fatal stack overflow) instead of
	// consuming a gigabyte per shard.
	debug.SetMaxStack(64 << 20)
	os.Exit(m.Run())
}

// runProp drives one property: gen draws a case through rapid, the evaluator
// judges it. The failure message is constant so that rapid's shrinker treats
// every failing variant as "the same failure"; the details go to the replay
// candidate written by the runner.
func runProp(t *testing.T, prop string, gen func(g engine.G) *engine.Case) {
	eval := evaluators[prop]
	if eval == nil {
		t.Fatalf("no evaluator for %s", prop)
	}
	r := engine.NewRunner(prop)
	defer r.Flush()
	rapid.Check(t, func(rt *rapid.T) {
		c := gen(engine.G{T: rt})
		c.Prop = prop
		v := r.Eval(c, eval)
		if v.Fail != "" {
			rt.Fatalf("property %s violated", prop)
		}
	})
}

func repsFactor() int {
	if s := os.Getenv("VERIF_REPS_FACTOR"); s != "" {
		if n, err := strconv.Atoi(s); err == nil && n > 0 {
			return n
		}
	}
	return 1
}

// TestReplay evaluates the case in $VERIF_REPLAY through the property's
// oracle, without rapid.
func TestReplay(t *testing.T) {
	path := os.Getenv("VERIF_REPLAY")
	if path == "" {
		t.Skip("VERIF_REPLAY not set")
	}
	rf, err := engine.ReadReplay(path)
	if err != nil {
		t.Fatalf("read: %v", err)
	}
	eval := evaluators[rf.Case.Prop]
	if eval == nil {
		t.Fatalf("no evaluator for %q", rf.Case.Prop)
	}
	c := rf.Case
	if c.Reps <= 0 {
		c.Reps = 1
	}
	c.Reps *= repsFactor()
	stop := engine.GuardSingleCase(45*time.Second, func(reason string) {
		fmt.Printf("REPLAY-FAIL property=%s: %s\n", c.Prop, reason)
		os.Exit(1)
	})
	v := eval(c)
	stop()
	if v.Fail != "" && v.Known == "" {
		fmt.Printf("REPLAY-FAIL property=%s: %s\n", c.Prop, v.Fail)
		t.Fatalf("%s", v.Fail)
	}
	if v.Known != "" {
		fmt.Printf("REPLAY-KNOWN property=%s finding=%s\n", c.Prop, v.Known)
	}
	fmt.Printf("REPLAY-OK property=%s nontrivial=%v classes=%v\n", c.Prop, v.NonTrivial, v.Classes)
}

// TestCorpus replays every file of $VERIF_CORPUS_DIR (the committed
// regression corpus of one property).
func TestCorpus(t *testing.T) {
	dir := os.Getenv("VERIF_CORPUS_DIR")
	if dir == "" {
		t.Skip("VERIF_CORPUS_DIR not set")
	}
	files, _ := filepath.Glob(filepath.Join(dir, "*.json"))
	sort.Strings(files)
	n := 0
	for _, f := range files {
		rf, err := engine.ReadReplay(f)
		if err != nil {
			t.Fatalf("%s: %v", f, err)
		}
		eval := evaluators[rf.Case.Prop]
		if eval == nil {
			t.Fatalf("%s: no evaluator for %q", f, rf.Case.Prop)
		}
		c := rf.Case
		if c.Reps <= 0 {
			c.Reps = 1
		}
		c.Reps *= repsFactor()
		stop := engine.GuardSingleCase(45*time.Second, func(reason string) {
			fmt.Printf("CORPUS-FAIL file=%s property=%s: %s\n", f, c.Prop, reason)
			os.Exit(1)
		})
		v := eval(c)
		stop()
		if v.Fail != "" && v.Known == "" {
			fmt.Printf("CORPUS-FAIL file=%s property=%s: %s\n", f, c.Prop, v.Fail)
			t.Errorf("%s: %s", f, v.Fail)
			continue
		}
		n++
	}
	fmt.Printf("CORPUS-OK files=%d\n", n)
}
