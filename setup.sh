#!/bin/sh
# Run once after a fresh restore, offline: verifies the toolchain and warms the
# build cache by compiling the test binaries (plain and -race).
set -e
cd "$(dirname "$0")"
export GOFLAGS=-mod=mod GOPROXY=off GOSUMDB=off GOTOOLCHAIN=local
go version
test -d "$(go env GOMODCACHE)/pgregory.net/rapid@v1.3.0" || { echo "rapid v1.3.0 missing from module cache"; exit 2; }
exec ./check --build
