#!/usr/bin/env python3
"""Regenerates /verif/MANIFEST.json from harness/props.json (one check per
configured property; every other property of properties.jsonl is listed under
not_applicable with the reason recorded in props.json["_not_applicable"])."""
import json, os
V = os.path.dirname(os.path.dirname(os.path.abspath(__file__)))
cfg = json.load(open(os.path.join(V, "harness", "props.json")))
props = [json.loads(l) for l in open(os.path.join(V, "properties.jsonl")) if l.strip()]
na_reasons = cfg.get("_not_applicable", {})
checks, na = [], []
for p in props:
    pid = p["id"]
    pc = cfg.get(pid)
    if not pc:
        na.append({"property_id": pid, "reason": na_reasons.get(pid, "check not built yet (work in progress; see DESIGN.md section 5 for the planned generated check)")})
        continue
    checks.append({
        "property_id": pid,
        "quick_cmd": "./check %s --tier quick" % pid,
        "thorough_cmd": "./check %s --tier thorough" % pid,
        "evidence_file": "/verif/evidence/%s.json" % pid,
        "replay_cmd_template": "./check %s --replay {path}" % pid,
        "engine": "rapid-harness",
        "level_claimed": {
            "category": "exploration",
            "text": pc.get("level_text", "Generated-input search (rapid) against an explicit oracle; held on every case explored, says nothing beyond the explored bounds."),
            "design_ref": "DESIGN.md section 5, %s" % pid,
        },
        "level_note": pc.get("level_note", "Trusted: the Go toolchain/reflect, rapid's generators, the harness's instrumented function bodies and label tables (DESIGN.md sections 3-4, 8). Map iteration order and goroutine schedules are sampled, not enumerated."),
        "technique": pc.get("technique", "property-based testing (rapid): generated scenarios vs. provenance/label oracle"),
    })
m = {
    "version": 1,
    "setup_cmd": "./setup.sh",
    "hooks": {
        "guard": "verif",
        "enable": "no source hooks are needed: every observation goes through the public API and internal/graph's exported methods (the harness module path is nested under the repository's import path); checks build /repo as is",
        "baseline_off_cmd": "cd /repo && go test -vet=off -count=1 ./...",
        "source_commits": [],
        "add_only": True,
    },
    "engines": [{
        "name": "rapid-harness",
        "path": "/verif/harness",
        "serves_properties": [c["property_id"] for c in checks],
        "kind_free_text": "Go module (pgregory.net/rapid v1.3.0 generators + shrinking, -race for C11/C12, native go fuzzing as thorough-tier supplement for C18-C20) driven by /verif/check (python3): sharded child processes, journal for fatal crashes, corpus replay, evidence merge",
    }],
    "checks": checks,
    "notes": "All checks are property-based tests / fuzzing with explicit oracles (DESIGN.md). Exit 2 = inconclusive/infrastructure, never a violation. known-findings.json lists repaired defects (fixed:) and open findings.",
    "not_applicable": na,
}
json.dump(m, open(os.path.join(V, "MANIFEST.json"), "w"), indent=1)
print("checks:", len(checks), "not_applicable:", len(na))
