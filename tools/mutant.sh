#!/bin/sh
# usage: tools/mutant.sh <patch> <PROP>[,<PROP>...] [extra ./check args]
# Applies <patch> to a scratch worktree of /repo (never to /repo itself), runs
# the repository's own tests there, then the quick check(s) against it, and
# prints one summary line per property. The worktree is removed afterwards.
set -u
PATCH=$(readlink -f "$1"); PROPS=$2; shift 2
export GOFLAGS=-mod=mod GOPROXY=off GOSUMDB=off GOTOOLCHAIN=local
W=$(mktemp -d /tmp/mut.XXXXXX)
trap 'git -C /repo worktree remove --force "$W/wt" >/dev/null 2>&1; rm -rf "$W"' EXIT
git -C /repo worktree add -q --detach "$W/wt" HEAD || exit 2
if ! git -C "$W/wt" apply "$PATCH" 2>"$W/apply.err" && ! git -C "$W/wt" apply --3way "$PATCH" 2>>"$W/apply.err"; then echo "MUTANT $(basename $PATCH): patch does not apply: $(cat $W/apply.err)"; exit 2; fi
if ! (cd "$W/wt" && go build ./... ) >/dev/null 2>&1; then echo "MUTANT $(basename $PATCH): does not compile"; exit 2; fi
SUITE=pass
(cd "$W/wt" && GOFLAGS= go test -count=1 ./... >"$W/suite.log" 2>&1) || SUITE=FAIL
sed "s#=> /repo#=> $W/wt#" /verif/harness/go.mod > "$W/alt.mod"; cp /verif/harness/go.sum "$W/alt.sum"
for P in $(echo $PROPS | tr , ' '); do
  VERIF_MODFILE="$W/alt.mod" VERIF_BUILD_DIR="$W/build" VERIF_EVID_DIR="$W/evid" VERIF_REPLAY_DIR="$W/replays" \
    /verif/check $P "$@" >"$W/check.$P.log" 2>&1; RC=$?
  MSG=$(grep -B1 '^VIOLATION' "$W/check.$P.log" | head -1 | cut -c1-220)
  T=$(grep -o '[0-9.]*s$' "$W/check.$P.log" | tail -1)
  case $RC in 0) R=missed;; 1) R=CAUGHT;; *) R="inconclusive(rc=$RC) $(tail -2 $W/check.$P.log | tr '\n' ' ' | cut -c1-200)";; esac
  echo "MUTANT $(basename $PATCH) suite=$SUITE check=$P $R $T :: $MSG"
  # KEEP_REPLAYS=<dir>: keep the replay file(s) of a caught mutant (used to build the regression corpus)
  if [ -n "${KEEP_REPLAYS:-}" ] && [ $RC -eq 1 ]; then
    mkdir -p "$KEEP_REPLAYS/$P"
    for f in "$W"/replays/$P-*.json; do [ -f "$f" ] && cp "$f" "$KEEP_REPLAYS/$P/$(basename "$(dirname "$PATCH")")-$(basename "$PATCH" .patch | sed 's/\.diff$//')-$(basename "$f")"; done
  fi
done
