#!/bin/sh
# usage: tools/run_all.sh <quick|thorough> [seed]   -- runs every check in sequence, prints one line each
cd "$(dirname "$0")/.."
T=${1:-quick}; S=${2:-1}
L=$(mktemp -d /tmp/runall.XXXXXX); trap 'rm -rf "$L"' EXIT
for p in C01 C02 C03 C04 C05 C06 C07 C08 C09 C10 C11 C12 C13 C14 C15 C16 C17 C18 C19 C20; do
  VERIF_SEED=$S ./check $p --tier $T > $L/$p.log 2>&1; rc=$?
  echo "$p rc=$rc $(grep -a -E '^(C[0-9]+ (quick|thorough):|VIOLATION|GENERATOR-HEALTH|INCONCLUSIVE)' $L/$p.log | tr '\n' ' ' | cut -c1-300)"
done
