#!/bin/sh
# usage: tools/seedverify.sh <dir with patch.diff + demo_test.go> <demo package dir relative to repo root, e.g. . or internal/graph>
# Confirms a seeded change in a fresh scratch worktree of /repo: applies, builds, existing suite green 3x,
# demonstration fails with the change and passes without it. Prints one summary line.
D=$(readlink -f "$1"); PKG=${2:-.}
W=$(mktemp -d /tmp/sv.XXXXXX)
trap 'git -C /repo worktree remove --force "$W/wt" >/dev/null 2>&1; rm -rf "$W"' EXIT
git -C /repo worktree add -q --detach "$W/wt" HEAD || exit 2
cd "$W/wt"
git apply "$D/patch.diff" || { echo "SEED $(basename $D): patch does not apply"; exit 2; }
go build ./... && go vet ./... >/dev/null 2>&1 || { echo "SEED $(basename $D): build/vet fails"; exit 2; }
S=0; for i in 1 2 3; do go test -count=1 ./... >/dev/null 2>&1 && S=$((S+1)); done
cp "$D/demo_test.go" "$PKG/zz_seed_demo_test.go"
go test -count=1 ./$PKG >"$W/with.log" 2>&1; WITH=$?
git apply -R "$D/patch.diff"
go test -count=1 ./$PKG >"$W/without.log" 2>&1; WITHOUT=$?
echo "SEED $(basename $D): suite_green=$S/3 demo_with_change_rc=$WITH (want !=0) demo_without_change_rc=$WITHOUT (want 0)"
[ $WITHOUT -ne 0 ] && tail -5 "$W/without.log"
exit 0
